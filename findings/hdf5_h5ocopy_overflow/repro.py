import sys, faulthandler; faulthandler.enable()
sys.path.insert(0, "/verif")
from vmon import boot; boot.boot()
import numpy as np, h5py, dclab, warnings
warnings.simplefilter("ignore")
from dclab.rtdc_dataset.copier import rtdc_copy, h5ds_copy
w = sys.argv[1]
with dclab.new_dataset("" + str(__import__("pathlib").Path(__file__).with_name("input.rtdc")) + "") as ds, h5py.File("/dev/shm/crash_out.rtdc", "w") as h5c:
    o = ds["area_ratio"]
    if w == "nanmean": np.nanmean(o)
    elif w == "asarray": np.asarray(o)
    elif w == "slice": o[:]
    elif w == "mean": o.mean()
    elif w == "h5": ds.h5file["events/area_ratio"][:]
    elif w == "h5mean": np.nanmean(ds.h5file["events/area_ratio"])
    if len(sys.argv) > 2:
        h5c.require_group("events")
        for f in sys.argv[2].split(","):
            print("copy", f, flush=True)
            h5ds_copy(ds.h5file["events"], f, h5c["events"], recursive=True)
    else:
        rtdc_copy(src_h5file=ds.h5file, dst_h5file=h5c, features="scalar", include_basins=True, include_logs=True, include_tables=True, meta_prefix="")
print("ok", w)
