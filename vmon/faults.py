"""Failpoint machinery for C10 (fault enumeration).

Counting shims on the h5py / pathlib operations through which the command-line tasks touch
the file system.  In *count* mode they record the sequence of operations of a fault-free run;
with a target k they make operation k either raise OSError(EIO) or kill the process
(os._exit(137)) immediately before it is performed.  Everything runs in forked children of a
server process that never holds an open HDF5 file itself.
"""
import errno
import functools
import json
import os
import pathlib
import sys


class FP:
    count = 0
    target = None
    mode = None
    ops = []
    hit_path = None
    installed = False


def point(name):
    FP.count += 1
    if FP.target is None:
        FP.ops.append(name)
        return
    if FP.count == FP.target:
        with open(FP.hit_path, "w") as fd:
            fd.write(f"{FP.count} {name} {FP.mode}\n")
        FP.target = -1      # one fault per run
        if FP.mode == "kill":
            os._exit(137)
        raise OSError(errno.EIO, f"injected I/O error before operation {FP.count} ({name})")


def _wrap(owner, attr, name):
    orig = getattr(owner, attr)

    @functools.wraps(orig)
    def shim(*a, **kw):
        point(name)
        return orig(*a, **kw)
    setattr(owner, attr, shim)


def install():
    if FP.installed:
        return
    FP.installed = True
    import h5py
    import h5py.h5o
    from h5py._hl.attrs import AttributeManager
    _wrap(h5py.Dataset, "__setitem__", "Dataset.__setitem__")
    _wrap(h5py.Dataset, "resize", "Dataset.resize")
    _wrap(h5py.Group, "create_dataset", "Group.create_dataset")
    _wrap(h5py.Group, "create_group", "Group.create_group")
    _wrap(h5py.Group, "require_group", "Group.require_group")
    _wrap(h5py.Group, "__setitem__", "Group.__setitem__")
    _wrap(h5py.Group, "__delitem__", "Group.__delitem__")
    _wrap(AttributeManager, "__setitem__", "Attrs.__setitem__")
    _wrap(AttributeManager, "create", "Attrs.create")
    _wrap(h5py.h5o, "copy", "h5o.copy")
    _wrap(h5py.File, "close", "File.close")
    _wrap(pathlib.Path, "rename", "Path.rename")


def run_child(func, target=None, mode=None, hit_path=None, ops_path=None, quiet=True):
    """Fork; in the child install the shims and run func(). Returns the child's exit status
    (0 ok, 1 exception, 137 killed by the failpoint, other)."""
    sys.stdout.flush()
    sys.stderr.flush()
    pid = os.fork()
    if pid == 0:
        code = 1
        try:
            if quiet:
                dn = os.open(os.devnull, os.O_WRONLY)
                os.dup2(dn, 1)
                os.dup2(dn, 2)
            install()
            FP.count, FP.target, FP.mode, FP.ops, FP.hit_path = 0, target, mode, [], hit_path
            try:
                func()
                code = 0
            except BaseException as exc:
                code = 1
                if ops_path is not None:
                    with open(str(ops_path) + ".err", "w") as fd:
                        import traceback
                        fd.write(traceback.format_exc())
            if ops_path is not None and target is None:
                with open(ops_path, "w") as fd:
                    json.dump(FP.ops, fd)
        finally:
            os._exit(code)
    _, status = os.waitpid(pid, 0)
    if os.WIFEXITED(status):
        return os.WEXITSTATUS(status)
    return 1000 + os.WTERMSIG(status)


def call_in_child(func, timeout=None):
    """Run func() in a forked child and return its JSON-able result (verification steps that
    open HDF5 files are kept out of the fork server this way)."""
    r, w = os.pipe()
    sys.stdout.flush()
    pid = os.fork()
    if pid == 0:
        code = 0
        try:
            os.close(r)
            try:
                res = {"ok": True, "result": func()}
            except BaseException as exc:
                import traceback
                res = {"ok": False, "exc": repr(exc), "tb": traceback.format_exc()[-1500:]}
            with os.fdopen(w, "w") as fd:
                json.dump(res, fd)
        finally:
            os._exit(code)
    os.close(w)
    with os.fdopen(r) as fd:
        data = fd.read()
    os.waitpid(pid, 0)
    if not data:
        return {"ok": False, "exc": "verification child died"}
    return json.loads(data)
