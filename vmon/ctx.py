"""Shard context: the process-local monitor registry (counters, violations, samples)."""
import hashlib
import json
import time
import traceback

import numpy as np


def jsonable(obj, depth=0):
    """Best-effort conversion of witnesses to something json can store."""
    if depth > 6:
        return repr(obj)[:200]
    if obj is None or isinstance(obj, (bool, int, str)):
        return obj
    if isinstance(obj, float):
        if obj != obj or obj in (float("inf"), float("-inf")):
            return repr(obj)
        return obj
    if isinstance(obj, (np.bool_,)):
        return bool(obj)
    if isinstance(obj, np.integer):
        return int(obj)
    if isinstance(obj, np.floating):
        return jsonable(float(obj))
    if isinstance(obj, bytes):
        return {"bytes": obj[:64].hex(), "len": len(obj)}
    if isinstance(obj, np.ndarray):
        if obj.size <= 40:
            return {"dtype": str(obj.dtype), "shape": list(obj.shape),
                    "data": [jsonable(x, depth + 1) for x in obj.ravel().tolist()]}
        return {"dtype": str(obj.dtype), "shape": list(obj.shape),
                "sha1": hashlib.sha1(np.ascontiguousarray(obj).tobytes()).hexdigest(),
                "head": [jsonable(x, depth + 1) for x in obj.ravel()[:8].tolist()]}
    if isinstance(obj, dict):
        return {str(k): jsonable(v, depth + 1) for k, v in list(obj.items())[:200]}
    if isinstance(obj, (list, tuple, set, frozenset)):
        seq = list(obj)
        out = [jsonable(v, depth + 1) for v in seq[:200]]
        if len(seq) > 200:
            out.append(f"... {len(seq) - 200} more")
        return out
    return repr(obj)[:300]


def digest(obj):
    return hashlib.sha1(json.dumps(jsonable(obj), sort_keys=True).encode()).hexdigest()[:16]


class ShardCtx:
    MAX_VIOLATIONS = 200
    MAX_SAMPLES = 3

    def __init__(self, prop, spec):
        self.prop = prop
        self.spec = spec
        self.seed = int(spec.get("seed", 0))
        self.shard = int(spec.get("shard", 0))
        self.tier = spec.get("tier", "quick")
        self.monitors = {}      # monitor name -> number of oracle evaluations
        self.counters = {}      # free-form histograms
        self.nontrivial = set() # digests of distinct non-trivial cases
        self.samples = []
        self.violations = []
        self.known_hits = {}    # mechanism -> count
        self.vclasses = {}      # "monitor|finding" -> count
        self.case = None
        self.cases_run = 0
        self.errors = []
        self.t0 = time.time()
        self.soft_deadline = self.t0 + float(spec.get("soft_budget_s", 1e9))

    # ------------------------------------------------------------------ cases
    def case_ids(self):
        """Iterate over the case indices of this shard (honours replay restriction)."""
        only = self.spec.get("only_case")
        if only is not None:
            ids = [only]
        else:
            ids = self.spec["cases"]
            if isinstance(ids, dict):
                ids = range(ids["start"], ids["stop"], ids.get("step", 1))
        for idx in ids:
            if time.time() > self.soft_deadline:
                self.count("truncated_by_soft_budget")
                break
            self.case = idx
            self.cases_run += 1
            yield idx

    def rng(self, idx=None, salt=0):
        idx = self.case if idx is None else idx
        key = [self.seed, int(self.prop[1:]), int(salt)]
        if isinstance(idx, (list, tuple)):
            key += [int(i) for i in idx]
        else:
            key.append(int(idx))
        return np.random.default_rng(key)

    # --------------------------------------------------------------- recording
    def ev(self, monitor, n=1):
        self.monitors[monitor] = self.monitors.get(monitor, 0) + n

    def count(self, name, n=1):
        self.counters[name] = self.counters.get(name, 0) + n

    def mark_nontrivial(self, canonical_case):
        self.nontrivial.add(canonical_case if isinstance(canonical_case, str)
                            and len(canonical_case) == 16 else digest(canonical_case))

    def sample(self, obj):
        if len(self.samples) < self.MAX_SAMPLES:
            self.samples.append(jsonable(obj))

    def violation(self, monitor, witness, finding=None, message=""):
        """Record a violation. `finding` is the mechanism key of a known defect whose
        executable defect model reproduced the observed output (None otherwise)."""
        if finding is not None:
            self.known_hits[finding] = self.known_hits.get(finding, 0) + 1
        cls = f"{monitor}|{finding}"
        self.vclasses[cls] = self.vclasses.get(cls, 0) + 1
        key = (monitor, finding)
        n_same = sum(1 for v in self.violations if (v["monitor"], v["finding"]) == key)
        if n_same >= 5 or len(self.violations) >= self.MAX_VIOLATIONS:
            self.count(f"violations_not_stored[{monitor}]")
            self.count("violations_total")
            return
        self.count("violations_total")
        self.violations.append({
            "monitor": monitor, "finding": finding, "message": str(message)[:2000],
            "case": jsonable(self.case), "shard": self.shard,
            "witness": jsonable(witness)})

    def check(self, monitor, ok, witness=None, finding=None, message=""):
        """Count one oracle evaluation and record a violation when it disagrees."""
        self.ev(monitor)
        if not ok:
            self.violation(monitor, witness() if callable(witness) else witness,
                           finding=finding, message=message)
        return bool(ok)

    def error(self, where, exc=None):
        tb = traceback.format_exc() if exc is not None else ""
        if len(self.errors) < 10:
            self.errors.append({"where": where, "case": jsonable(self.case),
                                "exc": repr(exc)[:500], "tb": tb[-3000:]})
        self.count("harness_errors")

    def raised(self, monitor, where, exc, witness=None):
        """An exception escaped from a case.  If the innermost frame that belongs to either
        the monitored library or the harness is a library frame (the driver only called a
        public operation with arguments of the documented kind), the operation itself failed:
        a violation of `monitor`.  Otherwise it is a harness error (-> inconclusive)."""
        frames = traceback.extract_tb(exc.__traceback__)
        owner = None
        for fr in reversed(frames):
            fn = fr.filename.replace("\\", "/")
            if "/vmon/" in fn:
                owner = "harness"
                break
            if "/dclab/" in fn:
                owner = "library"
                break
        if owner == "library":
            tb = "".join(traceback.format_exception(type(exc), exc, exc.__traceback__))
            self.ev(monitor)
            w = dict(witness or {})
            w.update({"where": where, "exc": repr(exc)[:300], "traceback": tb[-1500:]})
            self.violation(monitor, w, message=f"{where}: the library raised {exc!r}")
        else:
            self.error(where, exc)

    def result(self):
        return {
            "prop": self.prop, "shard": self.shard, "cases_run": self.cases_run,
            "monitors": self.monitors, "counters": self.counters,
            "nontrivial": sorted(self.nontrivial), "samples": self.samples,
            "violations": self.violations, "known_hits": self.known_hits, "vclasses": self.vclasses,
            "errors": self.errors, "wall_s": time.time() - self.t0,
        }
