"""Transports for HTTPFile / RTDC_HTTP monitoring.

* FakeSession: no sockets; implements requests.Session.get for a dict url -> bytes with
  RFC 9110 range semantics and records every request.
* RangeServer: threaded loopback HTTP/1.1 server with the same semantics.

Range semantics (RFC 9110 section 14): a syntactically valid single range
`bytes=a-b` with a <= b and a < len gives 206 with bytes a..min(b, len-1); a >= len gives
416 with an (HTML) error body; a range whose last position is smaller than its first is
invalid and the header is ignored (200, full body).
"""
import hashlib
import http.server
import re
import socketserver
import threading

_RANGE = re.compile(r"^bytes=(\d+)-(\d*)$")
ERR416 = b"<html><body>416 Requested Range Not Satisfiable</body></html>"


def serve(blob, range_header):
    """-> (status, reason, headers, body)"""
    etag = '"' + hashlib.md5(blob).hexdigest() + '"'
    base = {"etag": etag, "accept-ranges": "bytes"}
    if range_header is None:
        return 200, "OK", dict(base, **{"content-length": str(len(blob))}), blob
    m = _RANGE.match(range_header.strip())
    if not m:
        return 200, "OK", dict(base, **{"content-length": str(len(blob))}), blob
    a = int(m.group(1))
    b = int(m.group(2)) if m.group(2) else len(blob) - 1
    if b < a:
        # invalid range-spec: the Range header field is ignored
        return 200, "OK", dict(base, **{"content-length": str(len(blob))}), blob
    if a >= len(blob):
        return (416, "Range Not Satisfiable",
                dict(base, **{"content-length": str(len(ERR416)),
                              "content-range": f"bytes */{len(blob)}"}), ERR416)
    b = min(b, len(blob) - 1)
    body = blob[a:b + 1]
    return (206, "Partial Content",
            dict(base, **{"content-length": str(len(body)),
                          "content-range": f"bytes {a}-{b}/{len(blob)}"}), body)


class FakeResponse:
    def __init__(self, status, reason, headers, body):
        self.status_code = status
        self.reason = reason
        self.headers = headers
        self.content = body
        self.ok = status < 400


class FakeSession:
    def __init__(self, resources):
        self.resources = resources
        self.requests = []  # (url, range header)
        self.closed = False

    def get(self, url, headers=None, stream=False, timeout=None, **kw):
        rng = (headers or {}).get("Range")
        self.requests.append((url, rng))
        blob = self.resources.get(url)
        if blob is None:
            return FakeResponse(404, "Not Found", {"content-length": "0"}, b"")
        return FakeResponse(*serve(blob, rng))

    def close(self):
        self.closed = True


class _Handler(http.server.BaseHTTPRequestHandler):
    protocol_version = "HTTP/1.1"
    disable_nagle_algorithm = True

    def log_message(self, *a):
        pass

    def setup(self):
        super().setup()
        with self.server.lock:
            self.server.conns.add(self.connection)

    def finish(self):
        with self.server.lock:
            self.server.conns.discard(self.connection)
        try:
            super().finish()
        except OSError:
            pass

    def _do(self, send_body):
        srv = self.server
        blob = srv.resources.get(self.path)
        with srv.lock:
            srv.requests.append((self.path, self.headers.get("Range")))
        target = getattr(srv, "redirects", {}).get(self.path)
        if target is not None:
            # a download link: temporary redirect to the object currently behind it
            self.send_response(302, "Found")
            self.send_header("Location", target)
            self.send_header("Content-Length", "0")
            self.end_headers()
            return
        if blob is None:
            self.send_response(404, "Not Found")
            self.send_header("Content-Length", "0")
            self.end_headers()
            return
        status, reason, headers, body = serve(blob, self.headers.get("Range"))
        self.send_response(status, reason)
        for k, v in headers.items():
            self.send_header(k, v)
        self.end_headers()
        if send_body:
            try:
                self.wfile.write(body)
            except (BrokenPipeError, ConnectionResetError):
                pass

    def do_GET(self):
        self._do(True)

    def do_HEAD(self):
        self._do(False)


class _TServer(socketserver.ThreadingMixIn, http.server.HTTPServer):
    daemon_threads = True
    allow_reuse_address = True
    request_queue_size = 64

    def handle_error(self, request, client_address):
        pass        # reset connections are expected (clients abandon streamed responses)


class RangeServer:
    def __init__(self):
        self.httpd = _TServer(("127.0.0.1", 0), _Handler)
        self.httpd.resources = {}
        self.httpd.requests = []
        self.httpd.lock = threading.Lock()
        self.httpd.conns = set()
        self.port = self.httpd.server_address[1]
        self.thread = threading.Thread(target=self.httpd.serve_forever,
                                       kwargs={"poll_interval": 0.05}, daemon=True)
        self.thread.start()

    def put(self, path, blob):
        if not path.startswith("/"):
            path = "/" + path
        self.httpd.resources[path] = blob
        return f"http://127.0.0.1:{self.port}{path}"

    def redirect(self, path, target_path):
        """`path` answers 302 -> target_path (can be re-pointed at any time)."""
        if not hasattr(self.httpd, "redirects"):
            self.httpd.redirects = {}
        self.httpd.redirects[path] = target_path
        return f"http://127.0.0.1:{self.port}{path}"

    @property
    def requests(self):
        return self.httpd.requests

    def close(self):
        self.httpd.shutdown()
        self.httpd.server_close()
        # keep-alive connections of clients that never close (dclab leaves the streamed header
        # request unread) would otherwise keep their handler threads and descriptors forever
        import socket
        with self.httpd.lock:
            conns = list(self.httpd.conns)
        for c in conns:
            try:
                c.shutdown(socket.SHUT_RDWR)
            except OSError:
                pass


_relaxed = False


def relax_timeouts(seconds=3):
    """dclab uses hard 0.5 s socket timeouts (with 100 retries). On an oversubscribed machine
    the in-process loopback server can be starved for longer than that; wall-clock must never
    decide a verdict, so the transport (not dclab) is told to wait longer."""
    global _relaxed
    if _relaxed:
        return
    _relaxed = True
    import requests.adapters
    orig = requests.adapters.HTTPAdapter.send

    def send(self, request, stream=False, timeout=None, **kw):
        return orig(self, request, stream=stream, timeout=seconds, **kw)
    requests.adapters.HTTPAdapter.send = send


def is_transport_timeout(exc):
    import requests
    text = repr(exc)
    return isinstance(exc, (requests.exceptions.Timeout, requests.exceptions.ConnectionError)) \
        or "ReadTimeout" in text or "ConnectTimeout" in text or "ConnectionError" in text


class FakeEndpoint:
    """Socket-free 'server': dclab's session cache hands out a FakeSession for the fake host and
    the URL availability probe of the HTTP basin is answered from the same resource table.
    Only the transport is replaced; HTTPFile, RTDC_HTTP and the basin logic run unchanged."""
    _n = 0

    def __init__(self):
        from dclab import http_utils
        from dclab.rtdc_dataset import fmt_http
        FakeEndpoint._n += 1
        self.netloc = f"fake-{FakeEndpoint._n}.invalid:80"
        self.resources = {}
        self.session = FakeSession(self.resources)
        self._http_utils, self._fmt_http = http_utils, fmt_http
        http_utils.session_cache.sessions[self.netloc] = self.session
        self._orig_avail = fmt_http.is_url_available
        ep = self

        def is_url_available(url, ret_reason=False):
            if url in ep.resources:
                return (True, "none") if ret_reason else True
            if ep.netloc in str(url):
                return (False, "not found") if ret_reason else False
            return ep._orig_avail(url, ret_reason=ret_reason)
        fmt_http.is_url_available = is_url_available

    def put(self, path, blob):
        if not path.startswith("/"):
            path = "/" + path
        url = f"http://{self.netloc}{path}"
        self.resources[url] = blob
        return url

    @property
    def requests(self):
        return self.session.requests

    def close(self):
        self._fmt_http.is_url_available = self._orig_avail
        self._http_utils.session_cache.sessions.pop(self.netloc, None)
