"""C18 workload generators: masks, polygons, ellipses, images, spill matrices.

Everything is a pure function of the numpy Generator handed in (seed, index -> case).
No dclab imports.
"""
import math

import numpy as np
import scipy.ndimage as ndi

S8 = np.ones((3, 3), dtype=bool)
D4 = [(0, 1), (1, 0), (0, -1), (-1, 0)]
D8 = D4 + [(1, 1), (1, -1), (-1, 1), (-1, -1)]


# ---------------------------------------------------------------------------- masks
def _largest_component(m):
    lab, n = ndi.label(m, structure=S8)
    if n <= 1:
        return m
    sizes = ndi.sum(m, lab, index=range(1, n + 1))
    return lab == (1 + int(np.argmax(sizes)))


def _tight(m):
    ys, xs = np.nonzero(m)
    return m[ys.min():ys.max() + 1, xs.min():xs.max() + 1]


def _grow(rng, shape, n, steps):
    H, W = shape
    m = np.zeros(shape, dtype=bool)
    y, x = int(rng.integers(0, H)), int(rng.integers(0, W))
    m[y, x] = True
    pts = [(y, x)]
    for _ in range(n):
        py, px = pts[int(rng.integers(len(pts)))]
        dy, dx = steps[int(rng.integers(len(steps)))]
        yy, xx = py + dy, px + dx
        if 0 <= yy < H and 0 <= xx < W and not m[yy, xx]:
            m[yy, xx] = True
            pts.append((yy, xx))
    return m


def _walk(rng, shape, n, steps):
    """one pixel wide random walk with momentum (thin structure)"""
    H, W = shape
    m = np.zeros(shape, dtype=bool)
    y, x = int(rng.integers(0, H)), int(rng.integers(0, W))
    m[y, x] = True
    d = steps[int(rng.integers(len(steps)))]
    for _ in range(n):
        if rng.random() < 0.3:
            d = steps[int(rng.integers(len(steps)))]
        yy, xx = y + d[0], x + d[1]
        if 0 <= yy < H and 0 <= xx < W:
            y, x = yy, xx
            m[y, x] = True
    return m


def ellipse_mask(a, b, theta, cx, cy, shape):
    """Pixels whose centre lies inside the ellipse (a along x before rotation)."""
    yy, xx = np.mgrid[0:shape[0], 0:shape[1]]
    dx, dy = xx - cx, yy - cy
    c, s = math.cos(theta), math.sin(theta)
    u = c * dx + s * dy
    v = -s * dx + c * dy
    return (u / a) ** 2 + (v / b) ** 2 <= 1.0


MASK_KINDS = ["blob4", "blob8", "thin4", "thin8", "line", "rect", "ellipse", "comb", "tiny"]


def gen_shape(rng, kind, big=False):
    """A connected (8-neighbourhood), hole-free shape in its tight bounding box."""
    lim = 40 if big else 18
    if kind in ("blob4", "blob8"):
        shape = (int(rng.integers(2, lim)), int(rng.integers(2, lim)))
        n = int(rng.integers(1, shape[0] * shape[1] * 2))
        m = _grow(rng, shape, n, D4 if kind == "blob4" else D8)
    elif kind in ("thin4", "thin8"):
        shape = (int(rng.integers(2, lim)), int(rng.integers(2, lim)))
        m = _walk(rng, shape, int(rng.integers(1, 4 * lim)), D4 if kind == "thin4" else D8)
    elif kind == "line":
        n = int(rng.integers(1, lim))
        k = int(rng.integers(0, 4))
        if k == 0:
            m = np.ones((1, n), dtype=bool)
        elif k == 1:
            m = np.ones((n, 1), dtype=bool)
        elif k == 2:
            m = np.eye(n, dtype=bool)
        else:
            m = np.eye(n, dtype=bool)[::-1]
    elif kind == "rect":
        m = np.ones((int(rng.integers(1, lim)), int(rng.integers(1, lim))), dtype=bool)
    elif kind == "ellipse":
        a = float(rng.uniform(0.6, lim / 2))
        b = float(rng.uniform(0.6, lim / 2))
        th = float(rng.uniform(0, math.pi))
        r = int(math.ceil(max(a, b))) + 2
        m = ellipse_mask(a, b, th, r + float(rng.uniform(-.5, .5)),
                         r + float(rng.uniform(-.5, .5)), (2 * r + 1, 2 * r + 1))
        if not m.any():
            m[r, r] = True
    elif kind == "comb":
        # a spine with one pixel wide teeth (thin concave structure)
        w = int(rng.integers(3, lim))
        h = int(rng.integers(2, lim))
        m = np.zeros((h, w), dtype=bool)
        m[0, :] = True
        m[:, ::2] = True
        cut = rng.integers(1, h + 1, size=m[:, ::2].shape[1])
        for t, c in enumerate(cut):
            m[c:, 2 * t] = False
        if rng.random() < 0.5:
            m = m.T
    elif kind == "tiny":
        shape = (int(rng.integers(1, 4)), int(rng.integers(1, 4)))
        m = rng.random(shape) < 0.7
        if not m.any():
            m[0, 0] = True
    else:
        raise ValueError(kind)
    m = ndi.binary_fill_holes(_largest_component(m))
    return _tight(m)


PLACEMENTS = ["interior", "touch", "frame", "cut"]


def place(rng, shp, placement):
    """Embed a tight shape into an image. Returns the mask (image at least 2x2)."""
    h, w = shp.shape
    if placement == "interior":
        mg = [int(rng.integers(1, 6)) for _ in range(4)]
    elif placement == "touch":
        mg = [int(rng.integers(0, 5)) for _ in range(4)]
        sides = rng.random(4) < 0.45
        if not sides.any():
            sides[int(rng.integers(4))] = True
        mg = [0 if s else max(m, 1) for m, s in zip(mg, sides)]
    elif placement == "frame":
        mg = [0, 0, 0, 0]
    elif placement == "cut":
        # the image border cuts through the shape
        mg = [int(rng.integers(1, 4)) for _ in range(4)]
        out = np.zeros((h + mg[0] + mg[1], w + mg[2] + mg[3]), dtype=bool)
        out[mg[0]:mg[0] + h, mg[2]:mg[2] + w] = shp
        k = int(rng.integers(4))
        if k == 0 and h > 1:
            out = out[mg[0] + int(rng.integers(1, h)):, :]
        elif k == 1 and h > 1:
            out = out[:mg[0] + int(rng.integers(1, h)), :]
        elif k == 2 and w > 1:
            out = out[:, mg[2] + int(rng.integers(1, w)):]
        elif w > 1:
            out = out[:, :mg[2] + int(rng.integers(1, w))]
        if not out.any():
            out = np.zeros((h + 2, w + 2), dtype=bool)
            out[1:-1, 1:-1] = shp
        out = ndi.binary_fill_holes(_largest_component(out))
        return _min2(out)
    else:
        raise ValueError(placement)
    out = np.zeros((h + mg[0] + mg[1], w + mg[2] + mg[3]), dtype=bool)
    out[mg[0]:mg[0] + h, mg[2]:mg[2] + w] = shp
    return _min2(out)


def _min2(m):
    """marching squares needs at least 2x2 pixels: grow the image with background"""
    if m.shape[0] < 2:
        m = np.vstack([m, np.zeros((1, m.shape[1]), dtype=bool)])
    if m.shape[1] < 2:
        m = np.hstack([m, np.zeros((m.shape[0], 1), dtype=bool)])
    return np.ascontiguousarray(m)


def gen_mask(rng, big=False, p_border=0.45):
    kind = MASK_KINDS[int(rng.integers(len(MASK_KINDS)))]
    shp = gen_shape(rng, kind, big=big)
    if rng.random() < p_border:
        placement = ["touch", "frame", "cut"][int(rng.choice(3, p=[0.6, 0.15, 0.25]))]
    else:
        placement = "interior"
    return place(rng, shp, placement), kind, placement


def mask_from_code(code, h, w):
    bits = [(code >> k) & 1 for k in range(h * w)]
    return np.array(bits, dtype=bool).reshape(h, w)


# ------------------------------------------------------------------------- polygons
POLY_KINDS = ["star", "convex", "rect", "ellipse", "intgrid", "tri"]


def ellipse_polygon(a, b, theta, cx, cy, n, phase=0.0):
    t = phase + 2 * math.pi * np.arange(n) / n
    u, v = a * np.cos(t), b * np.sin(t)
    c, s = math.cos(theta), math.sin(theta)
    return np.stack([cx + c * u - s * v, cy + s * u + c * v], axis=1)


def gen_polygon(rng, kind=None):
    """Simple polygon (no self intersection), float64 or int64 vertices, any orientation."""
    kind = kind or POLY_KINDS[int(rng.integers(len(POLY_KINDS)))]
    cx, cy = float(rng.uniform(0, 300)), float(rng.uniform(0, 100))
    if kind == "star":
        n = int(rng.integers(3, 80))
        # jittered regular angles: strictly increasing, consecutive gaps < pi (simple polygon)
        ang = 2 * math.pi * (np.arange(n) + rng.uniform(-.45, .45, n)) / n
        r0 = float(rng.uniform(1, 40))
        rad = r0 * rng.uniform(0.3, 1.0, n)
        poly = np.stack([cx + rad * np.cos(ang), cy + rad * np.sin(ang)], axis=1)
    elif kind == "convex":
        n = int(rng.integers(3, 60))
        ang = np.sort(rng.uniform(0, 2 * math.pi, n))
        a, b = float(rng.uniform(1, 40)), float(rng.uniform(1, 40))
        th = float(rng.uniform(0, math.pi))
        u, v = a * np.cos(ang), b * np.sin(ang)
        poly = np.stack([cx + math.cos(th) * u - math.sin(th) * v,
                         cy + math.sin(th) * u + math.cos(th) * v], axis=1)
    elif kind == "rect":
        w, h = float(rng.uniform(.5, 60)), float(rng.uniform(.5, 60))
        th = float(rng.uniform(0, math.pi)) if rng.random() < .5 else 0.0
        base = np.array([[-w, -h], [w, -h], [w, h], [-w, h]]) / 2
        c, s = math.cos(th), math.sin(th)
        poly = base @ np.array([[c, s], [-s, c]]) + [cx, cy]
    elif kind == "ellipse":
        a, b = float(rng.uniform(1, 50)), float(rng.uniform(1, 50))
        poly = ellipse_polygon(a, b, float(rng.uniform(0, math.pi)), cx, cy,
                               int(rng.integers(8, 200)), float(rng.uniform(0, 1)))
    elif kind == "intgrid":
        n = int(rng.integers(3, 40))
        ang = 2 * math.pi * (np.arange(n) + rng.uniform(-.3, .3, n)) / n
        rad = float(rng.uniform(3, 40)) * rng.uniform(0.5, 1.0, n)
        poly = np.round(np.stack([cx + rad * np.cos(ang), cy + rad * np.sin(ang)], axis=1))
        poly = poly.astype(np.int64)
    elif kind == "tri":
        poly = rng.uniform(0, 50, (3, 2)) + [cx, cy]
    else:
        raise ValueError(kind)
    if rng.random() < 0.5:
        poly = poly[::-1]
    k = int(rng.integers(len(poly)))
    poly = np.roll(poly, k, axis=0)
    return np.ascontiguousarray(poly), kind


def shoelace(poly):
    x, y = poly[:, 0].astype(float), poly[:, 1].astype(float)
    return 0.5 * float(np.sum(x * np.roll(y, -1) - np.roll(x, -1) * y))


# --------------------------------------------------------------------------- images
IMG_DTYPES = ["uint8", "uint8", "uint8", "uint16", "int16", "int32"]


def gen_images(rng, n, shape):
    """n images, backgrounds and masks (each mask has at least one pixel)."""
    dt = IMG_DTYPES[int(rng.integers(len(IMG_DTYPES)))]
    info = np.iinfo(dt)
    style = int(rng.integers(4))
    if style == 0:      # full range noise: bg often brighter than the image
        img = rng.integers(info.min, int(info.max) + 1, (n,) + shape)
        bg = rng.integers(info.min, int(info.max) + 1, (n,) + shape)
    elif style == 1:    # realistic: bright background, darker object
        hi = min(int(info.max), 255)
        bg = rng.integers(hi // 2, hi + 1, (n,) + shape)
        img = np.clip(bg - rng.integers(-10, 60, (n,) + shape), max(info.min, 0), info.max)
    elif style == 2:    # extremes only
        img = rng.choice([info.min, info.max], size=(n,) + shape)
        bg = rng.choice([info.min, info.max], size=(n,) + shape)
    else:               # few grey levels (ties in the order statistics)
        lv = rng.integers(max(info.min, 0), min(int(info.max), 255) + 1, 3)
        img = rng.choice(lv, size=(n,) + shape)
        bg = rng.choice(lv, size=(n,) + shape)
    img = img.astype(dt)
    bg = bg.astype(dt)
    mask = rng.random((n,) + shape) < rng.uniform(0.05, 0.9)
    for k in range(n):
        if not mask[k].any() or rng.random() < 0.1:
            # at least one pixel; sometimes exactly one or two
            mask[k] = False
            for _ in range(int(rng.integers(1, 3))):
                mask[k, int(rng.integers(shape[0])), int(rng.integers(shape[1]))] = True
    return img, bg, mask, dt


def gen_offsets(rng, n):
    """per-event offsets; integers, halves and arbitrary floats, zero included"""
    style = int(rng.integers(4))
    if style == 0:
        off = rng.integers(-20, 21, n).astype(float)
    elif style == 1:
        off = rng.integers(-40, 41, n) / 2.0
    elif style == 2:
        off = rng.normal(0, 5, n)
    else:
        off = np.zeros(n)
        off[int(rng.integers(n))] = float(rng.normal(0, 3))
    return off


# ------------------------------------------------------------------------ crosstalk
CT_KEYS = ["ct21", "ct31", "ct12", "ct32", "ct13", "ct23"]


def gen_spill(rng, channels):
    """Non-negative spill coefficients between the given channels (others zero)."""
    ct = {}
    style = int(rng.integers(4))
    for k in CT_KEYS:
        i, j = int(k[2]), int(k[3])
        if i in channels and j in channels:
            if style == 0:
                v = float(rng.uniform(0, 0.3))
            elif style == 1:
                v = float(rng.uniform(0, 1.5))
            elif style == 2:
                v = float(rng.choice([0.0, 0.0, 0.05, 0.5, 0.99, 1.0, 2.0]))
            else:
                v = float(rng.exponential(0.4))
            ct[k] = v
        else:
            ct[k] = 0.0
    return ct


def gen_signals(rng, n, channels, integer=False):
    """true fluorescence signals per channel (zero for absent channels)"""
    out = []
    for c in (1, 2, 3):
        if c in channels:
            s = rng.exponential(float(rng.choice([10, 1000, 30000])), n)
            if rng.random() < 0.2:
                s[rng.random(n) < 0.3] = 0.0
            if integer:
                s = np.round(s)
            out.append(s)
        else:
            out.append(np.zeros(n))
    return out
