"""Raw-h5py producer of .rtdc files in every storage layout (no dclab involved).

write_layout(path, model, rng, ...) stores a dataset model (vmon.gen.dataset) with randomly
chosen per-dataset storage: contiguous / chunked (chunks shorter or LONGER than the data) /
gzip / lzf / zstd-1 / zstd-5, fletcher32 on/off; logs as variable-length or fixed-length
strings, optionally an empty log; tables with attributes; optionally an internal basin, an
empty scalar feature, an unknown extra feature; stored min/max/mean attributes present or not.
Returns a description of what was chosen.
"""
import json

import numpy as np

STORAGES = ["contiguous", "chunked", "chunked_long", "gzip", "lzf", "zstd1", "zstd5"]


def storage_kwargs(kind, shape, rng):
    import hdf5plugin
    if kind == "contiguous":
        return {}
    n = max(1, shape[0])
    if kind == "chunked_long":
        c0 = n + int(rng.integers(1, 20))
        return {"chunks": (c0,) + tuple(shape[1:]), "maxshape": (None,) + tuple(shape[1:])}
    c0 = max(1, int(rng.integers(1, n + 1)))
    kw = {"chunks": (c0,) + tuple(shape[1:])}
    if rng.random() < 0.5:
        kw["fletcher32"] = True
    if kind == "gzip":
        kw.update(compression="gzip", compression_opts=int(rng.integers(1, 10)))
    elif kind == "lzf":
        kw.update(compression="lzf")
    elif kind == "zstd1":
        kw.update(**hdf5plugin.Zstd(clevel=1))
    elif kind == "zstd5":
        kw.update(**hdf5plugin.Zstd(clevel=int(rng.integers(5, 8))))
    return kw


def _create(group, name, data, rng, desc, kinds=STORAGES):
    kind = str(rng.choice(kinds))
    data = np.asarray(data)
    kw = storage_kwargs(kind, data.shape, rng) if data.ndim >= 1 and data.shape[0] > 0 else {}
    ds = group.create_dataset(name, data=data, **kw)
    desc[ds.name] = kind
    return ds


def write_layout(path, model, rng, version="0.62.7", identifier=True, internal_basin=None,
                 empty_scalar=False, unknown_feature=False, empty_log=False,
                 summaries=None, table_attrs=True, vlen_logs=None, extra_basins=()):
    """extra_basins: list of dicts (already complete basin definitions) to store."""
    import h5py
    desc = {"storage": {}, "options": {}}
    with h5py.File(path, "w") as h5:
        # ------------------------------------------------------------ metadata
        meta = {s: dict(kv) for s, kv in model["meta"].items()}
        meta.setdefault("setup", {})["software version"] = f"ShapeIn 2.0.5 | dclab {version}"
        meta.setdefault("experiment", {})["event count"] = model["n"]
        for sec, kv in meta.items():
            for k, v in kv.items():
                h5.attrs[f"{sec}:{k}"] = v
        # ------------------------------------------------------------ features
        ev = h5.create_group("events")
        st = desc["storage"]
        for feat, data in model["features"].items():
            if feat == "trace":
                g = ev.create_group("trace")
                for k, v in data.items():
                    _create(g, k, v, rng, st)
            elif feat == "contour":
                g = ev.create_group("contour")
                for i, c in enumerate(data):
                    g.create_dataset(str(i), data=c)
            elif feat == "mask":
                d = _create(ev, feat, data.astype(np.uint8) * 255, rng, st)
            else:
                arr = np.asarray(data)
                if feat in ("fl1_max", "fl2_max", "fl3_max", "fl1_npeaks", "fl2_npeaks",
                            "nevents"):
                    arr = arr.astype(np.uint32)
                elif feat == "frame":
                    arr = arr.astype(np.uint64)
                if (arr.ndim == 1 and arr.dtype.kind == "f" and len(arr) >= 4
                        and not feat.startswith("ml_score")     # probabilities: range [0, 1]
                        and rng.random() < 0.12):
                    # pre-allocated dataset with a non-default fill value whose trailing
                    # chunks were never written (reads as the fill value)
                    c0 = max(1, len(arr) // int(rng.integers(2, 5)))
                    fill = float(rng.choice([np.nan, 7.5, -1.0]))
                    d = ev.create_dataset(feat, shape=arr.shape, dtype=arr.dtype, chunks=(c0,),
                                          fillvalue=fill, maxshape=(None,))
                    nwritten = c0 * int(rng.integers(1, max(2, len(arr) // c0)))
                    d[:nwritten] = arr[:nwritten]
                    arr = arr.copy()
                    arr[nwritten:] = fill
                    model["features"][feat] = arr
                    st[d.name] = "sparse-fill"
                else:
                    d = _create(ev, feat, arr, rng, st)
                if arr.ndim == 1:
                    store = (rng.random() < 0.5) if summaries is None else summaries
                    if store and arr.size and arr.dtype.kind == "f" and not np.all(np.isnan(arr)):
                        with np.errstate(all="ignore"):
                            d.attrs["min"] = np.nanmin(arr)
                            d.attrs["max"] = np.nanmax(arr)
                            d.attrs["mean"] = np.nanmean(arr)
            if feat in ("image", "image_bg", "mask"):
                for k, v in (("CLASS", "IMAGE"), ("IMAGE_VERSION", "1.2"),
                             ("IMAGE_SUBCLASS", "IMAGE_GRAYSCALE")):
                    ev[feat].attrs.create(k, np.bytes_(v))
        if empty_scalar:
            ev.create_dataset("bright_bc_avg", shape=(0,), dtype=float, maxshape=(None,),
                              chunks=(10,))
            desc["options"]["empty_scalar"] = "bright_bc_avg"
        if unknown_feature:
            ev.create_dataset("unknown_thing", data=rng.normal(size=model["n"]))
            desc["options"]["unknown_feature"] = "unknown_thing"
        # ---------------------------------------------------------------- logs
        if model["logs"] or empty_log:
            lg = h5.create_group("logs")
            for name, lines in model["logs"].items():
                vl = (rng.random() < 0.5) if vlen_logs is None else vlen_logs
                if vl:
                    d = lg.create_dataset(name, data=[ln.encode("utf-8") for ln in lines],
                                          dtype=h5py.string_dtype())
                    st[d.name] = "vlen"
                else:
                    width = max(100, max(len(ln.encode("utf-8")) for ln in lines))
                    kind = str(rng.choice(["contiguous", "chunked", "gzip", "zstd5"]))
                    kw = storage_kwargs(kind, (len(lines),), rng)
                    d = lg.create_dataset(name, data=np.array(
                        [ln.encode("utf-8") for ln in lines], dtype=f"S{width}"), **kw)
                    st[d.name] = "fixed-" + kind
            if empty_log:
                lg.create_dataset("empty-log", shape=(0,), dtype="S100", maxshape=(None,),
                                  chunks=True)
                desc["options"]["empty_log"] = True
        # -------------------------------------------------------------- tables
        if model["tables"]:
            tg = h5.create_group("tables")
            for name, rec in model["tables"].items():
                kind = str(rng.choice(["contiguous", "chunked", "gzip", "zstd5"]))
                kw = storage_kwargs(kind, rec.shape, rng)
                d = tg.create_dataset(name, data=np.asarray(rec), **kw)
                st[d.name] = kind
                if table_attrs and rng.random() < 0.6:
                    d.attrs["COLOR_col"] = "#ff0000"
                    d.attrs["sampling"] = 1.5
                    desc["options"].setdefault("table_attrs", []).append(name)
        # -------------------------------------------------------------- basins
        if internal_basin:
            be = h5.create_group("basin_events")
            for feat, data in internal_basin["data"].items():
                _create(be, feat, data, rng, st, kinds=["contiguous", "chunked", "zstd5"])
            ev.create_dataset("basinmap0", data=np.asarray(internal_basin["map"],
                                                           dtype=np.uint64))
            bdef = {"description": "internal basin", "format": "h5dataset",
                    "name": "vmon internal", "type": "internal",
                    "features": sorted(internal_basin["data"]), "mapping": "basinmap0",
                    "paths": ["basin_events"]}
            extra_basins = list(extra_basins) + [bdef]
            desc["options"]["internal_basin"] = sorted(internal_basin["data"])
        if extra_basins:
            bg = h5.require_group("basins")
            for i, bdef in enumerate(extra_basins):
                lines = json.dumps(bdef, indent=2).split("\n")
                import hashlib
                key = hashlib.md5("\n".join(lines).encode()).hexdigest()
                width = max(100, max(len(x.encode()) for x in lines))
                bg.create_dataset(key, data=np.array([x.encode() for x in lines],
                                                     dtype=f"S{width}"))
            desc["options"]["n_basins"] = len(extra_basins)
    return desc


def add_raw_logs(path, rng, prefix="acq"):
    """Append 1-2 logs to an existing .rtdc file the way acquisition software does (raw h5py,
    fixed-length strings with width to spare, or variable-length strings): ASCII and
    non-ASCII lines, some longer than 100 bytes.  -> {name: lines}"""
    import h5py
    words = ["Bediener: Jürgen Müller", "température 23.5 °C", "通道 20 µm", "flow 0.04 µL/s",
             "plain ascii words", "Ångström ± 5 %", "x" * 60]
    out = {}
    with h5py.File(path, "a") as h5:
        lg = h5.require_group("logs")
        for i in range(int(rng.integers(1, 3))):
            lines = []
            for _ in range(int(rng.integers(1, 6))):
                k = int(rng.choice([1, 1, 2, 5, 8]))
                lines.append("; ".join(str(rng.choice(words)) for _ in range(k)))
            if rng.random() < 0.5:
                # the longest line (in bytes) is a non-ASCII one that is also the longest in
                # characters / is not the longest in characters
                lines.append(("ü" * int(rng.integers(60, 140))) if rng.random() < 0.5
                             else ("é" * 70 + "z" * int(rng.integers(0, 60))))
                lines.append("a" * int(rng.integers(90, 130)))
            name = f"{prefix}-{i}"
            if name in lg:
                continue
            enc = [ln.encode("utf-8") for ln in lines]
            if rng.random() < 0.5:
                lg.create_dataset(name, data=lines, dtype=h5py.string_dtype("utf-8"))
            else:
                width = max(len(e) for e in enc) + int(rng.integers(0, 40))
                lg.create_dataset(name, data=np.array(enc, dtype=f"S{width}"))
            out[name] = lines
    return out
