"""C16 - seeded generators for downsampling workloads (pure numpy, no dclab import).

Every case is a function of the numpy Generator handed in (which the driver derives from
(seed, property, salt, index)).
"""
import itertools

import numpy as np

SHAPES = ["uniform", "normal", "clusters", "lattice", "few-values", "const-x", "const-y",
          "const-both", "tiny-range", "wide-magnitude", "diagonal", "huge-range"]
SHAPE_P = np.array([14, 10, 14, 8, 10, 7, 7, 4, 5, 6, 5, 2], dtype=float)
SHAPE_P /= SHAPE_P.sum()


def gen_n(rng, big):
    r = rng.random()
    if r < 0.04:
        return int(rng.integers(0, 3))                       # 0, 1, 2
    if r < 0.40:
        return int(rng.integers(3, 25))
    if r < 0.80:
        return int(rng.integers(25, 400))
    if r < 0.97 or not big:
        return int(rng.integers(400, 4000))
    if r < 0.995:
        return int(rng.integers(4000, 30000))
    return int(rng.choice([65535, 65536, 65537, 90001, 100000]))   # up to 1e5


def gen_xy(rng, n, shape):
    if shape == "uniform":
        x, y = rng.uniform(0, 1, n), rng.uniform(-5, 5, n)
    elif shape == "normal":
        x, y = rng.normal(50, 10, n), rng.normal(0.02, 0.01, n)
    elif shape == "clusters":
        k = int(rng.integers(1, 5))
        cx, cy = rng.uniform(0, 100, k), rng.uniform(0, 1, k)
        w = 10.0 ** rng.uniform(-6, 0)
        c = rng.integers(0, k, n)
        x, y = cx[c] + rng.normal(0, w, n), cy[c] + rng.normal(0, w / 100, n)
        if n and rng.random() < 0.5:                            # a few far outliers
            m = rng.random(n) < 0.02
            x = np.where(m, x * 1e3, x)
    elif shape == "lattice":
        k = int(rng.integers(2, 40))
        x, y = (rng.integers(0, k, n).astype(float),
                rng.integers(0, max(2, k // 2), n).astype(float))
    elif shape == "few-values":
        k = int(rng.integers(1, 6))
        px, py = rng.normal(0, 1, k), rng.normal(0, 1, k)
        c = rng.integers(0, k, n)
        x, y = px[c], py[c]
    elif shape == "const-x":
        x, y = np.full(n, float(rng.normal())), rng.uniform(0, 1, n)
    elif shape == "const-y":
        x, y = rng.uniform(0, 1, n), np.full(n, float(rng.choice([0.0, 1.0, -3.5, 1e-300])))
    elif shape == "const-both":
        x, y = np.full(n, 2.0), np.full(n, -1.0)
    elif shape == "tiny-range":
        base = float(rng.choice([1.0, 1e10, 0.0]))
        x = base + rng.integers(0, 3, n) * np.spacing(base if base else 5e-324)
        y = rng.integers(0, 4, n) * 5e-324
    elif shape == "wide-magnitude":
        x = rng.normal(0, 1, n) * 10.0 ** rng.integers(-200, 200, n)
        y = 10.0 ** rng.uniform(-300, 300, n)
    elif shape == "diagonal":
        t = rng.uniform(0, 1, n)
        x, y = t, t.copy()
    elif shape == "huge-range":
        x = rng.uniform(-1, 1, n) * 1.7e308
        y = rng.uniform(0, 1, n)
        if rng.random() < 0.5:
            x, y = y, x
    else:
        raise ValueError(shape)
    return np.asarray(x, dtype=np.float64), np.asarray(y, dtype=np.float64)


def inject_invalid(rng, v):
    """nan / +inf / -inf at random positions, prefixes, suffixes or everywhere."""
    n = v.size
    if n == 0:
        return v
    r = rng.random()
    if r < 0.35:
        return v
    v = v.copy()
    if r < 0.70:
        p = float(rng.choice([0.01, 0.05, 0.2, 0.5, 0.9, 0.99]))
        m = rng.random(n) < p
    elif r < 0.78:
        m = np.zeros(n, dtype=bool)
        m[:int(rng.integers(1, n + 1))] = True
    elif r < 0.86:
        m = np.zeros(n, dtype=bool)
        m[n - int(rng.integers(1, n + 1)):] = True
    elif r < 0.93:
        m = np.zeros(n, dtype=bool)
        m[int(rng.integers(0, n))] = True                       # exactly one
    else:
        m = np.ones(n, dtype=bool)                               # all invalid
        if rng.random() < 0.5:
            m[int(rng.integers(0, n))] = False                   # exactly one valid
    kinds = np.array([np.nan, np.inf, -np.inf])
    w = rng.integers(0, 4)
    fill = kinds[rng.integers(0, 3, n)] if w == 3 else np.full(n, kinds[w])
    v[m] = fill[m]
    return v


def gen_arrays(rng, big=False, shape=None):
    n = gen_n(rng, big)
    shape = shape or str(rng.choice(SHAPES, p=SHAPE_P))
    x, y = gen_xy(rng, n, shape)
    r = rng.random()
    dtype = "float64"
    if shape in ("huge-range", "wide-magnitude", "tiny-range"):
        pass
    elif r < 0.10:
        dtype = "float32"
    elif r < 0.15 and n:
        dtype = "int64"
    if dtype == "int64":
        x = np.round(np.clip(x, -1e6, 1e6) * 10).astype(np.int64)
        y = np.round(np.clip(y, -1e6, 1e6) * 10).astype(np.int64)
    else:
        x, y = inject_invalid(rng, x), inject_invalid(rng, y)
        if dtype == "float32":
            x, y = x.astype(np.float32), y.astype(np.float32)
            if shape == "uniform" and rng.random() < 0.1 and n:
                x = (x - np.float32(0.5)) * np.float32(6e38)     # float32 range overflow
    if rng.random() < 0.03 and n > 1:
        # non-contiguous views are legitimate inputs as well
        x2, y2 = np.empty(2 * n, dtype=x.dtype), np.empty(2 * n, dtype=y.dtype)
        x2[::2], y2[::2] = x, y
        x2[1::2], y2[1::2] = 7, 7
        x, y = x2[::2], y2[::2]
    return shape, dtype, x, y


def gen_request(rng, n, n_valid):
    """Requests around every threshold of the statement."""
    cands = [0, 1, 2, n_valid - 1, n_valid, n_valid + 1, n - 1, n, n + 1, n + 7, 2 * n + 3,
             10 ** 6, n // 2, n_valid // 2]
    r = rng.random()
    if r < 0.55:
        s = int(rng.choice(cands))
    elif r < 0.85 and n > 1:
        s = int(rng.integers(1, n + 1))
    elif n_valid > 1:
        s = int(rng.integers(1, n_valid + 1))
    else:
        s = int(rng.integers(0, 5))
    return max(s, 0)


# ----------------------------------------------------------------- exhaustive sub-spaces
ALPHA1 = [0.0, 1.0, np.nan, np.inf, -np.inf]
ALPHA2 = [0.0, 1.0, np.nan, -np.inf]


def exhaustive_rand(max_len):
    """All arrays over ALPHA1 up to max_len."""
    for n in range(max_len + 1):
        for tup in itertools.product(range(len(ALPHA1)), repeat=n):
            yield np.array([ALPHA1[i] for i in tup], dtype=np.float64)


def exhaustive_grid_count(max_len):
    k = len(ALPHA2) ** 2
    return sum(k ** n for n in range(max_len + 1))


def exhaustive_grid_case(i, max_len):
    """i-th pair of arrays over ALPHA2 x ALPHA2 (event types), lengths 0..max_len."""
    k = len(ALPHA2) ** 2
    n = 0
    while i >= k ** n:
        i -= k ** n
        n += 1
    assert n <= max_len
    xs, ys = [], []
    for _ in range(n):
        i, t = divmod(i, k)
        xs.append(ALPHA2[t // len(ALPHA2)])
        ys.append(ALPHA2[t % len(ALPHA2)])
    return np.array(xs, dtype=np.float64), np.array(ys, dtype=np.float64)


# --------------------------------------------------------------------- dataset level
DS_FEATS = ["area_um", "deform", "bright_avg", "aspect", "pos_x", "time", "fl1_area"]


def gen_dataset(rng, big=False):
    """Columns of an RTDC_Dict dataset and a filter recipe."""
    r = rng.random()
    if r < 0.05:
        n = int(rng.integers(0, 4))
    elif r < 0.6:
        n = int(rng.integers(4, 60))
    elif r < 0.95 or not big:
        n = int(rng.integers(60, 1500))
    else:
        n = int(rng.integers(1500, 20000))
    nfe = int(rng.integers(2, 5))
    feats = [str(f) for f in rng.choice(DS_FEATS, nfe, replace=False)]
    cols = {}
    shapes = {}
    for j in range(0, nfe, 2):
        shape = str(rng.choice(SHAPES[:-1], p=SHAPE_P[:-1] / SHAPE_P[:-1].sum()))
        x, y = gen_xy(rng, n, shape)
        if rng.random() < 0.5:
            # strictly positive / mixed-sign data matter for the log scale
            x = np.abs(x) + (0 if rng.random() < 0.5 else 1e-3)
        x, y = inject_invalid(rng, x), inject_invalid(rng, y)
        if rng.random() < 0.1:
            x = np.round(np.clip(np.nan_to_num(x, nan=0, posinf=9, neginf=-9), -1e6, 1e6)
                         * 10).astype(np.int64)
        cols[feats[j]] = x
        shapes[feats[j]] = shape
        if j + 1 < nfe:
            cols[feats[j + 1]] = y
            shapes[feats[j + 1]] = shape
    recipe = {"enable": bool(rng.random() < 0.93),
              "remove_invalid_events": bool(rng.random() < 0.2),
              "box": [], "manual": None, "polygon": None, "limit": 0}
    r = rng.random()
    if r < 0.7:
        for f in feats[:int(rng.integers(1, 3))]:
            v = cols[f][np.isfinite(cols[f])] if cols[f].dtype.kind == "f" else cols[f]
            if v.size:
                if rng.random() < 0.7:
                    qs = [rng.uniform(0, 0.4), rng.uniform(0.6, 1)]
                else:
                    qs = sorted(rng.uniform(0, 1, 2))
                lo, hi = np.quantile(v, qs)
                if lo != hi:
                    recipe["box"].append([f, float(lo), float(hi)])
    if rng.random() < 0.5:
        p = float(rng.choice([0.02, 0.1, 0.3, 0.3, 0.7, 0.7, 0.98, 1.0]))
        recipe["manual"] = (rng.random(n) < p)                    # True = excluded
    if rng.random() < 0.25 and nfe >= 2:
        fx, fy = feats[0], feats[1]
        vx = cols[fx][np.isfinite(cols[fx])] if cols[fx].dtype.kind == "f" else cols[fx]
        vy = cols[fy][np.isfinite(cols[fy])] if cols[fy].dtype.kind == "f" else cols[fy]
        if vx.size and vy.size:
            cx, cy = float(np.median(vx)), float(np.median(vy))
            sx = float(np.ptp(vx)) or 1.0
            sy = float(np.ptp(vy)) or 1.0
            if np.isfinite(sx) and np.isfinite(sy):
                ang = np.sort(rng.uniform(0, 2 * np.pi, int(rng.integers(3, 7))))
                rad = rng.uniform(0.2, 0.9, ang.size)
                pts = np.stack([cx + sx * rad * np.cos(ang), cy + sy * rad * np.sin(ang)],
                               axis=1)
                recipe["polygon"] = {"axes": [fx, fy], "points": pts.tolist(),
                                     "inverted": bool(rng.random() < 0.3)}
    if rng.random() < 0.35:
        recipe["limit"] = int(rng.choice([1, 2, 3, n // 2, n - 1, n, n + 1, 5 * n + 1,
                                          int(rng.integers(1, n + 2))]))
        recipe["limit"] = max(recipe["limit"], 0)
    return n, feats, cols, shapes, recipe


def gen_scatter_call(rng, feats, n_filtered):
    xax, yax = [str(f) for f in rng.choice(feats, 2, replace=rng.random() < 0.05)]
    nf = n_filtered
    cands = [0, 1, 2, nf - 1, nf, nf + 1, nf // 2, nf // 3, 2 * nf + 1, 5000]
    s = int(rng.choice(cands)) if rng.random() < 0.6 else int(rng.integers(0, nf + 3))
    return {"xax": xax, "yax": yax, "downsample": max(s, 0),
            "xscale": "log" if rng.random() < 0.3 else "linear",
            "yscale": "log" if rng.random() < 0.3 else "linear",
            "remove_invalid": bool(rng.random() < 0.5),
            "ret_mask": bool(rng.random() < 0.75)}
