"""C12 - seeded generators: datasets (columns), filter recipes, poison values and the
arguments of the analysis entry points.  Pure numpy, no dclab import.  Every object is a
function of the numpy Generator handed in (derived from (seed, property, salt, index))."""
import numpy as np

FEATURES = ["area_um", "deform", "aspect", "bright_avg", "bright_sd", "fl1_max", "fl2_max",
            "fl1_pos", "pos_x", "pos_y", "size_x", "time", "circ", "tilt", "userdef1", "area_ratio",
            "inert_ratio_cvx"]

COL_SHAPES = ["lognormal", "uniform", "normal0", "negative", "ties_int", "ties_int_neg",
              "ties_round", "constant", "two_values", "wide", "large_scale", "small_scale",
              "bimodal", "ramp"]
COL_P = np.array([17, 13, 10, 6, 9, 5, 8, 2, 3, 5, 4, 4, 9, 5], dtype=float)
COL_P /= COL_P.sum()

KDE_TYPES = ["histogram", "gauss", "multivariate", "none"]
SCALES = [("linear", "linear"), ("log", "linear"), ("linear", "log"), ("log", "log")]
POISONS = ["nan", "inf", "-inf", "1e300", "-1e300", "mixed", "inrange", "zero", "negative",
           "outlier"]


def gen_n(rng, big):
    r = rng.random()
    if r < 0.08:
        return int(rng.integers(1, 6))                # tiny: 1..5
    if r < 0.37:
        return int(rng.integers(6, 41))
    if r < 0.77:
        return int(rng.integers(41, 401))
    if r < 0.95 or not big:
        return int(rng.integers(401, 1501))
    return int(rng.integers(1501, 5001))


def gen_column(rng, n, shape):
    if shape == "lognormal":
        v = rng.lognormal(rng.uniform(0, 5), rng.uniform(0.05, 0.8), n)
    elif shape == "uniform":
        lo = rng.uniform(0.001, 1)
        v = rng.uniform(lo, lo + 10.0 ** rng.uniform(-2, 2), n)
    elif shape == "normal0":
        v = rng.normal(rng.uniform(-1, 1), 10.0 ** rng.uniform(-1, 1), n)
    elif shape == "negative":
        v = -rng.lognormal(rng.uniform(0, 3), 0.4, n)
    elif shape == "ties_int":
        v = rng.integers(1, int(rng.integers(2, 30)) + 1, n).astype(float)
    elif shape == "ties_int_neg":
        k = int(rng.integers(2, 12))
        v = rng.integers(-k, 1 if rng.random() < 0.5 else k, n).astype(float)   # max may be 0
    elif shape == "ties_round":
        v = np.round(rng.lognormal(3, 0.5, n), int(rng.integers(0, 2)))
        v[v <= 0] = 1.0
    elif shape == "constant":
        v = np.full(n, float(rng.choice([1.0, 0.1, 37.5, -2.0, 0.0])))
    elif shape == "two_values":
        a, b = rng.uniform(0.5, 50, 2)
        v = np.where(rng.random(n) < rng.uniform(0.1, 0.9), a, b)
    elif shape == "wide":
        v = rng.lognormal(0, 4, n)
    elif shape == "large_scale":
        v = rng.lognormal(2, 0.4, n) * 1e12
    elif shape == "small_scale":
        v = rng.lognormal(2, 0.4, n) * 1e-12
    elif shape == "bimodal":
        c = rng.random(n) < rng.uniform(0.2, 0.8)
        v = np.where(c, rng.normal(20, 2, n), rng.normal(60, 6, n))
    elif shape == "ramp":
        v = np.arange(n, dtype=float) * rng.uniform(0.1, 3) + rng.uniform(0, 5)
    else:
        raise KeyError(shape)
    return np.asarray(v, dtype=np.float64)


def contaminate(rng, v):
    """nan / +-inf at random positions, prefixes, suffixes or everywhere."""
    n = v.size
    r = rng.random()
    kind = "clean"
    bad = np.array([np.nan, np.inf, -np.inf])
    if r < 0.58 or n == 0:
        return v, kind
    if r < 0.78:
        k = int(rng.integers(1, min(3, n) + 1))
        pos = rng.choice(n, k, replace=False)
        v[pos] = rng.choice(bad, k)
        kind = "few"
    elif r < 0.90:
        m = rng.random(n) < rng.uniform(0.1, 0.4)
        v[m] = rng.choice(bad, int(m.sum()), p=[0.7, 0.2, 0.1])
        kind = "fraction"
    elif r < 0.95:
        k = int(rng.integers(1, max(2, n // 3 + 1)))
        if rng.random() < 0.5:
            v[:k] = np.nan
        else:
            v[-k:] = np.nan
        kind = "prefix/suffix"
    elif r < 0.975:
        v[:] = rng.choice(bad)
        kind = "everywhere"
    else:
        m = rng.random(n) < 0.9
        v[m] = np.nan
        kind = "nearly-everywhere"
    return v, kind


def gen_columns(rng, n, n_feats=None, fl_pair=False):
    k = int(rng.integers(2, 6)) if n_feats is None else n_feats
    feats = [str(f) for f in rng.choice(FEATURES, k, replace=False)]
    if rng.random() < 0.1 or fl_pair:
        # a fluorescence pair (stored as unsigned integers in .rtdc files)
        feats = ["fl1_max", "fl2_max"] + [f for f in feats
                                          if f not in ("fl1_max", "fl2_max")][:k - 2]
    cols, shapes = {}, {}
    for f in feats:
        shape = str(rng.choice(COL_SHAPES, p=COL_P))
        v, kind = contaminate(rng, gen_column(rng, n, shape))
        cols[f] = v
        shapes[f] = f"{shape}/{kind}"
    return feats, cols, shapes


def gen_mask(rng, n):
    """Arbitrary manual exclusion mask (True = keep) with its pattern name."""
    r = rng.random()
    m = np.ones(n, dtype=bool)
    if r < 0.30:
        m = rng.random(n) < rng.uniform(0.05, 0.95)
        return m, "random"
    if r < 0.40:
        m[:int(rng.integers(0, n + 1))] = False
        return m, "prefix"
    if r < 0.50:
        m[int(rng.integers(0, n + 1)):] = False
        return m, "suffix"
    if r < 0.58:
        m[::int(rng.integers(2, 5))] = False
        return m, "stride"
    if r < 0.64:
        m[:] = False
        m[int(rng.integers(0, n))] = True
        return m, "single"
    if r < 0.69:
        m[:] = False
        k = min(n, int(rng.integers(2, 5)))
        m[rng.choice(n, k, replace=False)] = True
        return m, "handful"
    if r < 0.72:
        m[:] = False
        return m, "none"
    if r < 0.80:
        a, b = sorted(int(t) for t in rng.integers(0, n + 1, 2))
        m[a:b] = False
        return m, "block"
    if r < 0.84:
        m[int(rng.integers(0, n))] = False
        return m, "all-but-one"
    return m, "all"


def _finite(v):
    return v[np.isfinite(v)]


def gen_recipe(rng, feats, cols, n):
    """Filter configuration of the dataset under test."""
    rec = {"enable": bool(rng.random() > 0.08), "remove_invalid_events": bool(rng.random() < 0.15),
           "box": [], "polygon": None, "manual": None, "manual_kind": "all", "limit": 0}
    m, kind = gen_mask(rng, n)
    rec["manual_kind"] = kind
    if kind != "all":
        rec["manual"] = m
    if rng.random() < 0.35:
        for f in rng.choice(feats, int(rng.integers(1, min(2, len(feats)) + 1)), replace=False):
            fv = _finite(cols[str(f)])
            if fv.size < 2:
                continue
            qa = rng.uniform(0, 0.6)
            lo, hi = np.quantile(fv, [qa, min(1.0, qa + rng.uniform(0.25, 1.0))])
            if lo == hi:
                continue
            rec["box"].append([str(f), float(lo), float(hi)])
    if rng.random() < 0.2 and len(feats) >= 2:
        fx, fy = [str(f) for f in rng.choice(feats, 2, replace=False)]
        vx, vy = _finite(cols[fx]), _finite(cols[fy])
        if vx.size >= 2 and vy.size >= 2 and np.ptp(vx) > 0 and np.ptp(vy) > 0 \
                and np.isfinite(np.ptp(vx)) and np.isfinite(np.ptp(vy)):
            k = int(rng.integers(3, 7))
            ang = np.sort(rng.uniform(0, 2 * np.pi, k))
            rad = rng.uniform(0.5, 1.2, k)
            cx, cy = np.median(vx), np.median(vy)
            px = cx + rad * np.cos(ang) * np.ptp(vx) * 0.5
            py = cy + rad * np.sin(ang) * np.ptp(vy) * 0.5
            rec["polygon"] = {"axes": [fx, fy], "points": np.column_stack([px, py]).tolist(),
                              "inverted": bool(rng.random() < 0.3)}
    if rng.random() < 0.12:
        rec["limit"] = int(rng.integers(1, n + 3))
    return rec


def gen_poison(rng, cols, sel):
    """Values written over the *excluded* events. -> (poisoned columns, style)"""
    style = str(rng.choice(POISONS))
    out = {}
    exc = ~sel
    k = int(exc.sum())
    for f, v in cols.items():
        w = np.array(v, dtype=np.float64, copy=True)
        if k:
            if style == "nan":
                w[exc] = np.nan
            elif style == "inf":
                w[exc] = np.inf
            elif style == "-inf":
                w[exc] = -np.inf
            elif style == "1e300":
                w[exc] = 1e300
            elif style == "-1e300":
                w[exc] = -1e300
            elif style == "zero":
                w[exc] = 0.0
            elif style == "negative":
                w[exc] = -np.abs(rng.normal(5, 2, k))
            elif style == "mixed":
                w[exc] = rng.choice([np.nan, np.inf, -np.inf, 1e300, -1e300, 0.0, -1.0, 1e-300],
                                    k)
            elif style == "inrange":
                pool = _finite(v[sel]) if sel.any() else np.array([1.0])
                if pool.size == 0:
                    pool = np.array([1.0])
                w[exc] = rng.choice(pool, k) * rng.uniform(0.9, 1.1, k)
            elif style == "outlier":
                pool = _finite(v)
                ref = float(np.max(np.abs(pool))) if pool.size else 1.0
                w[exc] = (ref + 1.0) * rng.choice([-100.0, 100.0, 7.0], k)
        out[f] = w
    return out, style


# --------------------------------------------------------------------------- call arguments
def _scaled_valid(x, y, xscale, yscale):
    with np.errstate(all="ignore"):
        xs = np.log(x) if xscale == "log" else x
        ys = np.log(y) if yscale == "log" else y
    ok = np.isfinite(xs) & np.isfinite(ys)
    return xs[ok], ys[ok]


def gen_axes(rng, feats):
    if feats[:2] == ["fl1_max", "fl2_max"] and rng.random() < 0.5:
        return "fl1_max", "fl2_max"
    if len(feats) >= 2 and rng.random() < 0.97:
        a, b = rng.choice(feats, 2, replace=False)
    else:
        a = b = rng.choice(feats)                      # the same feature on both axes
    return str(a), str(b)


def gen_kde_type(rng, n_sel, allow_none=True):
    p = np.array([0.40, 0.27, 0.27, 0.06 if allow_none else 0.0])
    return str(rng.choice(KDE_TYPES, p=p / p.sum()))


def gen_scales(rng):
    return SCALES[int(rng.choice(4, p=[0.4, 0.2, 0.2, 0.2]))]


def gen_positions(rng, x, y):
    """Explicit evaluation positions (linear units) or None. -> (positions, kind)"""
    r = rng.random()
    if r < 0.45:
        return None, "events"
    fx, fy = _finite(x), _finite(y)
    cx = fx if fx.size else np.array([1.0])
    cy = fy if fy.size else np.array([1.0])
    if r < 0.60:
        m = int(rng.choice([1, 2, 2, 3, 4]))
        kind = f"{m}-points"
    elif r < 0.85:
        m = int(rng.integers(5, 120))
        kind = "many"
    else:
        m = int(rng.integers(3, 40))
        kind = "with-invalid"
    px = rng.uniform(cx.min(), cx.max() if cx.max() > cx.min() else cx.min() + 1, m)
    py = rng.uniform(cy.min(), cy.max() if cy.max() > cy.min() else cy.min() + 1, m)
    if rng.random() < 0.3:
        # some of the events themselves
        k = min(m, cx.size, cy.size)
        if k:
            px[:k] = cx[:k]
            py[:k] = cy[:k]
    if kind == "with-invalid":
        bad = rng.choice(m, max(1, m // 4), replace=False)
        px[bad] = rng.choice([np.nan, np.inf, -1.0, 0.0], bad.size)
        bad = rng.choice(m, max(1, m // 5), replace=False)
        py[bad] = rng.choice([np.nan, -np.inf, -2.0], bad.size)
    if rng.random() < 0.5:
        return [px, py], kind + "/list"
    return np.vstack([px, py]), kind + "/array"


def gen_kde_kwargs(rng, kde_type, x, y, xscale, yscale):
    if rng.random() > 0.25:
        return None
    if kde_type == "histogram":
        return {"bins": (int(rng.integers(5, 40)), int(rng.integers(5, 40)))}
    if kde_type == "multivariate":
        ex, ey = _scaled_valid(x, y, xscale, yscale)
        if ex.size < 3 or np.ptp(ex) <= 0 or np.ptp(ey) <= 0:
            return None
        return {"bw": (float(np.ptp(ex) * rng.uniform(0.02, 0.3)),
                       float(np.ptp(ey) * rng.uniform(0.02, 0.3)))}
    return None


def gen_accuracy(rng, x, y, xscale, yscale, max_pts):
    """Contour accuracies: None (Doane / 5), 0 (same) or a spacing giving 2..max_pts points."""
    ex, ey = _scaled_valid(x, y, xscale, yscale)
    acc = []
    for e in (ex, ey):
        r = rng.random()
        span = float(np.ptp(e)) if e.size else 0.0
        if r < 0.35 or not np.isfinite(span) or span <= 0:
            acc.append(None if rng.random() < 0.8 else 0)
        else:
            acc.append(span / rng.uniform(1.5, max_pts))
    return acc[0], acc[1]


def forced_accuracy(rng, x, y, xscale, yscale, max_pts):
    """Always an explicit spacing (large samples with O(n*m) estimators)."""
    ex, ey = _scaled_valid(x, y, xscale, yscale)
    acc = []
    for e in (ex, ey):
        span = float(np.ptp(e)) if e.size else 0.0
        if not np.isfinite(span) or span <= 0:
            acc.append(None)
        else:
            acc.append(span / rng.uniform(1.5, max_pts))
    return acc[0], acc[1]


def gen_quantiles(rng):
    r = rng.random()
    if r < 0.25:
        return float(rng.choice([0.5, 0.95, 0.05, 0.9])), "scalar"
    if r < 0.6:
        return [0.5, 0.95], "pair"
    if r < 0.8:
        return sorted(float(t) for t in rng.uniform(0, 1, int(rng.integers(1, 5)))), "random"
    if r < 0.9:
        return np.array([0.01, 0.25, 0.75, 0.99]), "array"
    return [0.0, 1.0, 0.5], "edges"


def gen_downsample(rng, n_sel, n_valid):
    """Requested size; a few requests are drawn without looking at the number of valid
    points (those that would hit the C16 defects are skipped by the driver)."""
    r = rng.random()
    if r < 0.15:
        return 0
    if r < 0.25:
        return int(rng.integers(0, n_sel + 3))            # naive
    if r < 0.33:
        return n_sel + int(rng.integers(0, 2 * n_sel + 2))  # at least every selected event
    if n_valid < 1:
        return 0
    if r < 0.40:
        return n_valid
    if r < 0.50:
        return max(1, n_valid - 1)
    if r < 0.58:
        return 1
    return int(rng.integers(1, n_valid + 1))


def gen_stat_args(rng, feats):
    from vmon.model.c12_stats import ALL_METHODS
    r = rng.random()
    if r < 0.45:
        methods = None
    else:
        k = int(rng.integers(1, len(ALL_METHODS) + 1))
        methods = [str(m) for m in rng.choice(ALL_METHODS, k, replace=False)]
    r = rng.random()
    if r < 0.35:
        features = None
    else:
        k = int(rng.integers(1, len(feats) + 1))
        features = [str(f) for f in rng.choice(feats, k, replace=False)]
        if rng.random() < 0.15:
            features.append("fl3_max")                    # not in the dataset
        if rng.random() < 0.15:
            features[0] = features[0].upper()
        if rng.random() < 0.1:
            features.append("index")
    return methods, features


def gen_tsv_features(rng, feats):
    k = int(rng.integers(1, len(feats) + 1))
    fs = [str(f) for f in rng.choice(feats, k, replace=False)]
    if rng.random() < 0.2:
        fs.append(fs[0])                                  # duplicate
    if rng.random() < 0.2:
        fs[-1] = fs[-1].upper()
    if rng.random() < 0.15:
        fs.append("index")
    return fs


# ------------------------------------------------------------------ exhaustive sub-space
EXH_TEMPLATES = [
    # (name, x values, y values) - the first n entries are used
    ("plain", [31.0, 48.5, 52.25, 40.0, 66.0, 45.5, 58.0, 37.25],
              [0.021, 0.034, 0.011, 0.052, 0.047, 0.026, 0.061, 0.018]),
    ("ties+nan", [2.0, 2.0, 3.0, np.nan, 5.0, 3.0, 2.0, 7.0],
                 [1.0, 4.0, 4.0, 2.0, np.inf, 1.0, 6.0, 3.0]),
    ("signed", [-3.0, 1.5, 0.0, 2.5, -1.0, 4.0, 0.5, -2.0],
               [0.5, -0.25, 2.0, 1.0, 0.0, 3.0, 1.5, 0.75]),
    ("ramp", [1.0, 2.0, 3.0, 4.0, 5.0, 6.0, 7.0, 8.0],
             [8.0, 7.5, 6.0, 6.5, 4.0, 3.5, 2.5, 1.0]),
]


def exhaustive_count(max_n, n_templates):
    return n_templates * sum(2 ** n for n in range(1, max_n + 1))


def exhaustive_case(idx, max_n):
    """idx -> (template index, n, mask bits as bool array)"""
    per = sum(2 ** n for n in range(1, max_n + 1))
    t, r = divmod(idx, per)
    n = 1
    while r >= 2 ** n:
        r -= 2 ** n
        n += 1
    mask = np.array([(r >> i) & 1 for i in range(n)], dtype=bool)
    return t, n, mask
