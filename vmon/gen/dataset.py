"""Seeded generator of dataset models (pure numpy; dclab is only used by write_model).

A *model* is a plain dict:
  {"n": N, "features": {...}, "meta": {sec: {key: value}}, "logs": {name: [str]},
   "tables": {name: np.recarray}}
features: scalar -> 1d array; image/image_bg -> uint8 (N,h,w); mask -> bool (N,h,w);
contour -> list of (k,2) int arrays; trace -> {name: int16 (N,s)}.
"""
import numpy as np

FLOAT_SCALARS = ["area_um", "deform", "area_cvx", "area_msd", "pos_x", "pos_y", "size_x",
                 "size_y", "bright_avg", "bright_sd", "aspect", "tilt", "temp", "time",
                 "fl1_width", "fl1_area", "fl2_area", "fl1_pos", "pressure", "g_force",
                 "inert_ratio_cvx", "inert_ratio_raw", "circ", "area_ratio", "temp_amb",
                 "index_online", "userdef1", "userdef2", "ml_score_abc", "bg_med", "volume"]
UINT32_SCALARS = ["fl1_max", "fl2_max", "fl3_max", "fl1_npeaks", "fl2_npeaks", "nevents"]
UINT64_SCALARS = ["frame"]
TRACES = ["fl1_median", "fl1_raw", "fl2_median", "fl2_raw", "fl3_median", "fl3_raw"]

SPECIALS = np.array([np.nan, np.inf, -np.inf, 5e-324, -5e-324, 1.7976931348623157e308,
                     -1.7976931348623157e308, 0.0, -0.0, 1e-300, 2.0 ** 53 + 2, 1 / 3])


def event_counts(rng, small=False):
    """Event counts straddling the writer's chunk lengths (10 events for the 256-byte
    configuration)."""
    r = rng.random()
    if r < 0.45:
        return int(rng.choice([1, 2, 9, 10, 11, 19, 20, 21, 29, 30, 31, 3, 5, 7]))
    if r < 0.8 or small:
        return int(rng.integers(1, 60))
    return int(rng.integers(60, 400))


def float_scalar(rng, n, special=0.15, kind=None):
    kind = kind if kind is not None else rng.integers(0, 5)
    if kind == 0:
        a = rng.normal(0, 1, n)
    elif kind == 1:
        a = rng.uniform(0, 100, n)
    elif kind == 2:
        a = np.round(rng.uniform(0, 5, n))          # heavy ties
    elif kind == 3:
        a = rng.normal(0, 1, n) * 10.0 ** rng.integers(-12, 12)
    else:
        a = rng.integers(-1000, 1000, n).astype(float) / 8
    if special and rng.random() < 0.6:
        m = rng.random(n) < special
        a = np.where(m, rng.choice(SPECIALS, n), a)
    if rng.random() < 0.05:
        a[:] = np.nan
    elif rng.random() < 0.1 and n > 1:
        a[:int(rng.integers(1, n))] = np.nan       # all-NaN prefix
    return np.asarray(a, dtype=np.float64)


def int_scalar(rng, n, hi):
    r = rng.random()
    if r < 0.5:
        return rng.integers(0, 1000, n).astype(np.int64)
    if r < 0.8:
        return rng.integers(0, hi, n, dtype=np.uint64).astype(
            np.uint64 if hi > 2 ** 62 else np.int64)
    return np.full(n, hi - 1, dtype=np.uint64 if hi > 2 ** 62 else np.int64)


def gen_contours(rng, n, h, w):
    out = []
    for _ in range(n):
        k = int(rng.integers(4, 25))
        c = np.stack([rng.integers(0, w, k), rng.integers(0, h, k)], axis=1)
        out.append(c.astype(np.int64 if rng.random() < 0.5 else np.int32))
    return out


def gen_logs(rng, hostile=True):
    logs = {}
    alphabet = ["plain ascii line", "", "tab\tand spaces  ", "äöü ßµ unicode €",
                "日本語のログ", "x" * 99, "y" * 100, "emoji 🔬 inside"]
    for i in range(int(rng.integers(0, 4))):
        lines = []
        for _ in range(int(rng.integers(1, 8))):
            r = rng.random()
            if hostile and r < 0.12:
                # over-long, possibly with a multi-byte character at byte 100
                pad = int(rng.integers(95, 102))
                lines.append("z" * pad + "µ€" * int(rng.integers(1, 20)))
            elif hostile and r < 0.2:
                lines.append("q" * int(rng.integers(101, 300)))
            else:
                lines.append(str(rng.choice(alphabet)) + f" #{int(rng.integers(0, 99))}")
        logs[f"log-{i}" if rng.random() < 0.7 else f"протокол {i}"] = lines
    return logs


def gen_tables(rng, with_inputs=False):
    """-> {name: expected recarray}; with_inputs also {name: object handed to store_table}
    (the recarray itself, or - as the writer documents - a dict of columns given as float /
    integer / boolean arrays or lists of Python numbers, which is stored as float64 columns)."""
    tabs, inputs = {}, {}
    for i in range(int(rng.integers(0, 3))):
        ncol = int(rng.integers(1, 5))
        nrow = int(rng.integers(1, 30))
        names = [f"col {j}" if rng.random() < 0.5 else f"spalte_{j}µ" for j in range(ncol)]
        dt = np.dtype({"names": names, "formats": [np.float64] * ncol})
        data = rng.normal(size=(nrow, ncol))
        if rng.random() < 0.3:
            data[rng.random(data.shape) < 0.2] = np.nan
        as_dict = with_inputs and rng.random() < 0.5
        cols = {}
        if as_dict:
            all_int = rng.random() < 0.4
            for j, nm in enumerate(names):
                kind = int(rng.integers(1, 5)) if all_int else int(rng.integers(0, 6))
                if kind == 0:
                    cols[nm] = data[:, j].copy()
                elif kind == 1:
                    cols[nm] = rng.integers(-2 ** 40, 2 ** 40, nrow)
                elif kind == 2:
                    cols[nm] = [int(v) for v in rng.integers(0, 1000, nrow)]
                elif kind == 3:
                    cols[nm] = rng.integers(0, 60000, nrow).astype(np.uint16)
                elif kind == 4:
                    cols[nm] = np.arange(1, nrow + 1)
                else:
                    cols[nm] = [float(v) for v in data[:, j]]
                data[:, j] = np.asarray(cols[nm], dtype=np.float64)
        rec = np.rec.array(np.zeros(nrow, dtype=dt))
        for j, nm in enumerate(names):
            rec[nm] = data[:, j]
        tabs[f"tab-{i}"] = rec
        if as_dict:
            inputs[f"tab-{i}"] = cols
    if with_inputs:
        return tabs, inputs
    return tabs


def complete_meta(rng, feats, n, shape=None, traces=None):
    """All keys the integrity checker calls important, consistent with the features."""
    sec = int(rng.integers(0, 60))
    frac = "" if rng.random() < 0.5 else f".{int(rng.integers(0, 1000)):03d}"
    meta = {
        "experiment": {
            "date": f"20{int(rng.integers(10, 30)):02d}-{int(rng.integers(1, 13)):02d}-"
                    f"{int(rng.integers(1, 29)):02d}",
            "event count": n,
            "run index": int(rng.integers(1, 20)),
            "sample": str(rng.choice(["sample A", "Probe ä", "blood 1:10", "x"])),
            "time": f"{int(rng.integers(0, 24)):02d}:{int(rng.integers(0, 60)):02d}:"
                    f"{sec:02d}{frac}",
        },
        "imaging": {
            "flash device": "LED",
            "flash duration": float(rng.choice([1.0, 2.0, 2.5])),
            "frame rate": float(rng.choice([2000.0, 3000.0, 1999.5])),
            "pixel size": float(rng.choice([0.34, 0.26, 0.5])),
            "roi position x": int(rng.integers(0, 600)),
            "roi position y": int(rng.integers(0, 400)),
            "roi size x": int(shape[1]) if shape else int(rng.integers(20, 300)),
            "roi size y": int(shape[0]) if shape else int(rng.integers(20, 100)),
        },
        "setup": {
            "channel width": float(rng.choice([20.0, 30.0, 15.0, 40.0])),
            "chip region": str(rng.choice(["channel", "reservoir"])),
            "flow rate": float(rng.choice([0.04, 0.06, 0.12, 0.16, 0.32])),
            "medium": str(rng.choice(["CellCarrierB", "CellCarrier", "water", "other",
                                      "0.49% MC-PBS"])),
        },
    }
    if rng.random() < 0.35:
        # the version chain of the source measurement (recording software, earlier dclab
        # versions that processed the data); the writer appends the current version
        meta["setup"]["software version"] = str(rng.choice([
            "ShapeIn 2.0.1 | dclab 0.35.0", "dclab 0.30.1", "ShapeIn 2.2.2.4",
            "ShapeIn 2.2.2.4 | dclab 0.46.0 | dclab 0.47.2", "ChipStream 0.5.1",
            "ShapeIn 2.0.5 | dclab 0.36.1 | dclab 0.48.1"]))
    if rng.random() < 0.6:
        meta["experiment"]["run identifier"] = "mid-" + "".join(
            rng.choice(list("0123456789abcdef"), 8))
    if rng.random() < 0.4:
        meta["setup"]["temperature"] = float(rng.uniform(18, 30))
    if rng.random() < 0.5:
        meta["setup"]["identifier"] = "ZMDD-AcC-" + "".join(rng.choice(list("0123456789"), 6))
    if rng.random() < 0.3:
        meta["setup"]["module composition"] = "Cell_Flow_2, Fluor"
    if rng.random() < 0.3:
        fr = meta["setup"]["flow rate"]
        meta["setup"]["flow rate sample"] = fr / 4
        meta["setup"]["flow rate sheath"] = fr * 3 / 4
    if rng.random() < 0.3:
        meta["online_contour"] = {"bin area min": int(rng.integers(5, 50)),
                                  "bin kernel": 5, "bin threshold": -6,
                                  "image blur": 0, "no absdiff": bool(rng.integers(0, 2))}
    if rng.random() < 0.3:
        meta["online_filter"] = {"target event count": int(rng.integers(0, 10000)),
                                 "area_um min": 10.0, "area_um max": 200.0,
                                 # (any representation of a boolean the key accepts)
                                 "area_um soft limit": [True, False, 0, 1, "True", "False",
                                                        np.int64(1), np.bool_(False)][
                                     int(rng.integers(0, 8))]}
    if rng.random() < 0.4:
        meta["user"] = {"my key": float(rng.normal()), "note": "ünï code",
                        "count": int(rng.integers(0, 100)), "flag": bool(rng.integers(0, 2))}
    fl_present = [i for i in (1, 2, 3) if f"fl{i}_max" in feats]
    if fl_present or traces:
        spe = traces[list(traces)[0]].shape[1] if traces else int(rng.integers(10, 200))
        flm = {
            "bit depth": 16, "channel count": len(fl_present), "channels installed": 3,
            "laser count": len(fl_present), "lasers installed": 3,
            "sample rate": int(rng.choice([312500, 500000])),
            "samples per event": int(spe), "signal max": 1.0, "signal min": -1.0,
            "trace median": int(rng.choice([0, 11, 21])),
        }
        for j, i in enumerate(fl_present):
            flm[f"channel {i} name"] = f"FL{i} name"
            flm[f"laser {j + 1} lambda"] = float([488.0, 561.0, 640.0][j])
            flm[f"laser {j + 1} power"] = float(rng.uniform(1, 100))
        meta["fluorescence"] = flm
    return meta


def blob_masks(rng, n, h, w):
    """Connected, hole-free, interior blobs (filled ellipses, >= 3x3 px)."""
    yy, xx = np.mgrid[0:h, 0:w]
    out = np.zeros((n, h, w), dtype=bool)
    for i in range(n):
        ry = rng.uniform(1.5, max(1.6, (h - 3) / 2))
        rx = rng.uniform(1.5, max(1.6, (w - 3) / 2))
        cy = rng.uniform(1 + ry, h - 2 - ry) if h - 2 - ry > 1 + ry else (h - 1) / 2
        cx = rng.uniform(1 + rx, w - 2 - rx) if w - 2 - rx > 1 + rx else (w - 1) / 2
        out[i] = ((yy - cy) / ry) ** 2 + ((xx - cx) / rx) ** 2 <= 1
        if not out[i].any():
            out[i, h // 2, w // 2] = True
    return out


def gen_model(rng, n=None, kinds=None, hostile_logs=True, complete=True, max_scalar=8,
              special=0.15, roi=None, realistic=False):
    """kinds: subset of {"scalar", "int", "image", "image_bg", "mask", "contour", "trace"}"""
    n = n if n is not None else event_counts(rng)
    if kinds is None:
        kinds = {"scalar"}
        for k, p in [("int", .5), ("image", .4), ("image_bg", .2), ("mask", .4),
                     ("contour", .3), ("trace", .3)]:
            if rng.random() < p:
                kinds.add(k)
    feats = {}
    ns = int(rng.integers(1, max_scalar + 1))
    for f in rng.choice(FLOAT_SCALARS, ns, replace=False):
        if str(f).startswith("ml_score"):
            # probabilities; dclab documents the range [0, 1]
            feats[str(f)] = rng.uniform(0, 1, n)
        else:
            feats[str(f)] = float_scalar(rng, n, special=special)
    if "deform" not in feats:
        feats["deform"] = np.asarray(rng.uniform(0, 0.3, n))
    if "int" in kinds:
        for f in rng.choice(UINT32_SCALARS, int(rng.integers(1, 4)), replace=False):
            feats[str(f)] = int_scalar(rng, n, 2 ** 32)
        if rng.random() < 0.6:
            feats["frame"] = int_scalar(rng, n, 2 ** 64 if rng.random() < 0.3 else 2 ** 40)
    h, w = roi if roi else (int(rng.integers(4, 25)), int(rng.integers(4, 25)))
    if realistic:
        h, w = max(h, 8), max(w, 8)
    shape = None
    for k in ("image", "image_bg"):
        if k in kinds:
            feats[k] = rng.integers(0, 256, (n, h, w), dtype=np.uint8)
            shape = (h, w)
    if "mask" in kinds:
        feats["mask"] = blob_masks(rng, n, h, w) if realistic else rng.random((n, h, w)) < 0.4
        shape = (h, w)
    if "contour" in kinds:
        feats["contour"] = gen_contours(rng, n, h, w)
    traces = None
    if "trace" in kinds:
        s = int(rng.integers(8, 65))
        names = list(rng.choice(TRACES, int(rng.integers(1, 7)), replace=False))
        traces = {str(t): rng.integers(-2 ** 15, 2 ** 15, (n, s)).astype(np.int16)
                  for t in names}
        q = rng.random()
        if q < 0.08:
            # traces are stored with the data type they are given in: e.g. smoothed
            # (non-integer) traces or wider integers
            traces = {t: (v.astype(np.float64) + rng.uniform(0, 1, v.shape)) for t, v in
                      traces.items()}
        elif q < 0.16:
            traces = {t: v.astype(np.int32) * 3 for t, v in traces.items()}
        feats["trace"] = traces
    meta = complete_meta(rng, feats, n, shape, traces) if complete else {
        "experiment": {"sample": "partial"}, "setup": {"channel width": 20.0}}
    logs = gen_logs(rng, hostile_logs)
    tabs, tab_inputs = gen_tables(rng, with_inputs=True)
    return {"n": n, "features": feats, "meta": meta, "logs": logs, "tables": tabs,
            "table_inputs": tab_inputs}


def slice_feature(data, sl):
    if isinstance(data, dict):
        return {k: v[sl] for k, v in data.items()}
    if isinstance(data, list):
        return data[sl]
    return data[sl]


def write_model(path, model, mode="reset", compression=None, with_index=False):
    """Write a model in one go with the real writer (used as *input* producer by checks
    whose subject is not the writer)."""
    import dclab
    kw = {} if compression is None else {"compression_kwargs": compression}
    with dclab.RTDCWriter(path, mode=mode, **kw) as hw:
        hw.store_metadata(model["meta"])
        for f, d in model["features"].items():
            hw.store_feature(f, d)
        if with_index:
            hw.store_feature("index", np.arange(1, model["n"] + 1))
        for name, lines in model["logs"].items():
            hw.store_log(name, lines)
        for name, tab in model["tables"].items():
            hw.store_table(name, model.get("table_inputs", {}).get(name, tab))
    return path


def describe(model):
    d = {"n": model["n"], "features": {}}
    for f, v in model["features"].items():
        if isinstance(v, dict):
            d["features"][f] = {k: list(a.shape) for k, a in v.items()}
        elif isinstance(v, list):
            d["features"][f] = f"ragged[{len(v)}]"
        else:
            d["features"][f] = f"{v.dtype}{list(v.shape)}"
    d["logs"] = {k: len(v) for k, v in model["logs"].items()}
    d["tables"] = {k: [len(v), list(v.dtype.names)] for k, v in model["tables"].items()}
    d["meta_sections"] = sorted(model["meta"])
    return d
