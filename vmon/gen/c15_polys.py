"""C15 generators: grid polygon enumeration, random float polygons with query points that
provoke vertex-level ties, and sets of filters for one .poly file.  No dclab import."""
import numpy as np

LENGTHS = (3, 4, 5)


# ------------------------------------------------------------------ exhaustive small grids
def grid_total(n, lengths=LENGTHS):
    m = n * n
    return sum(m ** L for L in lengths)


def grid_decode(n, lo, hi, lengths=LENGTHS):
    """Polygons number lo..hi-1 of the enumeration "all vertex sequences of length 3, then
    4, then 5 over the n x n grid" -> list of (L, first_global_index, V (B, L, 2) int64)."""
    m = n * n
    out = []
    off = 0
    for L in lengths:
        cnt = m ** L
        a, b = max(lo, off), min(hi, off + cnt)
        if a < b:
            k = np.arange(a - off, b - off, dtype=np.int64)
            ids = np.empty((len(k), L), dtype=np.int64)
            for pos in range(L - 1, -1, -1):
                ids[:, pos] = k % m
                k = k // m
            V = np.stack([ids // n, ids % n], axis=2)
            out.append((L, a, V))
        off += cnt
    return out


def half_grid_points(n):
    """Doubled-integer query points: every half-grid position from -1/2 to (n-1)+1/2 in
    both directions (grid points, edge midpoints, cell centres and one ring outside, so
    that rays from outside run through vertices and along horizontal edges)."""
    g = np.arange(-1, 2 * (n - 1) + 2, dtype=np.int64)
    return np.array([(a, b) for a in g for b in g], dtype=np.int64)


# ----------------------------------------------------------------------- float polygons
def _unit_polygon(rng, L):
    kind = rng.choice(["star", "random", "pool", "pool", "collinear", "repeat", "spike"])
    if kind == "star":
        ang = np.sort(rng.uniform(0, 2 * np.pi, L))
        rad = rng.uniform(0.2, 1.0, L)
        v = np.stack([rad * np.cos(ang), rad * np.sin(ang)], axis=1)
        if rng.random() < 0.5:
            v = v[::-1]
    elif kind == "random":
        v = rng.uniform(-1, 1, (L, 2))
    elif kind == "pool":
        kx, ky = int(rng.integers(2, 5)), int(rng.integers(2, 5))
        xs = rng.uniform(-1, 1, kx)
        ys = rng.uniform(-1, 1, ky)
        v = np.stack([xs[rng.integers(0, kx, L)], ys[rng.integers(0, ky, L)]], axis=1)
    elif kind == "collinear":
        v = rng.uniform(-1, 1, (L, 2))
        # put some vertices exactly level / vertically aligned with their predecessor
        for i in range(1, L):
            r = rng.random()
            if r < 0.3:
                v[i, 1] = v[i - 1, 1]
            elif r < 0.5:
                v[i, 0] = v[i - 1, 0]
    elif kind == "repeat":
        v = rng.uniform(-1, 1, (L, 2))
        for i in range(1, L):
            if rng.random() < 0.3:
                v[i] = v[int(rng.integers(0, i))]
    else:  # spike: out-and-back edges (zero-area parts)
        base = rng.uniform(-1, 1, (max(2, (L + 1) // 2), 2))
        v = np.concatenate([base, base[::-1]])[:L]
        if len(v) < L:
            v = np.concatenate([v, rng.uniform(-1, 1, (L - len(v), 2))])
    return str(kind), np.ascontiguousarray(v, dtype=np.float64)


def float_case(rng, n_pts=40):
    """Random polygon with 3..12 vertices, scaled to magnitudes 1e-6 .. 1e6 (per axis) and
    query points that are level with vertices, aligned with them, close to edges or
    uniformly spread.  Returns (verts, pts, meta)."""
    L = int(rng.integers(3, 13))
    kind, v = _unit_polygon(rng, L)
    ex = rng.uniform(-6, 6)
    ey = ex if rng.random() < 0.4 else rng.uniform(-6, 6)
    sx, sy = 10.0 ** ex, 10.0 ** ey
    ox = oy = 0.0
    offset = "none"
    r = rng.random()
    if r < 0.25:
        ox, oy = sx * rng.uniform(-3, 3), sy * rng.uniform(-3, 3)
        offset = "small"
    elif r < 0.35:
        ox, oy = sx * rng.uniform(-1e3, 1e3), sy * rng.uniform(-1e3, 1e3)
        offset = "large"
    v = np.stack([v[:, 0] * sx + ox, v[:, 1] * sy + oy], axis=1)
    if rng.random() < 0.15:
        # snap to a coarse binary grid: many exact collinearities and exact midpoints
        q = 2.0 ** np.floor(np.log2(max(np.abs(v[:, 0]).max(), 1e-300)) - 4)
        p = 2.0 ** np.floor(np.log2(max(np.abs(v[:, 1]).max(), 1e-300)) - 4)
        v = np.stack([np.round(v[:, 0] / q) * q, np.round(v[:, 1] / p) * p], axis=1)
        kind += "+snapped"
    xmin, xmax = v[:, 0].min(), v[:, 0].max()
    ymin, ymax = v[:, 1].min(), v[:, 1].max()
    wx = (xmax - xmin) or abs(xmax) or 1.0
    wy = (ymax - ymin) or abs(ymax) or 1.0
    pts = np.empty((n_pts, 2))
    how = []
    near_mag = {}
    for k in range(n_pts):
        r = rng.random()
        if r < 0.20:
            p = (rng.uniform(xmin - 0.3 * wx, xmax + 0.3 * wx),
                 rng.uniform(ymin - 0.3 * wy, ymax + 0.3 * wy))
            how.append("uniform")
        elif r < 0.45:
            # level with a vertex (the +x ray runs through it when the point is left)
            i = int(rng.integers(0, L))
            p = (rng.uniform(xmin - 0.5 * wx, xmax + 0.1 * wx), v[i, 1])
            how.append("level")
        elif r < 0.55:
            i = int(rng.integers(0, L))
            p = (v[i, 0], rng.uniform(ymin - 0.3 * wy, ymax + 0.3 * wy))
            how.append("aligned")
        elif r < 0.65:
            i, j = int(rng.integers(0, L)), int(rng.integers(0, L))
            p = (v[i, 0], v[j, 1])
            how.append("vertex_mix")
        elif r < 0.75:
            i = int(rng.integers(0, L))
            j = (i + 1) % L
            p = (0.5 * (v[i, 0] + v[j, 0]), 0.5 * (v[i, 1] + v[j, 1]))
            how.append("edge_mid")
        else:
            # close to an edge: relative distance 1e-17 .. 1e-2 of the coordinate size
            i = int(rng.integers(0, L))
            j = (i + 1) % L
            t = rng.uniform(-0.1, 1.1)
            bx = v[i, 0] + t * (v[j, 0] - v[i, 0])
            by = v[i, 1] + t * (v[j, 1] - v[i, 1])
            mag = 10.0 ** rng.uniform(-17, -2)
            p = (bx + rng.choice([-1, 1]) * mag * max(abs(bx), wx),
                 by if rng.random() < 0.5 else
                 by + rng.choice([-1, 1]) * mag * max(abs(by), wy))
            how.append("near_edge")
            near_mag[k] = float(mag)
        pts[k] = p
    meta = {"kind": kind, "L": L, "log10_sx": round(float(ex), 2),
            "log10_sy": round(float(ey), 2), "offset": offset, "how": how,
            "near_mag": near_mag}
    return np.ascontiguousarray(v), pts, meta


# ------------------------------------------------------------------- filters for one file
NAMES_PLAIN = ["gate", "cells large", "Subset #3", "a,b;c", "[bracketed]", "deform>0.1 & <0.2",
               "tab\tinside", "(x)", "100%", "polygon filter 7", "True", "point00000001",
               "X Axis", "Inverted", "name with 'quotes' \"double\"", "trailing.dot.",
               "Ümläut µm ≤ 5", "細胞", "x" * 300, "0", "-", ""]
NAMES_EQUALS = ["ratio=1", "a = b", "deform>=0.1", "="]
NAMES_PADDED = [" leading", "trailing ", "\tboth\t"]


def file_case(rng, features, max_filters=20, min_filters=1):
    """1..max_filters filter descriptions destined for one .poly file."""
    k = int(rng.integers(min_filters, max_filters + 1))
    used_ids = set()
    counter = 0
    filters = []
    explicit_ids = rng.random() < 0.5
    # a name containing '=' makes the whole file unloadable (finding poly-name-equals-sign);
    # keep such files rare so that the other round-trip monitors see enough loadable files
    equals_at = int(rng.integers(0, k)) if rng.random() < 0.05 else -1
    for pos in range(k):
        r = rng.random()
        if r < 0.4:
            n = int(rng.integers(3, 7))
            L = int(rng.integers(3, 13))
            pts = rng.integers(0, n, (L, 2)).astype(np.float64)
            if rng.random() < 0.3:
                pts -= n // 2            # negative coordinates
            ptype = "grid"
        else:
            pts, _q, _m = float_case(rng, n_pts=1)
            ptype = "float"
        r = rng.random()
        if pos == equals_at:
            name, nkind = NAMES_EQUALS[int(rng.integers(0, len(NAMES_EQUALS)))], "equals"
        elif r < 0.15:
            name, nkind = None, "default"
        elif r < 0.96:
            name, nkind = NAMES_PLAIN[int(rng.integers(0, len(NAMES_PLAIN)))], "plain"
        else:
            name, nkind = NAMES_PADDED[int(rng.integers(0, len(NAMES_PADDED)))], "padded"
        i, j = rng.choice(len(features), 2, replace=rng.random() < 0.05)
        axes = (features[int(i)], features[int(j)])
        if rng.random() < 0.5:
            axes = list(axes)
        uid = None
        if explicit_ids and rng.random() < 0.7:
            while True:
                uid = int(rng.choice([rng.integers(0, 60), rng.integers(0, 10 ** 4),
                                      rng.integers(10 ** 7, 10 ** 10)]))
                if uid not in used_ids:
                    break
            expected = uid
        else:
            expected = counter          # the allocator hands out max(id) + 1
        counter = max(counter, expected + 1)
        used_ids.add(expected)
        filters.append({"axes": axes, "points": pts, "ptype": ptype,
                        "inverted": bool(rng.random() < 0.5), "name": name,
                        "name_kind": nkind, "unique_id": uid, "expected_id": expected})
    how = str(rng.choice(["each_path", "save_all", "fobj_chain", "two_sessions"]))
    return filters, how
