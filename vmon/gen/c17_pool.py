"""Generator of colliding argument pools and call specifications for C17.

A pool is a dict name -> ndarray plus a list of call specs
``{"fn": name, "via": "public"|"inner", "args": [ref...], "kwargs": {k: ref}}`` with
``ref = ["arr", name] | ["val", python value]``.  Everything derives from the rng passed in.
Does not import dclab.
"""
import numpy as np

KDE = ("kde_gauss", "kde_histogram", "kde_multivariate")


def _base(rng, n):
    kind = rng.choice(["normal", "lognormal", "intvalued", "dup", "uniform"])
    if kind == "normal":
        a = rng.normal(0, 1, n)
    elif kind == "lognormal":
        a = rng.lognormal(0, 0.7, n)
    elif kind == "intvalued":
        a = rng.integers(0, 40, n).astype(np.float64)
    elif kind == "dup":
        a = rng.choice(rng.normal(0, 1, max(3, n // 3)), n)
    else:
        a = rng.uniform(-5, 5, n)
    return np.ascontiguousarray(a, dtype=np.float64)


def build_arrays(rng, n):
    """Families of arrays that share bytes, values or layout.  ``n`` is a multiple of 4."""
    arrays = {}
    fam = {}
    nb = 3
    for b in range(nb):
        base = _base(rng, n)
        big = np.empty(2 * n)
        big[::2] = base
        big[1::2] = rng.normal(0, 1, n)
        p = f"b{b}"
        members = {
            "": base,
            ".copy": base.copy(),
            ".i8": base.view(np.int64),            # same bytes, other dtype
            ".u8": base.view(np.uint64),
            ".be": base.view(">f8"),               # same bytes, other byte order
            ".f4": base.view(np.float32),          # same bytes, other item size (2n items)
            ".2d": base.reshape(n // 2, 2),        # same bytes, other shape
            ".2dT": base.reshape(2, n // 2),
            ".strided": big[::2],                  # same values, not contiguous
            ".rev": base[::-1],                    # negative stride
            ".2dF": np.asfortranarray(base.reshape(n // 2, 2)),
            # same shape, dtype and bytes in memory as ".2d", other axis order (other values)
            ".2dK": base.reshape(2, n // 2).T,
            ".vals_i8": np.round(base * 8).astype(np.int64),
            ".vals_f8": np.round(base * 8).astype(np.float64),   # same values, other dtype
            ".vals_f4": base.astype(np.float32),
        }
        bad = base.copy()
        k = int(rng.integers(1, max(2, n // 6)))
        pos = rng.choice(n, k, replace=False)
        bad[pos] = rng.choice([np.nan, np.inf, -np.inf], k)
        members[".bad"] = bad
        for suf, arr in members.items():
            arrays[p + suf] = arr
        fam[p] = list(members)
    # argument splits of one byte stream into four arrays (x, y, xout, yout)
    k = n // 4
    stream = np.ascontiguousarray(rng.normal(0, 1, 12 * k))
    cuts = {"A": (4 * k, 4 * k, 2 * k, 2 * k), "B": (2 * k, 2 * k, 4 * k, 4 * k),
            "C": (3 * k, 3 * k, 3 * k, 3 * k)}
    for name, lens in cuts.items():
        o = 0
        for j, ln in enumerate(lens):
            arrays[f"s{name}{j}"] = stream[o:o + ln]
            o += ln
    arrays["sF4_0"] = stream[:6 * k].view(np.float32)     # the same bytes as two arrays
    arrays["sF4_1"] = stream[6 * k:].view(np.float32)
    arrays["sH_0"] = stream[:6 * k]
    arrays["sH_1"] = stream[6 * k:]
    return arrays, fam


def _arr(name):
    return ["arr", name]


def _val(v):
    return ["val", v]


BINS = [None, 5, 55, [5, 5], (5, 5), [5, 15], [51, 5], 515, [7, 7], 77, [6, 12], [61, 2]]
BWS = [None, [1.5, 12.5], [1.51, 2.5], (1.5, 12.5), [0.5, 0.75], [0.50, 0.75], [2.0, 2.0]]


def build_calls(rng, arrays, fam, n_target):
    """Call specs over the pool; siblings that collide in an undelimited key are emitted
    together so that both orders occur in a sequence."""
    calls = []
    bases = sorted(fam)

    def pair(suffix):
        b0, b1 = rng.choice(bases, 2, replace=False)
        return b0 + suffix, b1 + suffix

    same_len = ["", ".copy", ".i8", ".u8", ".be", ".strided", ".rev", ".vals_i8", ".vals_f8",
                ".vals_f4", ".bad", ".f4", ".2d", ".2dT", ".2dF", ".2dK"]
    # 1. KDE calls on (x, y) of one layout family
    for fn in KDE:
        for suf in same_len:
            for rep in range(2):
                x, y = pair(suf)
                via = "inner" if suf in (".2d", ".2dT", ".2dF", ".2dK", ".strided", ".rev") \
                    else str(rng.choice(["public", "inner"]))
                style = int(rng.integers(0, 3))
                if style == 0:
                    c = {"fn": fn, "via": via, "args": [_arr(x), _arr(y)], "kwargs": {}}
                elif style == 1:
                    c = {"fn": fn, "via": via, "args": [_arr(x)],
                         "kwargs": {"events_y": _arr(y)}}
                else:
                    c = {"fn": fn, "via": via, "args": [],
                         "kwargs": {"events_x": _arr(x), "events_y": _arr(y)}}
                calls.append(c)
                if suf == ".2d":
                    # sibling with the memory-order twin of both arguments
                    xk, yk = x[:-3] + ".2dK", y[:-3] + ".2dK"
                    calls.append({"fn": fn, "via": "inner", "args": [_arr(xk), _arr(yk)],
                                  "kwargs": {}})
                    calls.append({"fn": fn, "via": "inner", "args": [_arr(x), _arr(y)],
                                  "kwargs": {}})
    # 2. mixed dtype views of the same bytes for x and y of one pair (all orders)
    x0, y0 = pair("")
    for fn in KDE:
        for suf in ("", ".i8", ".u8", ".be", ".f4", ".copy"):
            calls.append({"fn": fn, "via": str(rng.choice(["public", "inner"])),
                          "args": [_arr(x0 + suf), _arr(y0 + suf)], "kwargs": {}})
    # 3. bins / bw that concatenate to the same characters
    for bins in BINS:
        style = int(rng.integers(0, 2))
        if style == 0:
            calls.append({"fn": "kde_histogram", "via": "public",
                          "args": [_arr(x0), _arr(y0)], "kwargs": {"bins": _val(bins)}})
        else:
            calls.append({"fn": "kde_histogram", "via": "inner",
                          "args": [_arr(x0), _arr(y0), _val(None), _val(None), _val(bins)],
                          "kwargs": {}})
        calls.append({"fn": "kde_histogram", "via": "inner",
                      "args": [_arr(x0), _arr(y0)], "kwargs": {"bins": _val(bins)}})
    for bw in BWS:
        calls.append({"fn": "kde_multivariate", "via": str(rng.choice(["public", "inner"])),
                      "args": [_arr(x0), _arr(y0)], "kwargs": {"bw": _val(bw)}})
    # 4. argument splits x|y|xout|yout of one stream
    for fn in KDE:
        for name in "ABC":
            a4 = [_arr(f"s{name}{j}") for j in range(4)]
            calls.append({"fn": fn, "via": "inner", "args": a4, "kwargs": {}})
            calls.append({"fn": fn, "via": "public", "args": a4, "kwargs": {}})
            calls.append({"fn": fn, "via": "public", "args": a4[:2],
                          "kwargs": {"xout": a4[2], "yout": a4[3]}})
        calls.append({"fn": fn, "via": "inner", "args": [_arr("sF4_0"), _arr("sF4_1")],
                      "kwargs": {}})
        calls.append({"fn": fn, "via": "inner", "args": [_arr("sH_0"), _arr("sH_1")],
                      "kwargs": {}})
        # None vs "None": only one of xout/yout set is an error for both
        calls.append({"fn": fn, "via": "inner", "args": [_arr(x0), _arr(y0), _val(None)],
                      "kwargs": {}})
        calls.append({"fn": fn, "via": "inner",
                      "args": [_arr(x0), _arr(y0), _val(None), _val(None)], "kwargs": {}})
    # 5. grid downsampling
    n = len(arrays[bases[0]])
    for suf in ["", ".copy", ".i8", ".be", ".bad", ".strided", ".rev", ".vals_i8", ".vals_f8",
                ".f4", ".2d"]:
        a, b = pair(suf)
        for samples in (0, 1, 10, 5, n - 1, n, n + 3):
            form = int(rng.integers(0, 4))
            ri = bool(rng.random() < 0.5)
            ret = bool(rng.random() < 0.5)
            if form == 0:
                c = {"fn": "downsample_grid", "via": "public",
                     "args": [_arr(a), _arr(b), _val(int(samples))], "kwargs": {}}
            elif form == 1:
                c = {"fn": "downsample_grid", "via": "public",
                     "args": [_arr(a), _arr(b), _val(int(samples)), _val(ri), _val(ret)],
                     "kwargs": {}}
            elif form == 2:
                c = {"fn": "downsample_grid", "via": "public", "args": [_arr(a), _arr(b)],
                     "kwargs": {"samples": _val(int(samples)), "remove_invalid": _val(ri),
                                "ret_idx": _val(ret)}}
            else:
                c = {"fn": "downsample_grid", "via": "public",
                     "args": [_arr(a), _arr(b), _val(int(samples))],
                     "kwargs": {"ret_idx": _val(ret)}}
            calls.append(c)
            if suf == ".2d" and samples in (5, 10):
                for sfx in (".2dK", ".2d"):
                    calls.append({"fn": "downsample_grid", "via": "public",
                                  "args": [_arr(a[:-3] + sfx), _arr(b[:-3] + sfx),
                                           _val(int(samples))], "kwargs": {}})
    a, b = pair("")
    # "1" + "0" == "10": samples=1 with a falsy flag given as 0 versus samples=10
    calls.append({"fn": "downsample_grid", "via": "public",
                  "args": [_arr(a), _arr(b), _val(1), _val(0)], "kwargs": {}})
    calls.append({"fn": "downsample_grid", "via": "public",
                  "args": [_arr(a), _arr(b), _val(10)], "kwargs": {}})
    calls.append({"fn": "downsample_grid", "via": "public",
                  "args": [_arr(a), _arr(b), _val(1), _val(1)], "kwargs": {}})
    calls.append({"fn": "downsample_grid", "via": "public",
                  "args": [_arr(a), _arr(b), _val(11)], "kwargs": {}})
    order = rng.permutation(len(calls))
    calls = [calls[i] for i in order]
    return calls[:n_target] if n_target and n_target < len(calls) else calls


def build_pool(rng, n=None, n_target=None):
    n = int(n if n is not None else 4 * rng.integers(3, 11))     # 12 .. 40
    arrays, fam = build_arrays(rng, n)
    calls = build_calls(rng, arrays, fam, n_target)
    return arrays, calls, n


def gen_sequence(rng, n_calls, length):
    """Indices into the call list: uniform draws mixed with re-draws of recent calls, so
    that hits, evictions and re-insertions all occur."""
    seq = []
    for _ in range(length):
        r = rng.random()
        if seq and r < 0.30:
            seq.append(seq[-int(rng.integers(1, min(len(seq), 30) + 1))])
        elif seq and r < 0.40:
            # far back: likely evicted in the meantime
            seq.append(seq[int(rng.integers(0, len(seq)))])
        else:
            seq.append(int(rng.integers(0, n_calls)))
    return seq
