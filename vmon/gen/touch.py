"""Read-only client accesses in varying forms.

A dataset's feature objects are lazily materialised and cached at several layers; every form of
access below is documented, read-only use.  Workloads call `client_touch` between a state change
and the judged operation so that the judged operation does not always meet untouched (or always
meet fully read) objects (DESIGN 7.5)."""
import warnings

import numpy as np


def client_touch(rng, ds, feats, ctx=None, p=0.5, trace_ok=True, forms=None):
    """Touch a random subset of `feats` of `ds` in a random read-only form."""
    import dclab.definitions as dfn
    done = []
    for f in feats:
        if rng.random() >= p:
            continue
        form = int(rng.integers(0, 8)) if forms is None else int(rng.choice(forms))
        try:
            with np.errstate(all="ignore"), warnings.catch_warnings():
                warnings.simplefilter("ignore")
                if f not in ds:
                    continue
                obj = ds[f]
                if f == "trace":
                    if not trace_ok:
                        continue
                    keys = list(obj.keys())
                    if keys:
                        obj[keys[int(rng.integers(0, len(keys)))]][int(rng.integers(0, len(ds)))]
                    form = "trace"
                elif f == "contour":
                    obj[int(rng.integers(0, len(ds)))]
                    form = "contour"
                else:
                    n = len(obj)
                    if n == 0:
                        continue
                    scalar = dfn.scalar_feature_exists(f)
                    if form == 0:
                        obj[int(rng.integers(0, n))]
                    elif form == 1:
                        obj[-1]
                    elif form == 2:
                        a, b = sorted(int(v) for v in rng.integers(0, n + 1, 2))
                        obj[a:b]
                    elif form == 3 and scalar:
                        np.asarray(obj, dtype=np.float32)
                    elif form == 4 and scalar:
                        np.array(obj, dtype=np.int64)
                    elif form == 5 and scalar:
                        np.nanmean(obj)
                    elif form == 6:
                        for k, _it in enumerate(obj):
                            if k >= 2:
                                break
                    else:
                        len(obj)
        except Exception as exc:            # a refused form is the library's business elsewhere
            if ctx is not None:
                ctx.count(f"client_touch_refused[{type(exc).__name__}:{f}:{form}:{type(ds).__name__}]")
            continue
        done.append([f, form])
        if ctx is not None:
            ctx.count(f"client_touch_form[{form}]")
    return done
