"""Check runner: shards a property's workload over subprocesses, merges what the monitors
observed, classifies violations against known_findings.json, writes evidence, decides the
three-valued verdict (0 held / 1 violated / 2 inconclusive)."""
import concurrent.futures as cf
import importlib
import json
import os
import pathlib
import shutil
import subprocess
import sys
import tempfile
import time

from . import boot

VERIF = boot.VERIF
# a run against a scratch copy (mutation testing) must not overwrite the evidence
_OUT = pathlib.Path(os.environ["VERIF_OUT_DIR"]) if os.environ.get("VERIF_OUT_DIR") else VERIF
EVIDENCE = _OUT / "evidence"
REPLAY = _OUT / "replay"
PY = sys.executable


def load_known():
    with open(VERIF / "known_findings.json") as fd:
        kf = json.load(fd)
    return kf


def _run_shard(prop, spec, workdir, timeout):
    sid = spec["shard"]
    specfile = os.path.join(workdir, f"spec{sid}.json")
    outfile = os.path.join(workdir, f"out{sid}.json")
    logfile = os.path.join(workdir, f"log{sid}.txt")
    with open(specfile, "w") as fd:
        json.dump(spec, fd)
    env = dict(os.environ)
    env.setdefault("PYTHONHASHSEED", "0")
    env["PYTHONPATH"] = str(VERIF) + os.pathsep + env.get("PYTHONPATH", "")
    env.setdefault("OMP_NUM_THREADS", "1")
    env.setdefault("OPENBLAS_NUM_THREADS", "1")
    env.setdefault("MKL_NUM_THREADS", "1")
    env.update(spec.get("env", {}))
    t0 = time.time()
    with open(logfile, "w") as lf:
        try:
            cp = subprocess.run([PY, "-m", "vmon.shard", prop, specfile, outfile],
                                stdout=lf, stderr=subprocess.STDOUT, env=env,
                                timeout=timeout, cwd=str(VERIF))
            status = f"exit{cp.returncode}"
        except subprocess.TimeoutExpired:
            status = "watchdog"
    res = None
    if os.path.exists(outfile):
        with open(outfile) as fd:
            res = json.load(fd)
    log_tail = ""
    try:
        with open(logfile, errors="replace") as fd:
            log_tail = fd.read()[-3000:]
    except OSError:
        pass
    return {"shard": sid, "status": status, "result": res, "wall_s": time.time() - t0,
            "log_tail": log_tail, "spec": spec}


def run_check(prop, tier="quick", seed=0, replay=None, jobs=None, verbose=True):
    t0 = time.time()
    boot.ensure_deps()
    drv = importlib.import_module(f"vmon.work.{prop.lower()}")
    level = drv.LEVEL
    known = load_known()
    known_mech = {k["mechanism"]: k for k in known.get("known", [])
                  if k["property"] == prop}
    if replay:
        with open(replay) as fd:
            rp = json.load(fd)
        spec = dict(rp["spec"])
        spec["only_case"] = rp["case"]
        specs = [spec]
        tier = rp.get("tier", tier)
        seed = rp.get("seed", seed)
    else:
        specs = drv.plan(tier, seed)
    for i, s in enumerate(specs):
        s.setdefault("shard", i)
        s.setdefault("seed", seed)
        s.setdefault("tier", tier)
    jobs = jobs or int(os.environ.get("VERIF_JOBS", os.cpu_count() or 4))
    timeout = getattr(drv, "WATCHDOG_S", {"quick": 600, "thorough": 3600})[tier]
    base = "/dev/shm" if os.path.isdir("/dev/shm") else None
    workdir = tempfile.mkdtemp(prefix=f"vmon-run-{prop}-", dir=base)
    try:
        with cf.ThreadPoolExecutor(max_workers=jobs) as ex:
            outs = list(ex.map(lambda s: _run_shard(prop, s, workdir, timeout), specs))
    finally:
        shutil.rmtree(workdir, ignore_errors=True)

    # ---------------------------------------------------------------- merge
    monitors, counters, known_hits, vclasses = {}, {}, {}, {}
    nontrivial, samples, violations, errors = set(), [], [], []
    inconclusive = []
    cases_run = 0
    for o in outs:
        r = o["result"]
        if o["status"] == "watchdog":
            inconclusive.append(f"shard {o['shard']} hit the wall-clock watchdog")
        elif r is None:
            inconclusive.append(f"shard {o['shard']} died ({o['status']}): "
                                + o["log_tail"][-400:].replace("\n", " | "))
        if r is None:
            continue
        if r.get("fatal"):
            inconclusive.append(f"shard {o['shard']} aborted: {r['fatal']}")
        cases_run += r["cases_run"]
        for k, v in r["monitors"].items():
            monitors[k] = monitors.get(k, 0) + v
        for k, v in r["counters"].items():
            counters[k] = counters.get(k, 0) + v
        for k, v in r["known_hits"].items():
            known_hits[k] = known_hits.get(k, 0) + v
        for k, v in r.get("vclasses", {}).items():
            vclasses[k] = vclasses.get(k, 0) + v
        nontrivial.update(r["nontrivial"])
        for s in r["samples"]:
            if len(samples) < 6:
                samples.append(s)
        for v in r["violations"]:
            v = dict(v)
            v["spec"] = o["spec"]
            violations.append(v)
        errors.extend(r["errors"])
    if hasattr(drv, "post"):
        drv.post({"monitors": monitors, "counters": counters, "nontrivial": nontrivial,
                  "violations": violations, "tier": tier, "seed": seed})
    if errors:
        inconclusive.append(f"{len(errors)} harness error(s), first: "
                            + (errors[0]["exc"] + " @ " + errors[0]["where"]))
    if not replay:
        mins = drv.min_evals(tier) if hasattr(drv, "min_evals") else getattr(drv, "MIN_EVALS", {})
        for mon, need in mins.items():
            if monitors.get(mon, 0) < need:
                inconclusive.append(f"monitor {mon} evaluated {monitors.get(mon, 0)} < {need} times")
        if len(nontrivial) < 2:
            inconclusive.append(f"only {len(nontrivial)} distinct non-trivial case(s)")

    # --------------------------------------------------- classify violations
    real, knownv = [], {}
    for v in violations:
        mech = v.get("finding")
        if mech is not None and mech in known_mech:
            knownv.setdefault(mech, []).append(v)
        else:
            real.append(v)
    # diversify: interleave the violation classes so the first replay files cover them all
    byc = {}
    for v in real:
        byc.setdefault((v["monitor"], v.get("finding")), []).append(v)
    real = [v for tup in __import__("itertools").zip_longest(*byc.values()) for v in tup
            if v is not None]
    # findings counted but whose witnesses were not stored
    for mech, n in known_hits.items():
        if mech in known_mech:
            knownv.setdefault(mech, [])
    lines = []
    REPLAY.mkdir(parents=True, exist_ok=True)
    for mech in sorted(knownv):
        k = known_mech[mech]
        lines.append(f"KNOWN-FINDING: property={prop} {k['id']} {mech}: {k['what']} "
                     f"(observed {known_hits.get(mech, len(knownv[mech]))}x)")
    unlisted_hits = {m: n for m, n in known_hits.items() if m not in known_mech}
    for i, v in enumerate(real[:20]):
        path = REPLAY / f"{prop}_{tier}_s{seed}_{i}.json"
        with open(path, "w") as fd:
            json.dump({"property": prop, "tier": tier, "seed": seed, "spec": v["spec"],
                       "case": v["case"], "monitor": v["monitor"],
                       "finding_model_matched": v.get("finding"),
                       "message": v["message"], "witness": v["witness"]}, fd, indent=1)
        lines.append(f"VIOLATION property={prop} replay={path}")
        if verbose:
            lines.append(f"  monitor={v['monitor']} case={v['case']} "
                         f"mech={v.get('finding')} {v['message'][:300]}")
    n_real = counters.get("violations_total", len(violations)) - sum(
        known_hits.get(m, 0) for m in known_mech)
    n_real = max(n_real, len(real))

    if real:
        verdict, code = "violated", 1
    elif inconclusive:
        verdict, code = "inconclusive", 2
    else:
        verdict, code = "held", 0
    wall = time.time() - t0

    # ------------------------------------------------------------- evidence
    if not replay:
        cov = {
            "evaluations": int(sum(monitors.values())),
            "distinct_nontrivial": len(nontrivial),
            "rule": drv.RULE,
            "samples": samples or ["(no sample recorded)"],
            "cases_run": cases_run,
            "monitor_evaluations": monitors,
            "observed": counters,
            "violation_classes": vclasses,
            "known_finding_hits": {m: n for m, n in known_hits.items() if m in known_mech},
            "shards": len(specs),
            "verdict": verdict,
            "inconclusive_reasons": inconclusive,
        }
        if getattr(drv, "exhaustive", None):
            cov["exhaustive"] = bool(drv.exhaustive(tier))
        ev = {"property_id": prop, "tier": tier, "seed": int(seed), "level": level,
              "coverage": cov,
              "assumptions": boot.ASSUMPTIONS + list(getattr(drv, "ASSUMPTIONS", [])),
              "wall_s": round(wall, 2), "violations": int(n_real)}
        EVIDENCE.mkdir(parents=True, exist_ok=True)
        tmp = EVIDENCE / f".{prop}.json.tmp"
        with open(tmp, "w") as fd:
            json.dump(ev, fd, indent=1)
        os.replace(tmp, EVIDENCE / f"{prop}.json")

    for ln in lines:
        print(ln)
    for r in inconclusive[:6]:
        print(f"INCONCLUSIVE property={prop} reason={r}")
    if len(inconclusive) > 6:
        print(f"INCONCLUSIVE property={prop} ... {len(inconclusive) - 6} more reasons")
    if unlisted_hits:
        print(f"note: defect models matched unlisted mechanisms {unlisted_hits}")
    print(f"[{prop}] tier={tier} seed={seed} verdict={verdict} cases={cases_run} "
          f"evaluations={sum(monitors.values())} nontrivial={len(nontrivial)} "
          f"violations={n_real} known={ {m: known_hits.get(m, 0) for m in knownv} } "
          f"wall={wall:.1f}s")
    if verbose:
        print("  monitors:", json.dumps(monitors, sort_keys=True))
        if vclasses:
            print("  violation classes (monitor|defect-model):", json.dumps(vclasses, sort_keys=True))
    return code
