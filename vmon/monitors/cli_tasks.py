"""Contracts on the real command-line task functions (dclab.cli.*): snapshot of the input's
sha256 at call time, post-condition on the produced file. Used by C08 and observed by every
other workload that runs a task (C09, C10, C13, C20)."""
import functools
import hashlib
import inspect
import pathlib
import re

import numpy as np

from ..model import dscmp, h5equiv
from . import writer as wmon

_ctx = None
_installed = False
TASK_LOG = re.compile(r"^dclab-(compress|condense|tdms2rtdc|join|split)(-warnings)?(_.+)?$")
BASINMAP = re.compile(r"^basinmap[0-9]*$")


def set_ctx(ctx):
    global _ctx
    _ctx = ctx


def sha256(path):
    h = hashlib.sha256()
    with open(path, "rb") as fd:
        for blk in iter(lambda: fd.read(1 << 20), b""):
            h.update(blk)
    return h.hexdigest()


def _extra_attrs(path, ds):
    # documented: copies are completed with the summary attributes of scalar features
    if path.startswith("/events/") and ds.ndim == 1:
        return ("min", "max", "mean")
    return ()


def check_copy(ctx, path_in, path_out, task, strip_logs=False, strip_basins=False,
               scalar_only=False, witness=None):
    """compress / repack (and the copy part of condense): output == input apart from the
    documented differences."""
    import h5py
    import dclab.definitions as dfn
    diffs = []
    with h5py.File(path_in, "r") as hi, h5py.File(path_out, "r") as ho:
        ign = ()
        diffs += h5equiv.compare_attrs(dict(hi.attrs), dict(ho.attrs), "/", ignore=ign)
        # ------------------------------------------------------------ events
        ei = hi["events"] if "events" in hi else {}
        eo = ho["events"] if "events" in ho else {}
        skip = set()
        for f in ei:
            if not dfn.feature_exists(f):
                skip.add(f)        # not a feature for dclab: not judged
                ctx.count("skipped_undefined_feature_in_input")
            elif scalar_only and not dfn.scalar_feature_exists(f):
                skip.add(f)
            elif isinstance(ei[f], h5py.Dataset) and ei[f].shape[0] == 0:
                skip.add(f)        # empty datasets are dropped by design
                ctx.count("skipped_empty_dataset")
            elif strip_basins and BASINMAP.match(f):
                skip.add(f)
        if ei:
            d, extra = h5equiv.compare_group(ei, eo, "/events", skip=skip,
                                             allow_extra_attrs=_extra_attrs)
            diffs += d
            if not scalar_only:
                for e in extra:
                    diffs.append({"where": f"/events/{e}", "extra_in_output": True})
        # -------------------------------------------------------------- logs
        li = hi["logs"] if "logs" in hi else {}
        lo = ho["logs"] if "logs" in ho else {}
        if strip_logs:
            bad = [n for n in lo if not TASK_LOG.match(n)]
            if bad:
                diffs.append({"where": "/logs", "not_stripped": bad})
        else:
            skipl = {n for n in li if li[n].shape[0] == 0 or TASK_LOG.match(n)}
            d, extra = h5equiv.compare_group(li, lo, "/logs", skip=skipl) if li else ([], list(lo))
            diffs += d
            for e in extra:
                if not TASK_LOG.match(e):
                    diffs.append({"where": f"/logs/{e}", "extra_in_output": True})
        # ------------------------------------------------------------ tables
        ti = hi["tables"] if "tables" in hi else {}
        to = ho["tables"] if "tables" in ho else {}
        if ti:
            d, extra = h5equiv.compare_group(ti, to, "/tables")
            diffs += d
            for e in extra:
                diffs.append({"where": f"/tables/{e}", "extra_in_output": True})
        # ------------------------------------------------------------ basins
        for grp in ("basins", "basin_events"):
            gi = hi[grp] if grp in hi else {}
            go = ho[grp] if grp in ho else {}
            if strip_basins:
                if len(go):
                    diffs.append({"where": f"/{grp}", "not_stripped": list(go)})
            elif gi:
                sk = ()
                if grp == "basin_events" and scalar_only:
                    sk = {f for f in gi if not dfn.scalar_feature_exists(f)}
                if grp == "basins" and scalar_only:
                    continue   # internal basin definitions are rewritten for the kept features
                d, extra = h5equiv.compare_group(gi, go, f"/{grp}", skip=sk)
                diffs += d
                for e in extra:
                    diffs.append({"where": f"/{grp}/{e}", "extra_in_output": True})
    findings = [classify_copy_diff(d) for d in diffs]
    finding = findings[0] if findings and all(f == findings[0] and f for f in findings) else None
    ctx.check(f"c08.{task}.content", not diffs,
              lambda: dict(witness or {}, task=task, diffs=diffs[:6], n_diffs=len(diffs)),
              finding=finding,
              message=f"{task}: output differs from input beyond the documented differences: "
                      f"{diffs[:2]}")
    return diffs


def classify_copy_diff(d):
    """Defect models for known copier defects (mechanism keys)."""
    if d.get("where", "").startswith("/tables/") and d.get("out") == "<absent>" and "attr" in d:
        return "table-attributes-dropped-on-copy"
    return None


def check_condense(ctx, path_in, path_out, store_anc, store_basin, witness=None):
    import h5py
    import dclab
    import dclab.definitions as dfn
    diffs = []
    unsigned = []
    with dclab.new_dataset(path_in, enable_basins=store_basin) as ds, \
            h5py.File(path_out, "r") as ho:
        eo = ho["events"] if "events" in ho else {}
        scal = set(ds.features_scalar)
        must = {f for f in ds.features_loaded if f in scal}
        if store_basin:
            must |= {f for f in ds.features_basin if f in scal}
        if store_anc:
            must |= {f for f in ds.features_ancillary if f in scal}
        be = set(ho["basin_events"]) if "basin_events" in ho else set()
        for f in sorted(must):
            if BASINMAP.match(f):
                continue
            try:
                exp = np.asarray(ds[f][:])
            except Exception as exc:
                ctx.count("skipped_input_feature_unreadable")
                continue
            if exp.shape[0] == 0:
                ctx.count("skipped_empty_dataset")   # dropped by design
                continue
            if f not in eo:
                if f in be:
                    continue    # kept as internal basin feature
                diffs.append({"feature": f, "missing_in_output": True})
                continue
            got = eo[f][:]
            if got.dtype.kind in "ui" and got.dtype != exp.dtype:
                if not wmon.representable(exp, got.dtype):
                    if dscmp.arr_equal(got, wmon.hdf5_int_conversion(exp, got.dtype)):
                        unsigned.append(f)
                    else:
                        diffs.append({"feature": f, "unrepresentable_and_not_clamped": True})
                    continue
                exp = exp.astype(got.dtype)
            if not dscmp.arr_equal(got, exp):
                diffs.append({"feature": f, "diff": dscmp.first_diff(got, exp)})
        for f in eo:
            if dfn.feature_exists(f) and not dfn.scalar_feature_exists(f):
                diffs.append({"feature": f, "non_scalar_in_output": True})
            elif dfn.scalar_feature_exists(f) and f not in must and not BASINMAP.match(f):
                try:
                    exp = np.asarray(ds[f][:]) if f in ds else None
                except Exception:
                    exp = None
                if exp is None or not dscmp.arr_equal(eo[f][:], exp):
                    diffs.append({"feature": f, "not_a_feature_of_the_input": True})
        ctx.count("condense_features_compared", len(must))
    if unsigned:
        ctx.ev("c08.condense.scalar_features")
        ctx.violation("c08.condense.scalar_features",
                      dict(witness or {}, features=unsigned),
                      finding="unsigned-integer-feature-clamps-source-values",
                      message=f"condense stored {unsigned} as unsigned integers although the "
                              f"input's values (e.g. ml_class -1) are not representable")
    ctx.check("c08.condense.scalar_features", not diffs,
              lambda: dict(witness or {}, diffs=diffs[:6], n_diffs=len(diffs)),
              message=f"condense: scalar features of the output differ from the input's: "
                      f"{diffs[:2]}")


def _paths(p_out):
    p = pathlib.Path(p_out)
    if p.suffix != ".rtdc":
        p = p.with_name(p.name + ".rtdc")
    return p


def install(ctx):
    global _installed
    set_ctx(ctx)
    if _installed:
        return
    _installed = True
    import dclab.cli as cli
    from dclab.cli import task_compress, task_repack, task_condense
    from ..contracts import wrap_function

    def generic(taskname, post):
        def mk(orig):
            sig = inspect.signature(orig)

            @functools.wraps(orig)
            def wrapper(*a, **kw):
                ctx = _ctx
                ba = sig.bind(*a, **kw)
                ba.apply_defaults()
                p = ba.arguments
                pin = p.get("path_in")
                sha = None
                if ctx is not None and pin is not None and pathlib.Path(pin).is_file():
                    sha = sha256(pin)
                res = orig(*a, **kw)
                if ctx is not None and sha is not None:
                    try:
                        ctx.check(f"c08.{taskname}.input_unmodified", sha256(pin) == sha,
                                  {"task": taskname, "input": str(pin)},
                                  message=f"{taskname} modified its input file")
                        post(ctx, pathlib.Path(pin), _paths(p["path_out"]), p)
                    except Exception as exc:
                        ctx.error(f"cli_tasks.{taskname}.post", exc)
                return res
            return wrapper
        return mk

    def post_compress(ctx, pin, pout, p):
        check_copy(ctx, pin, pout, "compress", witness={"input": pin.name})

    def post_repack(ctx, pin, pout, p):
        check_copy(ctx, pin, pout, "repack", strip_logs=p["strip_logs"],
                   strip_basins=p["strip_basins"],
                   witness={"input": pin.name, "strip_logs": p["strip_logs"],
                            "strip_basins": p["strip_basins"]})

    def post_condense(ctx, pin, pout, p):
        anc = p["store_ancillary_features"] if p["ancillaries"] is None else p["ancillaries"]
        if pin.suffix == ".rtdc":
            check_copy(ctx, pin, pout, "condense", scalar_only=True,
                       witness={"input": pin.name})
        check_condense(ctx, pin, pout, anc, p["store_basin_features"],
                       witness={"input": pin.name, "ancillary": anc,
                                "basin": p["store_basin_features"]})

    sites = {}
    sites["compress"] = wrap_function(task_compress, "compress", generic("compress", post_compress))
    sites["repack"] = wrap_function(task_repack, "repack", generic("repack", post_repack))
    sites["condense"] = wrap_function(task_condense, "condense", generic("condense", post_condense))
    return sites
