"""Contracts on the real command-line task functions (dclab.cli.*): snapshot of the input's
sha256 at call time, post-condition on the produced file. Used by C08 and observed by every
other workload that runs a task (C09, C10, C13, C20)."""
import functools
import hashlib
import inspect
import pathlib
import re

import numpy as np

from ..model import dscmp, h5equiv
from . import writer as wmon

_ctx = None
_installed = False
TASK_LOG = re.compile(r"^dclab-(compress|condense|tdms2rtdc|join|split)(-warnings)?(_.+)?$")
BASINMAP = re.compile(r"^basinmap[0-9]*$")


def set_ctx(ctx):
    global _ctx
    _ctx = ctx


def sha256(path):
    h = hashlib.sha256()
    with open(path, "rb") as fd:
        for blk in iter(lambda: fd.read(1 << 20), b""):
            h.update(blk)
    return h.hexdigest()


def _extra_attrs(path, ds):
    # documented: copies are completed with the summary attributes of scalar features
    if path.startswith("/events/") and ds.ndim == 1:
        return ("min", "max", "mean")
    return ()


def check_copy(ctx, path_in, path_out, task, strip_logs=False, strip_basins=False,
               scalar_only=False, witness=None):
    """compress / repack (and the copy part of condense): output == input apart from the
    documented differences."""
    import h5py
    import dclab.definitions as dfn
    diffs = []
    with h5py.File(path_in, "r") as hi, h5py.File(path_out, "r") as ho:
        ign = ()
        if task in ("compress", "condense"):
            # these tasks finish with the writer, which documents the version branding
            ign = ("setup:software version",)
            vi = hi.attrs.get("setup:software version", "")
            vo = ho.attrs.get("setup:software version", "")
            vi = vi.decode() if isinstance(vi, bytes) else str(vi)
            vo = vo.decode() if isinstance(vo, bytes) else str(vo)
            if not (vo == vi or (vo.startswith(vi) and vo[len(vi):].lstrip(" |").startswith(
                    "dclab "))):
                diffs.append({"where": "/", "attr": "setup:software version", "in": vi,
                              "out": vo})
        diffs += h5equiv.compare_attrs(dict(hi.attrs), dict(ho.attrs), "/", ignore=ign)
        # ------------------------------------------------------------ events
        ei = hi["events"] if "events" in hi else {}
        eo = ho["events"] if "events" in ho else {}
        skip = set()
        defective = set()
        for f in ei:
            if not dfn.feature_exists(f):
                skip.add(f)        # not a feature for dclab: not judged
                ctx.count("skipped_undefined_feature_in_input")
            elif scalar_only and not dfn.scalar_feature_exists(f):
                skip.add(f)
            elif isinstance(ei[f], h5py.Dataset) and ei[f].shape[0] == 0:
                skip.add(f)        # empty datasets are dropped by design
                ctx.count("skipped_empty_dataset")
            elif strip_basins and BASINMAP.match(f):
                skip.add(f)
            else:
                # documented: features that dclab marks as defective for the software that
                # wrote the input are not copied (they are recomputed on demand)
                from dclab.rtdc_dataset.fmt_hdf5 import feat_defect
                chk = feat_defect.DEFECTIVE_FEATURES.get(f)
                verdict = defective_model(hi, f)
                if verdict is None:
                    verdict = chk is not None and chk(hi)
                if verdict:
                    skip.add(f)
                    defective.add(f)
                    ctx.count("skipped_defective_feature_in_input")
        if ei:
            d, extra = h5equiv.compare_group(ei, eo, "/events", skip=skip,
                                             allow_extra_attrs=_extra_attrs)
            diffs += d
            if not scalar_only:
                for e in extra:
                    if e not in defective:
                        diffs.append({"where": f"/events/{e}", "extra_in_output": True})
        # -------------------------------------------------------------- logs
        li = hi["logs"] if "logs" in hi else {}
        lo = ho["logs"] if "logs" in ho else {}
        if strip_logs:
            bad = [n for n in lo if not TASK_LOG.match(n)]
            if bad:
                diffs.append({"where": "/logs", "not_stripped": bad})
        else:
            skipl = {n for n in li if li[n].shape[0] == 0 or TASK_LOG.match(n)}
            d, extra = h5equiv.compare_group(li, lo, "/logs", skip=skipl) if li else ([], list(lo))
            diffs += d
            # command logs of earlier runs may be renamed (archived) but must not be lost
            for n in li:
                if TASK_LOG.match(n) and li[n].shape[0]:
                    if task == "condense" and "_" not in n \
                            and any(m.startswith(n + "_") for m in li):
                        # documented in the task: when a file is condensed repeatedly with
                        # unchanged metadata, the log of the previous run is not archived a
                        # second time under the same name
                        ctx.count("condense_previous_log_not_archived_again(documented)")
                        continue
                    base = n.split("_")[0]
                    want = h5equiv._strings(li[n])
                    if not any(m.startswith(base) and h5equiv._strings(lo[m]) == want
                               for m in lo):
                        diffs.append({"where": f"/logs/{n}", "earlier_command_log_lost": True})
            for e in extra:
                if not TASK_LOG.match(e):
                    diffs.append({"where": f"/logs/{e}", "extra_in_output": True})
        # ------------------------------------------------------------ tables
        ti = hi["tables"] if "tables" in hi else {}
        to = ho["tables"] if "tables" in ho else {}
        if ti:
            d, extra = h5equiv.compare_group(ti, to, "/tables")
            diffs += d
            for e in extra:
                diffs.append({"where": f"/tables/{e}", "extra_in_output": True})
        # ------------------------------------------------------------ basins
        for grp in ("basins", "basin_events"):
            gi = hi[grp] if grp in hi else {}
            go = ho[grp] if grp in ho else {}
            if strip_basins:
                if len(go):
                    diffs.append({"where": f"/{grp}", "not_stripped": list(go)})
            elif gi:
                sk = ()
                if grp == "basin_events" and scalar_only:
                    sk = {f for f in gi if not dfn.scalar_feature_exists(f)}
                if grp == "basins" and scalar_only:
                    continue   # internal basin definitions are rewritten for the kept features
                d, extra = h5equiv.compare_group(gi, go, f"/{grp}", skip=sk)
                diffs += d
                for e in extra:
                    diffs.append({"where": f"/{grp}/{e}", "extra_in_output": True})
        # ------------------------------------------- summary attributes of scalar features
        # the output's min/max/mean attributes are what dclab reports for ds[feat].min() etc.:
        # they must describe the copied data (which equal the input's data)
        if eo:
            check_summaries(ctx, eo, task, witness)
    findings = [classify_copy_diff(d) for d in diffs]
    finding = findings[0] if findings and all(f == findings[0] and f for f in findings) else None
    ctx.check(f"c08.{task}.content", not diffs,
              lambda: dict(witness or {}, task=task, diffs=diffs[:6], n_diffs=len(diffs)),
              finding=finding,
              message=f"{task}: output differs from input beyond the documented differences: "
                      f"{diffs[:2]}")
    return diffs


def _vtuple(text):
    out = []
    for part in text.split("."):
        num = ""
        for ch in part:
            if ch.isdigit():
                num += ch
            else:
                break
        if not num:
            break
        out.append(int(num))
    return tuple(out)


def defective_model(h5, feat):
    """Documented rules for the two features whose defect depends on the dclab version that
    wrote the data - the *last* entry of the version chain (None: no independent rule)."""
    ver = h5.attrs.get("setup:software version", "")
    if isinstance(ver, bytes):
        ver = ver.decode("utf-8")
    chain = [v.strip() for v in str(ver).split("|")]
    last = chain[-1] if chain else ""
    last_dclab = _vtuple(last.split()[1]) if last.startswith("dclab") and len(last.split()) > 1 \
        else None
    if feat == "volume":
        if "logs" in h5 and "dclab_issue_141" in h5["logs"]:
            return False
        return bool(ver) and last_dclab is not None and last_dclab < (0, 37, 0)
    if feat == "time":
        ev = h5["events"]
        if "frame" not in ev or h5.attrs.get("imaging:frame rate", 0) == 0:
            return False
        if ev["time"].dtype.char[-1] == "f":
            return True
        if "ShapeIn" not in str(ver):
            return False
        return last_dclab is not None and last_dclab < (0, 47, 6)
    return None


def check_summaries(ctx, events, task, witness=None):
    """min / max / mean attributes of one-dimensional datasets in an events group against the
    definition (nanmin / nanmax / nanmean of the stored data)."""
    import warnings
    import h5py
    for f in events:
        obj = events[f]
        if not isinstance(obj, h5py.Dataset) or obj.ndim != 1 or obj.shape[0] == 0 \
                or obj.dtype.kind not in "fiu":
            continue
        have = [u for u in ("min", "max", "mean") if u in obj.attrs]
        if not have:
            continue
        vals = obj[:]
        with np.errstate(all="ignore"), warnings.catch_warnings():
            warnings.simplefilter("ignore")
            fin = vals[~np.isnan(vals)] if vals.dtype.kind == "f" else vals
            overflow = bool(fin.size) and not np.isfinite(
                np.sum(np.abs(fin.astype(np.float64))))
            for u in have:
                got = float(obj.attrs[u])
                exp = float({"min": np.nanmin, "max": np.nanmax, "mean": np.nanmean}[u](vals))
                if np.isnan(got) or np.isnan(exp):
                    ok = bool(np.isnan(got) and np.isnan(exp))
                elif u == "mean":
                    if overflow:
                        ctx.count("skipped_mean_overflow_regime")
                        continue
                    ok = abs(got - exp) <= 1e-9 * max(abs(got), abs(exp)) + 1e-300
                else:
                    ok = got == exp
                    if not ok and vals.dtype.kind == "f" and vals.dtype.itemsize < 8:
                        ok = bool(vals.dtype.type(got) == vals.dtype.type(exp))
                ctx.check(f"c08.{task}.summary_attrs", ok,
                          lambda: dict(witness or {}, task=task, feature=f, stat=u,
                                       attribute=repr(got), of_the_data=repr(exp),
                                       n=int(vals.size), chunks=repr(obj.chunks)),
                          message=f"{task}: attribute {u} of /events/{f} is {got!r}, the copied "
                                  f"data have nan{u} = {exp!r}")


def classify_copy_diff(d):
    """Defect models for known copier defects (mechanism keys)."""
    if d.get("where", "").startswith("/tables/") and d.get("out") == "<absent>" and "attr" in d:
        return "table-attributes-dropped-on-copy"
    return None


#: frozen copy of the writer's documented unsigned-integer features (FEATURES_UINT32/64)
UINT_BY_DESIGN = frozenset(["fl1_max", "fl1_npeaks", "fl2_max", "fl2_npeaks", "fl3_max",
                            "fl3_npeaks", "index", "ml_class", "nevents", "frame"])


def check_condense(ctx, path_in, path_out, store_anc, store_basin, witness=None):
    import h5py
    import dclab
    import dclab.definitions as dfn
    diffs = []
    unsigned = []
    with dclab.new_dataset(path_in, enable_basins=store_basin) as ds, \
            h5py.File(path_out, "r") as ho:
        eo = ho["events"] if "events" in ho else {}
        # (the scalar feature names by the documented rule, not only by dclab's own listing:
        # machine-learning scores ml_score_??? are scalar features)
        scal = set(ds.features_scalar) | {f for f in ds.features_loaded
                                          if re.match(r"^ml_score_[0-9a-z]{3}$", f)}
        must = {f for f in ds.features_loaded if f in scal}
        if store_basin:
            must |= {f for f in ds.features_basin if f in scal}
        if store_anc:
            must |= {f for f in ds.features_ancillary if f in scal}
        be = set(ho["basin_events"]) if "basin_events" in ho else set()
        for f in sorted(must):
            if BASINMAP.match(f):
                continue
            try:
                exp = np.asarray(ds[f][:])
            except Exception as exc:
                ctx.count("skipped_input_feature_unreadable")
                continue
            if exp.shape[0] == 0:
                ctx.count("skipped_empty_dataset")   # dropped by design
                continue
            if f not in eo:
                if f in be:
                    continue    # kept as internal basin feature
                diffs.append({"feature": f, "missing_in_output": True})
                continue
            got = eo[f][:]
            if got.dtype.kind in "ui" and got.dtype != exp.dtype and f in UINT_BY_DESIGN:
                # (only the features the writer stores as unsigned integers by design; any
                # other feature keeps the input's values and kind)
                if not wmon.representable(exp, got.dtype):
                    if dscmp.arr_equal(got, wmon.hdf5_int_conversion(exp, got.dtype)):
                        unsigned.append(f)
                    else:
                        diffs.append({"feature": f, "unrepresentable_and_not_clamped": True})
                    continue
                exp = exp.astype(got.dtype)
            if not dscmp.arr_equal(got, exp):
                diffs.append({"feature": f, "diff": dscmp.first_diff(got, exp)})
        for f in eo:
            if dfn.feature_exists(f) and not dfn.scalar_feature_exists(f):
                diffs.append({"feature": f, "non_scalar_in_output": True})
            elif dfn.scalar_feature_exists(f) and f not in must and not BASINMAP.match(f):
                try:
                    exp = np.asarray(ds[f][:]) if f in ds else None
                except Exception:
                    exp = None
                if exp is None or not dscmp.arr_equal(eo[f][:], exp):
                    diffs.append({"feature": f, "not_a_feature_of_the_input": True})
        ctx.count("condense_features_compared", len(must))
    if unsigned:
        ctx.ev("c08.condense.scalar_features")
        ctx.violation("c08.condense.scalar_features",
                      dict(witness or {}, features=unsigned),
                      finding="unsigned-integer-feature-clamps-source-values",
                      message=f"condense stored {unsigned} as unsigned integers although the "
                              f"input's values (e.g. ml_class -1) are not representable")
    ctx.check("c08.condense.scalar_features", not diffs,
              lambda: dict(witness or {}, diffs=diffs[:6], n_diffs=len(diffs)),
              message=f"condense: scalar features of the output differ from the input's: "
                      f"{diffs[:2]}")


def _paths(p_out):
    p = pathlib.Path(p_out)
    if p.suffix != ".rtdc":
        p = p.with_name(p.name + ".rtdc")
    return p


def install(ctx):
    global _installed
    set_ctx(ctx)
    if _installed:
        return
    _installed = True
    import dclab.cli as cli
    from dclab.cli import task_compress, task_repack, task_condense
    from ..contracts import wrap_function

    def generic(taskname, post):
        def mk(orig):
            sig = inspect.signature(orig)

            @functools.wraps(orig)
            def wrapper(*a, **kw):
                ctx = _ctx
                ba = sig.bind(*a, **kw)
                ba.apply_defaults()
                p = ba.arguments
                pin = p.get("path_in")
                sha = None
                if ctx is not None and pin is not None and pathlib.Path(pin).is_file():
                    sha = sha256(pin)
                res = orig(*a, **kw)
                if ctx is not None and sha is not None:
                    try:
                        ctx.check(f"c08.{taskname}.input_unmodified", sha256(pin) == sha,
                                  {"task": taskname, "input": str(pin)},
                                  message=f"{taskname} modified its input file")
                        post(ctx, pathlib.Path(pin), _paths(p["path_out"]), p)
                    except Exception as exc:
                        ctx.error(f"cli_tasks.{taskname}.post", exc)
                return res
            return wrapper
        return mk

    def post_compress(ctx, pin, pout, p):
        check_copy(ctx, pin, pout, "compress", witness={"input": pin.name})

    def post_repack(ctx, pin, pout, p):
        check_copy(ctx, pin, pout, "repack", strip_logs=p["strip_logs"],
                   strip_basins=p["strip_basins"],
                   witness={"input": pin.name, "strip_logs": p["strip_logs"],
                            "strip_basins": p["strip_basins"]})

    def post_condense(ctx, pin, pout, p):
        anc = p["store_ancillary_features"] if p["ancillaries"] is None else p["ancillaries"]
        if pin.suffix == ".rtdc":
            check_copy(ctx, pin, pout, "condense", scalar_only=True,
                       witness={"input": pin.name})
        check_condense(ctx, pin, pout, anc, p["store_basin_features"],
                       witness={"input": pin.name, "ancillary": anc,
                                "basin": p["store_basin_features"]})

    sites = {}
    sites["compress"] = wrap_function(task_compress, "compress", generic("compress", post_compress))
    sites["repack"] = wrap_function(task_repack, "repack", generic("repack", post_repack))
    sites["condense"] = wrap_function(task_condense, "condense", generic("condense", post_condense))
    return sites


# ============================================================================ split / join
def parse_datetime(date, tstr):
    """Numeric acquisition time in seconds (date + HH:MM:SS[.fff]) - independent of dclab."""
    import calendar
    import time as _time
    st = _time.strptime(date + tstr[:8], "%Y-%m-%d%H:%M:%S")
    t = float(_time.mktime(st))
    if len(tstr) > 8:
        t += float(tstr[8:])
    return t


def check_split(ctx, path_in, parts, split_events, skip_initial, skip_final, witness=None):
    import h5py
    import dclab
    from .export import expected_feature, UINT32, UINT64
    diffs = []
    with dclab.new_dataset(path_in) as ds:
        n = len(ds)
        keep = np.ones(n, bool)
        if "image" in ds.features_innate:
            if skip_initial and np.all(np.asarray(ds["image"][0]) == 0):
                keep[0] = False
            if skip_final and np.all(np.asarray(ds["image"][n - 1]) == 0):
                keep[n - 1] = False
        if skip_initial and "contour" in ds.features_innate \
                and np.all(np.asarray(ds["contour"][0]) == 0):
            keep[0] = False
        feats = list(ds.features_innate)
        nparts = -(-n // split_events)
        if len(parts) != nparts:
            diffs.append({"n_parts": len(parts), "expected": nparts})
        pos = 0
        for k, pp in enumerate(parts):
            window = np.arange(k * split_events, min((k + 1) * split_events, n))
            idx = window[keep[window]]
            with h5py.File(pp, "r") as hp:
                ev = hp["events"] if "events" in hp else {}
                cnt = hp.attrs.get("experiment:event count", 0) if len(ev) else 0
                if cnt > split_events:
                    diffs.append({"part": k, "events": int(cnt), "requested_max": split_events})
                if len(idx) == 0:
                    continue
                for f in feats:
                    if f == "index" or f.startswith("basinmap"):
                        continue
                    exp = expected_feature(ds, f, idx)
                    if f not in ev:
                        diffs.append({"part": k, "feature": f, "missing": True})
                        continue
                    if f == "trace":
                        for t in exp:
                            if t not in ev[f] or not dscmp.arr_equal(ev[f][t][:], exp[t]):
                                diffs.append({"part": k, "trace": t})
                    elif f == "contour":
                        if len(ev[f]) != len(exp) or any(
                                not dscmp.arr_equal(ev[f][str(i)][:], c)
                                for i, c in enumerate(exp)):
                            diffs.append({"part": k, "feature": f})
                    else:
                        got = ev[f][:]
                        e = np.asarray(exp)
                        if f == "mask":
                            got, e = got.astype(bool), e.astype(bool)
                        elif got.dtype.kind in "ui" and got.dtype != e.dtype:
                            if not wmon.representable(e, got.dtype):
                                ctx.count("skipped_unrepresentable_unsigned_feature")
                                continue
                            e = e.astype(got.dtype)
                        if not dscmp.arr_equal(got, e):
                            diffs.append({"part": k, "feature": f,
                                          "diff": dscmp.first_diff(got, e)})
                if "index" in ev:
                    if not np.array_equal(ev["index"][:], np.arange(1, len(idx) + 1)):
                        diffs.append({"part": k, "index": ev["index"][:10].tolist()})
                lg = hp["logs"] if "logs" in hp else {}
                for name in ds.logs.keys():
                    if f"src_{name}" not in lg:
                        diffs.append({"part": k, "log_missing": name})
                    else:
                        got = [x.decode("utf-8", "replace") if isinstance(x, bytes) else x
                               for x in lg[f"src_{name}"][:]]
                        if got != list(ds.logs[name]):
                            bad = [i for i, (a, b) in enumerate(zip(got, ds.logs[name]))
                                   if a != b][:1]
                            diffs.append({"part": k, "log_differs": name,
                                          "lines": [len(got), len(ds.logs[name])],
                                          "first_differing_line": bad,
                                          "got": got[bad[0]][-40:] if bad else None,
                                          "expected": ds.logs[name][bad[0]][-40:] if bad
                                          else None})
    ctx.check("c09.split.partition", not diffs,
              lambda: dict(witness or {}, diffs=diffs[:6], n_diffs=len(diffs)),
              message=f"split: parts do not partition the input: {diffs[:2]}")


def check_join(ctx, paths_in, path_out, witness=None):
    import h5py
    import dclab
    diffs = []
    dss = [dclab.new_dataset(p) for p in paths_in]
    try:
        keys = [parse_datetime(d.config["experiment"]["date"], d.config["experiment"]["time"])
                for d in dss]
        order = sorted(range(len(dss)), key=lambda i: keys[i])   # stable: ties in given order
        ties = len(set(keys)) < len(keys)
        sdss = [dss[i] for i in order]
        t0 = keys[order[0]]
        feats = [f for f in sorted(sdss[0].features_innate)
                 if all(f in d.features for d in sdss[1:])]
        with h5py.File(path_out, "r") as ho:
            ev = ho["events"] if "events" in ho else {}
            got_feats = sorted(f for f in ev if not (f == "trace" and len(ev[f]) == 0))
            if got_feats != sorted(feats):
                diffs.append({"features_out": got_feats, "expected_common": sorted(feats)})
            ntot = sum(len(d) for d in sdss)
            for f in feats:
                if f not in ev:
                    continue
                if f == "index":
                    if not np.array_equal(ev[f][:], np.arange(1, ntot + 1)):
                        diffs.append({"feature": "index", "head": ev[f][:10].tolist()})
                    continue
                if f == "index_online":
                    ctx.count("skipped_index_online_not_in_statement")
                    continue
                if f == "trace":
                    for t in ev[f]:
                        exp = np.concatenate([np.asarray(d["trace"][t][:]) for d in sdss])
                        if not dscmp.arr_equal(ev[f][t][:], exp):
                            diffs.append({"trace": t, "diff": dscmp.first_diff(ev[f][t][:], exp)})
                    continue
                if f == "contour":
                    exp = [np.asarray(d["contour"][i]) for d in sdss for i in range(len(d))]
                    if len(ev[f]) != len(exp) or any(
                            not dscmp.arr_equal(ev[f][str(i)][:], c) for i, c in enumerate(exp)):
                        diffs.append({"feature": "contour"})
                    continue
                parts = []
                for d, i in zip(sdss, order):
                    a = np.asarray(d[f][:])
                    dt = keys[i] - t0
                    if f == "time":
                        a = a + dt
                    elif f == "frame":
                        fr = d.config["imaging"]["frame rate"]
                        a = a.astype(np.uint64) + np.uint64(round(dt * fr))
                    parts.append(a)
                exp = np.concatenate(parts)
                got = ev[f][:]
                if f == "mask":
                    got, exp = got.astype(bool), exp.astype(bool)
                elif got.dtype.kind in "ui" and got.dtype != exp.dtype:
                    if not wmon.representable(exp, got.dtype):
                        ctx.count("skipped_unrepresentable_unsigned_feature")
                        continue
                    exp = exp.astype(got.dtype)
                elif got.dtype.kind == "f" and exp.dtype.kind == "f" and got.dtype != exp.dtype:
                    with np.errstate(all="ignore"):
                        exp = exp.astype(got.dtype)    # stored in the type of the first input
                if f == "time":
                    ok = got.shape == exp.shape and np.allclose(got, exp, rtol=0, atol=1e-6,
                                                                equal_nan=True)
                else:
                    ok = dscmp.arr_equal(got, exp)
                if not ok:
                    diffs.append({"feature": f, "diff": dscmp.first_diff(got, exp)})
            lg = ho["logs"] if "logs" in ho else {}
            for k, d in enumerate(sdss):
                for name in d.logs.keys():
                    oname = f"src-#{k + 1}_{name}"
                    if oname not in lg:
                        diffs.append({"log_missing": oname})
                    else:
                        got = [x.decode("utf-8", "replace") if isinstance(x, bytes) else x
                               for x in lg[oname][:]]
                        if got != list(d.logs[name]):
                            bad = [i for i, (a, b) in enumerate(zip(got, d.logs[name]))
                                   if a != b][:1]
                            diffs.append({"log_differs": oname,
                                          "lines": [len(got), len(d.logs[name])],
                                          "got": got[bad[0]][-40:] if bad else None,
                                          "expected": d.logs[name][bad[0]][-40:] if bad
                                          else None})
    finally:
        for d in dss:
            d.close()
    ctx.check("c09.join.concatenation", not diffs,
              lambda: dict(witness or {}, diffs=diffs[:6], n_diffs=len(diffs), ties=ties,
                           order=order),
              message=f"join: output is not the chronological concatenation: {diffs[:2]}")


def install_split_join(ctx):
    set_ctx(ctx)
    import dclab.cli as cli
    from dclab.cli import task_split, task_join
    from ..contracts import wrap_function
    if getattr(cli, "_vmon_split_join", False):
        return
    cli._vmon_split_join = True

    def mk_split(orig):
        sig = inspect.signature(orig)

        @functools.wraps(orig)
        def split(*a, **kw):
            ctx = _ctx
            ba = sig.bind(*a, **kw)
            ba.apply_defaults()
            p = ba.arguments
            pin = pathlib.Path(p["path_in"]) if p["path_in"] is not None else None
            sha = sha256(pin) if ctx is not None and pin is not None and pin.is_file() else None
            res = orig(*a, **kw)
            if sha is not None:
                try:
                    ctx.check("c09.split.input_unmodified", sha256(pin) == sha,
                              {"input": str(pin)}, message="split modified its input")
                    pout = pin.parent if p["path_out"] in ["SAME", None] \
                        else pathlib.Path(p["path_out"])
                    parts = sorted(pout.glob(f"{pin.stem}_[0-9][0-9][0-9][0-9].rtdc"))
                    if pin.suffix == ".rtdc":
                        check_split(ctx, pin, parts, p["split_events"],
                                    p["skip_initial_empty_image"], p["skip_final_empty_image"],
                                    witness={"input": pin.name, "split_events": p["split_events"]})
                except Exception as exc:
                    ctx.error("cli_tasks.split.post", exc)
            return res
        return split

    def mk_join(orig):
        sig = inspect.signature(orig)

        @functools.wraps(orig)
        def join(*a, **kw):
            ctx = _ctx
            ba = sig.bind(*a, **kw)
            ba.apply_defaults()
            p = ba.arguments
            pins = [pathlib.Path(x) for x in (p["paths_in"] or [])]
            shas = [sha256(x) for x in pins] if ctx is not None else None
            res = orig(*a, **kw)
            if shas is not None and pins:
                try:
                    ctx.check("c09.join.inputs_unmodified",
                              [sha256(x) for x in pins] == shas, {"inputs": [x.name for x in pins]},
                              message="join modified an input")
                    if all(x.suffix == ".rtdc" for x in pins):
                        check_join(ctx, pins, _paths(p["path_out"]),
                                   witness={"inputs": [x.name for x in pins]})
                except Exception as exc:
                    ctx.error("cli_tasks.join.post", exc)
            return res
        return join

    wrap_function(task_split, "split", mk_split)
    wrap_function(task_join, "join", mk_join)
