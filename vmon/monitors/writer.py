"""Context-free contracts on the real RTDCWriter (icontract snapshot + ensure).

They fire in every workload that writes (writer histories, export, join, split, condense,
copy): C01 (stored data == passed data) and C20 (summary attributes == data).
Conditions record into the shard context and always return True.
"""
import numpy as np

_ctx = None
_installed = False


class ContractBroken(Exception):
    pass


def set_ctx(ctx):
    global _ctx
    _ctx = ctx


def _old_len(group, name):
    try:
        return int(group[name].shape[0]) if name in group else 0
    except Exception:
        return -1


def _old_attrs(group, name):
    try:
        if name in group:
            return {k: group[name].attrs[k] for k in ("min", "max", "mean")
                    if k in group[name].attrs}
    except Exception:
        pass
    return None


def _nd_post(group, name, data, dtype, result, OLD):
    ctx = _ctx
    if ctx is None or OLD.old_len < 0:
        return True
    try:
        dset = result
        n = len(data)
        ok_len = dset.shape[0] == OLD.old_len + n
        ctx.check("c01.write_ndarray.length", ok_len,
                  lambda: {"dataset": dset.name, "old": OLD.old_len, "n": n,
                           "new": int(dset.shape[0])},
                  message=f"{dset.name}: length {dset.shape[0]} != {OLD.old_len}+{n}")
        if not ok_len:
            return True
        arr = np.asarray(data)
        stored = dset[OLD.old_len:]
        if dset.dtype.kind in "ui" and not representable(arr, dset.dtype):
            # values that the documented integer type of the feature cannot hold: what is
            # stored is decided by the HDF5 conversion; judged at the export level (C02)
            ctx.count("skipped_unrepresentable_in_integer_dtype")
            return True
        with np.errstate(all="ignore"):
            exp = arr.astype(dset.dtype)
        same = (exp.shape == stored.shape
                and np.array_equal(exp, stored, equal_nan=exp.dtype.kind == "f"))
        ctx.check("c01.write_ndarray.content", bool(same),
                  lambda: {"dataset": dset.name, "old": OLD.old_len, "n": n,
                           "chunks": list(dset.chunks or ()), "dtype": str(dset.dtype),
                           "first_bad": _first_bad(exp, stored)},
                  message=f"{dset.name}: stored rows [{OLD.old_len}:] differ from the data passed")
        if arr.ndim == 1 and dset.dtype.kind in "fiu":
            _summary_post(ctx, dset, arr, OLD)
    except Exception as exc:  # monitor failure must not disturb dclab
        ctx.error("writer._nd_post", exc)
    return True


def representable(arr, dtype):
    """True if every value of arr is exactly representable in the integer dtype."""
    arr = np.asarray(arr)
    info = np.iinfo(dtype)
    if arr.dtype.kind == "b":
        return True
    if arr.dtype.kind in "ui":
        return bool(arr.size == 0 or (int(arr.min()) >= info.min and int(arr.max()) <= info.max))
    if arr.dtype.kind == "f":
        if not np.all(np.isfinite(arr)):
            return False
        with np.errstate(all="ignore"):
            return bool(np.all(arr == np.floor(arr)) and (arr.size == 0 or (
                arr.min() >= info.min and arr.max() <= float(info.max))))
    return False


def hdf5_int_conversion(arr, dtype):
    """Model of the HDF5 library's conversion to an integer type: truncation towards zero
    and clamping to the range of the destination."""
    arr = np.asarray(arr)
    info = np.iinfo(dtype)
    if arr.dtype.kind == "f":
        with np.errstate(all="ignore"):
            t = np.trunc(arr)
            t = np.where(np.isnan(t), 0, t)
            t = np.clip(t, info.min, float(info.max))
            out = np.full(t.shape, info.max, dtype=dtype)
            small = t < float(info.max)
            out[small] = t[small].astype(dtype)
            return out
    lo = np.clip(arr.astype(object), info.min, info.max)
    return np.array(lo, dtype=dtype)


def _first_bad(exp, stored):
    if exp.shape != stored.shape:
        return {"shape_expected": list(exp.shape), "shape_stored": list(stored.shape)}
    with np.errstate(invalid="ignore"):
        ne = ~((exp == stored) | ((exp != exp) & (stored != stored)))
    rows = np.flatnonzero(ne.reshape(len(exp), -1).any(axis=1))
    return {"rows": rows[:10].tolist(), "n_rows": int(len(rows))}


def _summary_post(ctx, dset, arr, OLD):
    """C20: the stored min/max/mean attributes describe the whole dataset after this call."""
    full = dset[:]
    with np.errstate(all="ignore"):
        fin = full[~np.isnan(full)] if full.dtype.kind == "f" else full
        overflow = fin.size and not np.isfinite(np.sum(np.abs(fin.astype(np.float64))))
    for uname, fn in (("min", np.min), ("max", np.max), ("mean", np.mean)):
        if uname not in dset.attrs:
            continue
        got = dset.attrs[uname]
        if fin.size == 0:
            ok = bool(np.isnan(got))
            exp = float("nan")
        else:
            with np.errstate(all="ignore"):
                exp = np.nanmean(full) if uname == "mean" else fn(fin)
            if uname == "mean":
                ok = _close(got, exp)
                if not ok and overflow:
                    # sum of magnitudes exceeds the float64 range: the mean depends on
                    # the summation order; not judged
                    ctx.count("skipped_mean_overflow_regime")
                    continue
            else:
                ok = bool(got == exp) or (np.isnan(got) and np.isnan(exp))
                if not ok and full.dtype.kind == "f" and full.dtype.itemsize < 8:
                    # summary computed from data that are rounded to single precision on
                    # storage: equal within the storage type's rounding
                    with np.errstate(all="ignore"):
                        ok = bool(full.dtype.type(got) == exp)
        finding = None
        if not ok and uname == "mean":
            finding = _d15_model(OLD, arr, got)
        ctx.check(f"c20.write_ndarray.attr_{uname}", ok,
                  lambda: {"dataset": dset.name, "attr": uname, "stored": repr(got),
                           "expected": repr(exp), "old_len": OLD.old_len, "n_new": len(arr),
                           "nan_in_old": None, "nan_in_new": int(np.isnan(
                               arr.astype(float)).sum())},
                  finding=finding,
                  message=f"{dset.name}.attrs[{uname}]={got!r}, data say {exp!r}")


def _close(a, b, rtol=1e-9):
    a, b = float(a), float(b)
    if np.isnan(a) or np.isnan(b):
        return bool(np.isnan(a) and np.isnan(b))
    if np.isinf(a) or np.isinf(b):
        return a == b
    return abs(a - b) <= rtol * max(abs(a), abs(b)) + 1e-300


def _d15_model(OLD, arr, got):
    """Defect model D15: running mean weighted by sizes including NaN."""
    try:
        if OLD.old_attrs is None or "mean" not in OLD.old_attrs:
            return None
        with np.errstate(all="ignore"):
            mean_b = np.nanmean(arr)
        pred = (OLD.old_attrs["mean"] * OLD.old_len + mean_b * arr.size) / (OLD.old_len + arr.size)
        if _close(pred, got, 1e-12):
            return "append-mean-weighted-by-size-with-nan"
    except Exception:
        pass
    return None


def _text_old(group, name):
    try:
        return int(group[name].shape[0]) if name in group else 0
    except Exception:
        return -1


def _text_post(self, group, name, lines, OLD):
    ctx = _ctx
    if ctx is None or OLD.old_lines < 0:
        return True
    try:
        if isinstance(lines, (str, bytes)):
            lines = [lines]
        old = 0 if self.mode == "replace" else OLD.old_lines
        dset = group[name]
        ok_len = dset.shape[0] == old + len(lines)
        ctx.check("c01.write_text.length", ok_len,
                  lambda: {"dataset": dset.name, "old": old, "n": len(lines),
                           "new": int(dset.shape[0])},
                  message=f"{dset.name}: {dset.shape[0]} lines != {old}+{len(lines)}")
        if not ok_len:
            return True
        stored = dset[old:]
        bad = None
        for i, ln in enumerate(lines):
            exp = ln if isinstance(ln, bytes) else ln.encode("utf-8")
            got = stored[i]
            if isinstance(got, str):
                got = got.encode("utf-8")
            if bytes(got) != exp.rstrip(b"\x00"):
                bad = {"line": i, "expected_len": len(exp), "stored_len": len(bytes(got)),
                       "width": dset.dtype.itemsize}
                break
        finding = None
        if bad and old > 0 and bad["expected_len"] > bad["width"] \
                and bad["stored_len"] <= bad["width"]:
            finding = "log-append-wider-than-frozen-width"
        ctx.check("c01.write_text.content", bad is None,
                  lambda: dict(bad, dataset=dset.name, old=old), finding=finding,
                  message=f"{dset.name}: stored text line differs from the line passed: {bad}")
    except Exception as exc:
        ctx.error("writer._text_post", exc)
    return True


def _ragged_old(group, name):
    try:
        return len(group[name]) if name in group else 0
    except Exception:
        return -1


def _ragged_post(group, name, data, OLD):
    ctx = _ctx
    if ctx is None or OLD.old_count < 0:
        return True
    try:
        if isinstance(data, np.ndarray) and data.ndim == 2:
            data = [data]
        grp = group[name]
        n = len(data)
        ok = len(grp) == OLD.old_count + n
        ctx.check("c01.write_ragged.count", ok,
                  lambda: {"group": grp.name, "old": OLD.old_count, "n": n, "new": len(grp)},
                  message=f"{grp.name}: {len(grp)} entries != {OLD.old_count}+{n}")
        if ok:
            bad = None
            for i, cc in enumerate(data):
                key = str(OLD.old_count + i)
                if key not in grp or not np.array_equal(grp[key][:], np.asarray(cc)):
                    bad = {"entry": key}
                    break
            ctx.check("c01.write_ragged.content", bad is None,
                      lambda: dict(bad, group=grp.name, old=OLD.old_count),
                      message=f"{grp.name}: entry {bad} differs from the data passed")
    except Exception as exc:
        ctx.error("writer._ragged_post", exc)
    return True


def install(ctx):
    """Idempotent; binds the monitors to ctx."""
    global _installed
    set_ctx(ctx)
    if _installed:
        return
    _installed = True
    import icontract
    from dclab.rtdc_dataset import writer
    W = writer.RTDCWriter

    f = W.write_ndarray
    f = icontract.ensure(_nd_post, error=ContractBroken)(f)
    f = icontract.snapshot(_old_attrs, name="old_attrs")(f)
    f = icontract.snapshot(_old_len, name="old_len")(f)
    W.write_ndarray = f

    f = W.write_text
    f = icontract.ensure(_text_post, error=ContractBroken)(f)
    f = icontract.snapshot(_text_old, name="old_lines")(f)
    W.write_text = f

    f = W.write_ragged
    f = icontract.ensure(_ragged_post, error=ContractBroken)(f)
    f = icontract.snapshot(_ragged_old, name="old_count")(f)
    W.write_ragged = f
