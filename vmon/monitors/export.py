"""Contract on the real Export.hdf5 / Export.tsv (snapshot of the selection at call time,
post-condition on the written file). Installed by C02 and by every workload that exports
(split, join, tdms2rtdc)."""
import re

import numpy as np

from ..model import dscmp
from . import writer as wmon

_ctx = None
_installed = False
UINT32 = {"fl1_max", "fl1_npeaks", "fl2_max", "fl2_npeaks", "fl3_max", "fl3_npeaks", "index",
          "ml_class", "nevents"}
UINT64 = {"frame"}


def set_ctx(ctx):
    global _ctx
    _ctx = ctx


def _repr_mask(e, dtype):
    info = np.iinfo(dtype)
    e = np.asarray(e)
    with np.errstate(all="ignore"):
        if e.dtype.kind == "f":
            return np.isfinite(e) & (e == np.floor(e)) & (e >= 0) & (e <= float(info.max))
        return (e >= 0) & (e <= info.max)


def feature_len(ds, feat):
    if feat == "trace":
        return min(len(ds["trace"][t]) for t in ds["trace"].keys())
    return len(ds[feat])


def expected_feature(ds, feat, idx):
    """source[feat] restricted to idx, using plain integer access for non-scalars."""
    import dclab.definitions as dfn
    if feat == "index":
        return np.arange(1, len(idx) + 1)
    if dfn.scalar_feature_exists(feat):
        return np.asarray(ds[feat][:])[idx]
    if feat == "trace":
        return {t: (np.stack([np.asarray(ds["trace"][t][int(i)]) for i in idx])
                    if len(idx) else np.zeros((0, 0)))
                for t in ds["trace"].keys()}
    if feat == "contour":
        return [np.asarray(ds["contour"][int(i)]) for i in idx]
    return np.stack([np.asarray(ds[feat][int(i)]) for i in idx]) if len(idx) else None


def _root_view(ds):
    """For a hierarchy member: (root dataset, root index of every member event), composed from
    the observable filter arrays of the ancestors; None when the chain is not current."""
    chain = []
    d = ds
    while d.format == "hierarchy":
        chain.append(d.hparent)
        d = d.hparent
    idx = np.arange(len(d))
    for parent in reversed(chain):
        idx = idx[np.flatnonzero(np.asarray(parent.filter.all))]
    if len(idx) != len(ds):
        return None
    return d, idx


def snapshot_hdf5(exp, features, filtered, skip_checks):
    ds = exp.rtdc_ds
    n = len(ds)
    feats = sorted(set(ds.features_innate if features is None else features))
    mask = np.array(ds.filter.all, dtype=bool, copy=True) if filtered else np.ones(n, bool)
    if feats and not skip_checks:
        lens = [feature_len(ds, f) for f in feats]
        if min(lens) != max(lens):
            mask[min(lens):] = False
    idx = np.flatnonzero(mask)
    snap = {"features": feats, "idx": idx, "n_src": n, "expected": {}, "errors": {}}
    rv = None
    if getattr(ds, "format", None) == "hierarchy":
        try:
            rv = _root_view(ds)
        except Exception:
            rv = None
    import dclab.definitions as dfn_
    for f in feats:
        try:
            if rv is not None and f != "index" and f in rv[0].features_innate:
                # provenance: the data of a hierarchy member are the root's data at the
                # composed root indices (independent of the member's own mapping and of
                # whatever the member's feature objects have cached)
                snap["expected"][f] = expected_feature(rv[0], f, rv[1][idx])
            else:
                snap["expected"][f] = expected_feature(ds, f, idx)
        except Exception as exc:
            snap["errors"][f] = repr(exc)
    cfg = {}
    for sec in ds.config.keys():
        cfg[sec] = dict(ds.config[sec])
    snap["config"] = cfg
    snap["logs"] = {k: list(ds.logs[k]) for k in ds.logs.keys()}
    snap["tables"] = {k: (np.array(ds.tables[k][:]), dict(getattr(ds.tables[k], "attrs", {})))
                      for k in ds.tables.keys()}
    snap["format"] = ds.format
    snap["measurement_id"] = ds.get_measurement_identifier()
    return snap


def check_hdf5(ctx, path, snap, filtered, logs, tables, meta_prefix, desc):
    import h5py
    import dclab
    import dclab.definitions as dfn
    idx = snap["idx"]
    n = len(idx)
    wit = lambda **kw: dict(kw, export=desc)  # noqa: E731
    unrepresentable = set()
    with h5py.File(path, "r") as h5:
        ev = h5["events"] if "events" in h5 else {}
        for f in snap["features"]:
            finding = None
            if f in snap["errors"]:
                ctx.count("skipped_source_feature_unreadable")
                continue
            exp = snap["expected"][f]
            if n == 0:
                # empty selection: "feature absent" and "feature of length 0" both accepted
                ok = f not in ev or (len(ev[f]) == 0)
                ctx.check("c02.hdf5.empty_selection", ok, lambda: wit(feature=f),
                          message=f"empty selection but feature {f} holds data")
                continue
            d = None
            if f not in ev:
                d = {"absent": True}
            elif f == "trace":
                if sorted(ev[f]) != sorted(exp):
                    d = {"traces": sorted(ev[f]), "expected": sorted(exp)}
                else:
                    for t in exp:
                        if not dscmp.arr_equal(ev[f][t][:], exp[t]):
                            d = {"trace": t, "diff": dscmp.first_diff(ev[f][t][:], exp[t])}
                            break
            elif f == "contour":
                if len(ev[f]) != n:
                    d = {"count": len(ev[f]), "expected": n}
                else:
                    for i, c in enumerate(exp):
                        if not dscmp.arr_equal(ev[f][str(i)][:], c):
                            d = {"contour": i}
                            break
            else:
                got = ev[f][:]
                e = np.asarray(exp)
                if f == "mask":
                    got, e = got.astype(bool), e.astype(bool)
                finding = None
                if (f in UINT32 or f in UINT64) and got.dtype.kind in "ui" \
                        and not wmon.representable(e, got.dtype):
                    # the source holds values the documented unsigned type cannot hold:
                    # "unchanged values" is impossible; defect model = HDF5 clamps/truncates
                    unrepresentable.add(f)
                    if dscmp.arr_equal(got, wmon.hdf5_int_conversion(e, got.dtype)):
                        finding = "unsigned-integer-feature-clamps-source-values"
                    d = {"source_values_not_representable_in": str(got.dtype),
                         "example": repr(e[~_repr_mask(e, got.dtype)][:3])}
                elif f in UINT32 or f in UINT64:
                    e = e.astype(got.dtype)
                if d is None and not dscmp.arr_equal(got, e):
                    d = dscmp.first_diff(got, e)
            ctx.check("c02.hdf5.feature", d is None,
                      lambda: wit(feature=f, diff=d, n_selected=n), finding=finding,
                      message=f"exported feature {f} != source[{f}][flatnonzero(filter)]: {d}")
        extra = sorted(k for k in ev if k not in snap["features"] and not k.startswith("basinmap")
                       and not (k == "trace" and len(ev[k]) == 0))
        ctx.check("c02.hdf5.no_extra_features", not extra, lambda: wit(extra=extra),
                  message=f"features nobody requested were exported: {extra}")
        attrs = {k: (v.decode() if isinstance(v, bytes) else v) for k, v in h5.attrs.items()}
        if n and snap["features"] and not snap["errors"]:
            ctx.check("c02.hdf5.event_count", attrs.get("experiment:event count") == n,
                      lambda: wit(event_count=repr(attrs.get("experiment:event count")), n=n),
                      message=f"event count {attrs.get('experiment:event count')} != {n} selected")
        # metadata carried over
        cfg = snap["config"]
        bad = []
        for sec in list(dfn.CFG_METADATA) + ["user"]:
            if sec == "fmt_tdms":
                continue  # documented: the tdms-specific section is never written
            for k, v in cfg.get(sec, {}).items():
                key = f"{sec}:{k}"
                if key in ("experiment:event count", "setup:software version",
                           "imaging:roi size x", "imaging:roi size y",
                           "fluorescence:samples per event"):
                    continue
                if key == "experiment:run identifier" and filtered:
                    continue
                if key not in attrs:
                    bad.append({"key": key, "exported": "<absent>", "source": repr(v)})
                elif not dscmp.cfg_value_equal(attrs[key], v):
                    bad.append({"key": key, "exported": repr(attrs[key]), "source": repr(v)})
        ctx.check("c02.hdf5.metadata", not bad, lambda: wit(diffs=bad[:6]),
                  message=f"measurement metadata not carried over: {bad[:3]}")
        if filtered:
            rid = attrs.get("experiment:run identifier")
            src = snap["measurement_id"]
            if src is None:
                # nothing to derive an identifier from: not judged
                ctx.count("skipped_run_identifier_source_has_none")
            else:
                ok = isinstance(rid, str) and bool(re.fullmatch(r".+-[0-9a-f]{4}", rid)) \
                    and rid[:-5] == src
                ctx.check("c02.hdf5.run_identifier", ok, lambda: wit(exported=rid, source=src),
                          message=f"run identifier of filtered export {rid!r} (source {src!r})")
        lg = h5["logs"] if "logs" in h5 else {}
        if logs:
            bad = []
            for name, lines in snap["logs"].items():
                oname = f"{meta_prefix}{name}"
                if oname not in lg:
                    bad.append({"log": oname, "absent": True})
                    continue
                got = [x.decode("utf-8", "replace") if isinstance(x, bytes) else x
                       for x in lg[oname][:]]
                if got != lines:
                    bad.append({"log": oname, "got": got[:3], "expected": lines[:3]})
            ctx.check("c02.hdf5.logs", not bad, lambda: wit(diffs=bad[:4]),
                      message=f"logs not carried over: {bad[:2]}")
        tb = h5["tables"] if "tables" in h5 else {}
        if tables:
            bad = []
            for name, (arr, tattrs) in snap["tables"].items():
                oname = f"{meta_prefix}{name}"
                if oname not in tb:
                    bad.append({"table": oname, "absent": True})
                    continue
                d = dscmp.table_equal(tb[oname], arr)
                if d:
                    bad.append({"table": oname, "diff": d})
            ctx.check("c02.hdf5.tables", not bad, lambda: wit(diffs=bad[:4]),
                      message=f"tables not carried over: {bad[:2]}")
    # through dclab as well
    if n and snap["features"] and not snap["errors"]:
        try:
            with dclab.new_dataset(path) as out:
                d = None
                if len(out) != n:
                    d = {"len": len(out), "expected": n}
                else:
                    for f in snap["features"]:
                        if f in ("index",) or f in unrepresentable:
                            continue
                        exp = snap["expected"][f]
                        if f in UINT32 or f in UINT64:
                            with np.errstate(all="ignore"):
                                exp = np.asarray(exp).astype(
                                    np.uint32 if f in UINT32 else np.uint64)
                        dd = dscmp.feature_equal(out[f], exp, f)
                        if dd:
                            d = {"feature": f, "diff": dd}
                            break
                    if d is None and not np.array_equal(out["index"][:], np.arange(1, n + 1)):
                        d = {"index": out["index"][:10]}
        except Exception as exc:
            d = {"exception": repr(exc)}
        ctx.check("c02.hdf5.reopen_dclab", d is None, lambda: wit(diff=d),
                  message=f"exported file re-opened with dclab differs: {d}")


def tsv_tolerance(x):
    ax = np.abs(x)
    with np.errstate(all="ignore"):
        e = np.where(ax > 0, np.floor(np.log10(np.where(ax > 0, ax, 1.0))), 0.0)
    # half a unit of the last printed digit, plus the representation error of the two
    # doubles involved (an exact tie, e.g. ...238995 printed as ...23900, is legitimate)
    return 0.5000001e-10 * 10.0 ** e + 4 * np.spacing(ax)


def check_tsv(ctx, path, ds_feats, expected, desc):
    wit = lambda **kw: dict(kw, export=desc)  # noqa: E731
    with open(path, "rb") as fd:
        raw = fd.read()
    text = raw.decode("utf-8-sig")
    lines = text.split("\n")
    comment = [ln for ln in lines if ln.startswith("#")]
    data_lines = [ln for ln in lines if ln and not ln.startswith("#")]
    header = comment[-2][2:].split("\t") if len(comment) >= 2 else None
    ctx.check("c02.tsv.header", header == ds_feats, lambda: wit(header=header, expected=ds_feats),
              message=f"tsv header {header} != {ds_feats}")
    n = len(expected[0]) if expected else 0
    rows = [ln.split("\t") for ln in data_lines]
    ok_shape = len(rows) == n and all(len(r) == len(ds_feats) for r in rows)
    ctx.check("c02.tsv.shape", ok_shape, lambda: wit(rows=len(rows), expected=n),
              message=f"tsv holds {len(rows)} rows, {n} events selected")
    if not ok_shape or n == 0:
        return
    got = np.array([[float(x) for x in r] for r in rows]).T
    for j, f in enumerate(ds_feats):
        e = np.asarray(expected[j], dtype=float)
        g = got[j]
        with np.errstate(all="ignore"):
            # |x| within 1e-10 of the largest double prints as a number that parses to inf
            edge = (np.abs(e) > 1.797693134e308) & np.isinf(g) & (np.sign(g) == np.sign(e))
            ok = np.where(np.isnan(e), np.isnan(g),
                          np.where(np.isinf(e), g == e,
                                   edge | (np.abs(g - e) <= tsv_tolerance(e))))
        ctx.check("c02.tsv.values", bool(np.all(ok)),
                  lambda: wit(feature=f, first_bad=int(np.flatnonzero(~ok)[0]),
                              got=repr(g[~ok][0]), expected=repr(e[~ok][0])),
                  message=f"tsv column {f} differs beyond the written precision")


def install(ctx):
    global _installed
    set_ctx(ctx)
    if _installed:
        return
    _installed = True
    import functools
    import inspect
    import pathlib
    from dclab.rtdc_dataset import export
    from ..contracts import wrap_method

    def mk_hdf5(orig):
        sig = inspect.signature(orig)

        @functools.wraps(orig)
        def hdf5(self, *a, **kw):
            ctx = _ctx
            ba = sig.bind(self, *a, **kw)
            ba.apply_defaults()
            p = ba.arguments
            snap = None
            if ctx is not None:
                try:
                    snap = snapshot_hdf5(self, p["features"], p["filtered"], p["skip_checks"])
                except Exception as exc:
                    ctx.error("export.snapshot_hdf5", exc)
            res = orig(self, *a, **kw)
            if snap is not None:
                try:
                    path = pathlib.Path(p["path"])
                    if path.suffix not in [".rtdc", ".rtdc~"]:
                        path = path.parent / (path.name + ".rtdc")
                    desc = {"source_format": snap["format"], "n_source": snap["n_src"],
                            "n_selected": int(len(snap["idx"])), "features": snap["features"],
                            "filtered": p["filtered"], "logs": p["logs"],
                            "tables": p["tables"], "basins": p["basins"]}
                    check_hdf5(ctx, path, snap, p["filtered"], p["logs"], p["tables"],
                               p["meta_prefix"], desc)
                    # exporting is a read-only operation on the source: its metadata afterwards
                    # are what they were before (a second export must carry the same values)
                    ds_ = self.rtdc_ds
                    changed = []
                    for sec, before in snap["config"].items():
                        if sec == "filtering":
                            continue
                        after = dict(ds_.config[sec]) if sec in ds_.config else {}
                        for k in set(before) | set(after):
                            if k not in before or k not in after \
                                    or not dscmp.cfg_value_equal(before[k], after[k]):
                                changed.append([sec, k, repr(before.get(k, "<absent>"))[:60],
                                                repr(after.get(k, "<absent>"))[:60]])
                    ctx.check("c02.hdf5.source_metadata_unchanged", not changed,
                              lambda: dict(desc, changed=changed[:6]),
                              message=f"export.hdf5 changed the metadata of the source "
                                      f"dataset: {changed[:3]}")
                except Exception as exc:
                    ctx.error("export.check_hdf5", exc)
            return res
        return hdf5

    def mk_tsv(orig):
        sig = inspect.signature(orig)

        @functools.wraps(orig)
        def tsv(self, *a, **kw):
            ctx = _ctx
            ba = sig.bind(self, *a, **kw)
            ba.apply_defaults()
            p = ba.arguments
            pre = None
            if ctx is not None:
                try:
                    ds = self.rtdc_ds
                    feats = sorted(set(c.lower() for c in p["features"]))
                    mask = np.array(ds.filter.all, copy=True) if p["filtered"] \
                        else np.ones(len(ds), bool)
                    pre = (feats, [np.asarray(ds[c][:])[mask] for c in feats], int(mask.sum()))
                except Exception as exc:
                    pre = None
                    ctx.count("skipped_tsv_snapshot_failed")
            res = orig(self, *a, **kw)
            if pre is not None:
                try:
                    path = pathlib.Path(p["path"])
                    if path.suffix != ".tsv":
                        path = path.with_name(path.name + ".tsv")
                    check_tsv(ctx, path, pre[0], pre[1],
                              {"features": pre[0], "filtered": p["filtered"],
                               "n_selected": pre[2], "source_format": self.rtdc_ds.format})
                except Exception as exc:
                    ctx.error("export.check_tsv", exc)
            return res
        return tsv

    wrap_method(export.Export, "hdf5", mk_hdf5)
    wrap_method(export.Export, "tsv", mk_tsv)
