"""Subprocess entry point: run one shard of one property's workload.

usage: python -m vmon.shard <PROP> <spec.json> <out.json>
"""
import faulthandler
import importlib
import json
import os
import sys


def main():
    prop, specfile, outfile = sys.argv[1:4]
    faulthandler.enable()
    with open(specfile) as fd:
        spec = json.load(fd)
    from vmon import boot
    from vmon.ctx import ShardCtx
    ctx = ShardCtx(prop, spec)
    drv = importlib.import_module(f"vmon.work.{prop.lower()}")
    if getattr(drv, "NEEDS_DCLAB", True):
        boot.boot()
    try:
        drv.run(spec, ctx)
        fatal = None
    except BaseException as exc:  # harness failure or unexpected escape
        ctx.error("run", exc)
        fatal = repr(exc)
    res = ctx.result()
    res["fatal"] = fatal
    tmp = outfile + ".tmp"
    with open(tmp, "w") as fd:
        json.dump(res, fd)
    os.replace(tmp, outfile)


if __name__ == "__main__":
    main()
