"""C14 - basins are only followed when matching, acyclic and permitted.

Monitors
* event log from wrappers on h5py.File.__init__ (every dataset open with its path) and on
  RTDCBase.basins_retrieve, per session;
* provenance-tagged features (file j stores userdef<j> = 1000*j + event), so data obtained
  through a basin identify the file they came from;
* oracle: a small executable model of basin resolution over the generated graph (identifier
  rule per edge: equal, or prefix for mapped basins; definitions inherited from ancestors are
  not followed again; dangling locations are skipped) predicts exactly which files' features
  are offered and bounds the number of dataset opens (termination restated as bounded
  progress in logical steps; a wall-clock watchdog firing is inconclusive, not a violation);
* remote sessions: files served by the loopback range server and opened as RTDC_HTTP must
  never open canary files on the local file system, directly or behind an http basin.
"""
import itertools
import shutil

import numpy as np

PROP = "C14"
LEVEL = "exploration"
RULE = ("graph case = directed graph of basin references over 1-6 files (all digraphs with "
        "self-loops on <=3 files exhaustively in the thorough tier; chains, diamonds, k-cycles, "
        "random graphs otherwise) x identifier assignment per file (equal, prefix, unrelated, "
        "missing) x mapped/unmapped edges x absolute/relative/dangling locations; remote case = "
        "served file with file-type and http-type basins opened through RTDC_HTTP. Non-trivial = "
        "graph with a cycle or with >=1 non-matching edge, or a remote case; distinct by hash of "
        "(edges, identifiers, flags)")
LEVEL_TEXT = ("Held on the observed executions: for every generated basin graph exactly the files "
              "reachable through matching, non-repeated basin definitions contribute features "
              "(with correctly tagged data), everything else is absent (KeyError), the number of "
              "dataset opens stays within the model's bound (so resolution terminates), and remote "
              "sessions never open local canary files. Exploration; exhaustive for <=3 files in "
              "the thorough tier.")
LEVEL_NOTE = ("trusted: the resolution model (documented rules), loopback HTTP server, wrapper on "
              "h5py.File as the observation of file opens. A referrer without identifier performs "
              "no check by documented design (modelled as matching). 'Always terminates' is "
              "decided as bounded progress, an unbounded eventually cannot be decided by a run")
TECHNIQUE = ("runtime monitoring: recorded open/resolve event log + provenance-tagged data checked "
             "against an executable graph-resolution model; canary files for the isolation claim")
ASSUMPTIONS = ["basin definitions are unique per edge (distinct names), so inherited-definition "
               "skipping only affects true cycles"]
MIN_EVALS = {"c14.offered_iff_model": 1000, "c14.open_bound": 300, "c14.remote_isolation": 8, "c14.unreachable_not_offered": 8}
WATCHDOG_S = {"quick": 400, "thorough": 3000}
# (identifiers are compared as they are: "ida" is another measurement than "idA")
IDS = ["idA", "idA-sub", "idB", None, "ida", "IDA-sub"]


def plan(tier, seed):
    n = 400 if tier == "quick" else 6000
    k = 14
    per = n // k
    sh = [{"kind": "graph", "cases": {"start": i * per, "stop": (i + 1) * per}}
          for i in range(k)]
    if tier == "thorough":
        # all digraphs (with self loops) on 1..3 nodes: 2 + 16 + 512
        tot = 2 + 16 + 512
        per = -(-tot // 8)
        sh += [{"kind": "exhaustive", "cases": {"start": i * per, "stop": min(tot, (i + 1) * per)}}
               for i in range(8)]
    nrep = 48 if tier == "quick" else 960
    sh += [{"kind": "replace", "cases": {"start": i * nrep // 4, "stop": (i + 1) * nrep // 4}}
           for i in range(4)]
    nrem = 16 if tier == "quick" else 160
    sh += [{"kind": "remote", "cases": {"start": i * nrem // 2, "stop": (i + 1) * nrem // 2}}
           for i in range(2)]
    return sh


def exhaustive(tier):
    return False


# ------------------------------------------------------------------------------- model
def edge_matches(id_ref, id_bn, mapped):
    if id_ref is None:
        return True          # documented: no identifier, no check
    if id_bn is None:
        return False
    if mapped:
        return id_ref.startswith(id_bn)
    return id_ref == id_bn


def resolve_model(k, edges, ids, root=0):
    """edges: list of dicts {src, dst, mapped, dangling}. Returns (offered set of file
    indices whose features can be obtained from root, number of basin dataset loads)."""
    offered = set()
    loads = [0]

    def visit(node, inherited):
        own = {i for i, e in enumerate(edges) if e["src"] == node}
        for i in sorted(own):
            e = edges[i]
            if i in inherited:
                continue               # definition of an ancestor: not followed again
            if e["dangling"]:
                continue
            loads[0] += 1              # the basin dataset is opened to verify its identifier
            if not edge_matches(ids[node], ids[e["dst"]], e["mapped"]):
                continue
            offered.add(e["dst"])
            visit(e["dst"], inherited | own)
    visit(root, set())
    return offered, loads[0]


# ----------------------------------------------------------------------------- monitors
class Rec:
    ctx = None
    opens = []
    installed = False


def install(ctx):
    Rec.ctx = ctx
    if Rec.installed:
        return
    Rec.installed = True
    import functools
    import h5py
    orig = h5py.File.__init__

    @functools.wraps(orig)
    def init(self, name, *a, **kw):
        try:
            Rec.opens.append(str(name) if isinstance(name, (str, bytes)) or hasattr(
                name, "__fspath__") else f"<{type(name).__name__}>")
        except Exception:
            pass
        return orig(self, name, *a, **kw)
    h5py.File.__init__ = init


# ------------------------------------------------------------------------------- cases
def write_file(path, j, n, ident, out_edges, paths, rng, link=False):
    """link=True: a pure link file - metadata and basin definitions, no features of its own
    and no event count (what the writer produces when only store_metadata / store_basin are
    called)."""
    import dclab
    from vmon.gen import dataset as gd
    meta = gd.complete_meta(rng, {}, n)
    if link:
        meta["experiment"].pop("event count", None)
    meta["experiment"].pop("run identifier", None)
    meta["setup"].pop("identifier", None)    # no derived identifier either
    if ident is not None:
        meta["experiment"]["run identifier"] = ident
    with dclab.RTDCWriter(path, mode="reset") as hw:
        hw.store_metadata(meta)
        if not link:
            hw.store_feature(f"userdef{j}", 1000.0 * j + np.arange(n))
            hw.store_feature("deform", j + np.arange(n) / 100)
        for e in out_edges:
            loc = paths[e["dst"]]
            if e["dangling"]:
                locs = [str(loc.parent / f"missing_{e['dst']}.rtdc")]
            elif e["relative"]:
                # relative to the referrer's directory (files may sit in different
                # directories); sometimes behind an absolute location that no longer exists,
                # as after moving the whole directory tree
                import os as _os
                rel = _os.path.relpath(loc, path.parent)
                locs = [rel] if j % 2 else [str(loc.parent / "moved_away" / loc.name), rel]
            else:
                locs = [str(loc)]
            hw.store_basin(basin_name=f"edge {e['src']}->{e['dst']} #{e['n']}",
                           basin_type="file", basin_format="hdf5", basin_locs=locs,
                           basin_map=np.arange(n, dtype=np.uint64) if e["mapped"] else None,
                           verify=False)


def gen_graph(rng, idx):
    r = rng.random()
    k = int(rng.integers(1, 7))
    pairs = set()
    if r < 0.2 and k >= 2:          # k-cycle
        pairs = {(i, (i + 1) % k) for i in range(k)}
    elif r < 0.35 and k >= 4:       # diamond
        pairs = {(0, 1), (0, 2), (1, 3), (2, 3)}
        if rng.random() < 0.5:
            pairs.add((3, 0))
    elif r < 0.5:                   # chain
        pairs = {(i, i + 1) for i in range(k - 1)}
        if rng.random() < 0.3 and k >= 2:
            pairs.add((k - 1, int(rng.integers(0, k))))
    else:
        p = rng.uniform(0.1, 0.6)
        pairs = {(i, j) for i in range(k) for j in range(k) if rng.random() < p}
    return k, sorted(pairs)


def decorate(rng, k, pairs, uniform_ids=None):
    edges = []
    for n_, (i, j) in enumerate(pairs):
        edges.append({"src": i, "dst": j, "mapped": bool(rng.random() < 0.35),
                      "dangling": bool(rng.random() < 0.08),
                      "relative": bool(rng.random() < 0.3), "n": n_})
    if uniform_ids is not None:
        ids = list(uniform_ids)
    else:
        mode = rng.random()
        if mode < 0.35:
            ids = ["idA"] * k
        else:
            ids = [IDS[int(rng.choice(6, p=[.4, .2, .15, .1, .1, .05]))] for _ in range(k)]
    return edges, ids


def run_graph(ctx, idx, rng, tmp, k, pairs, edges, ids):
    import warnings
    import dclab
    n = int(rng.integers(2, 8))
    paths = [tmp / f"f{j}.rtdc" for j in range(k)]
    if idx % 3 == 1:
        # the files of the graph are spread over several directories
        for sub in ("a", "b/c"):
            (tmp / sub).mkdir(parents=True, exist_ok=True)
        paths = [tmp / ["", "a", "b/c"][int(rng.integers(0, 3))] / f"f{j}.rtdc" for j in range(k)]
        ctx.count("graphs_over_several_directories")
    # every fifth generated graph contains pure link files (never the root)
    links = set()
    if idx % 5 == 3 and k >= 2:
        links = {j for j in range(1, k) if rng.random() < 0.5} or {k - 1}
        ctx.count("graphs_with_link_files")
    for j in range(k):
        write_file(paths[j], j, n, ids[j], [e for e in edges if e["src"] == j], paths, rng,
                   link=j in links)
    offered, loads = resolve_model(k, edges, ids)
    case = {"files": k, "edges": [(e["src"], e["dst"], "mapped" if e["mapped"] else "same",
                                   "dangling" if e["dangling"] else
                                   ("rel" if e["relative"] else "abs")) for e in edges],
            "ids": ids, "link_files": sorted(links)}
    Rec.opens.clear()
    with warnings.catch_warnings():
        warnings.simplefilter("ignore")
        ds = dclab.new_dataset(paths[0])
        try:
            feats_basin = list(ds.features_basin)
            for j in range(k):
                f = f"userdef{j}"
                exp_off = ((j in offered) or j == 0) and j not in links
                got_off = f in ds
                ctx.check("c14.offered_iff_model", got_off == exp_off,
                          lambda: dict(case, feature=f, offered=got_off, model=exp_off,
                                       features_basin=feats_basin),
                          message=f"{f} offered={got_off}, resolution model says {exp_off}")
                if got_off:
                    try:
                        val = np.asarray(ds[f][:])
                        ok = np.array_equal(val, 1000.0 * j + np.arange(n))
                    except Exception as exc:
                        val, ok = repr(exc), False
                    ctx.check("c14.data_provenance", ok,
                              lambda: dict(case, feature=f, got=val),
                              message=f"{f} offered but data are not those of file {j}")
                else:
                    try:
                        ds[f]
                        raised = False
                    except KeyError:
                        raised = True
                    except Exception as exc:
                        raised = repr(exc)
                    ctx.check("c14.absent_raises_keyerror", raised is True,
                              lambda: dict(case, feature=f, raised=raised),
                              message=f"unavailable {f}: expected KeyError, got {raised}")
            # own feature takes precedence whatever the basins hold
            own = np.asarray(ds["deform"][:])
            ctx.check("c14.data_provenance", np.array_equal(own, np.arange(n) / 100),
                      lambda: dict(case, feature="deform", got=own),
                      message="root's own 'deform' replaced by basin data")
        finally:
            ds.close()
    # only opens by path count (h5py also instantiates File objects from open ids)
    nopen = len([o for o in Rec.opens if not o.startswith("<")])
    bound = 2 * loads + 2
    ctx.check("c14.open_bound", nopen <= bound,
              lambda: dict(case, opens=nopen, model_loads=loads, bound=bound),
              message=f"{nopen} dataset opens for a graph whose model needs {loads} basin loads")
    ctx.count("dataset_opens", nopen)
    ctx.count("model_basin_loads", loads)
    has_cycle = any(e["src"] == e["dst"] for e in edges) or _cyclic(k, pairs)
    mismatch = any(not edge_matches(ids[e["src"]], ids[e["dst"]], e["mapped"]) for e in edges)
    if has_cycle:
        ctx.count("graphs_with_cycle")
    if mismatch:
        ctx.count("graphs_with_nonmatching_edge")
    return case, has_cycle or mismatch


def _cyclic(k, pairs):
    adj = {i: [j for a, j in pairs if a == i] for i in range(k)}
    color = {}

    def dfs(u):
        color[u] = 1
        for v in adj[u]:
            if color.get(v) == 1 or (v not in color and dfs(v)):
                return True
        color[u] = 2
        return False
    return any(dfs(u) for u in range(k) if u not in color)


def nth_digraph(idx):
    """Enumerate all digraphs with self loops on 1, 2, 3 nodes."""
    for k in (1, 2, 3):
        cnt = 2 ** (k * k)
        if idx < cnt:
            cells = [(i, j) for i in range(k) for j in range(k)]
            return k, [c for b, c in enumerate(cells) if idx >> b & 1]
        idx -= cnt
    raise IndexError


def run_remote(ctx, idx, rng, tmp):
    import warnings
    import dclab
    from dclab.rtdc_dataset import fmt_http
    from vmon.gen import dataset as gd
    from vmon.httpsrv import RangeServer, FakeEndpoint, relax_timeouts, is_transport_timeout
    relax_timeouts()
    n = int(rng.integers(2, 8))
    # mostly the socket-free transport; every fourth case goes over real loopback sockets
    real_sockets = idx % 4 == 0
    srv = RangeServer() if real_sockets else FakeEndpoint()
    try:
        def mk(path, j, basins):
            meta = gd.complete_meta(rng, {}, n)
            meta["experiment"]["run identifier"] = "idR"
            with dclab.RTDCWriter(path, mode="reset") as hw:
                hw.store_metadata(meta)
                hw.store_feature(f"userdef{j}", 1000.0 * j + np.arange(n))
                hw.store_feature("deform", j + np.arange(n) / 100)
                for b in basins:
                    hw.store_basin(verify=False, **b)
        canary1, canary2 = tmp / "canary1.rtdc", tmp / "canary2.rtdc"
        mk(canary1, 8, [])
        mk(canary2, 9, [])
        nested = bool(rng.random() < 0.6)
        r1 = tmp / "r1.rtdc"
        mk(r1, 1, [{"basin_name": "local from nested", "basin_type": "file",
                    "basin_format": "hdf5", "basin_locs": [str(canary2)]}])
        url1 = srv.put("/bucket/r1.rtdc", r1.read_bytes())
        b0 = [{"basin_name": "local", "basin_type": "file", "basin_format": "hdf5",
               "basin_locs": [str(canary1), canary1.name]}]
        if nested:
            b0.append({"basin_name": "remote", "basin_type": "remote", "basin_format": "http",
                       "basin_locs": [url1]})
        r0 = tmp / "r0.rtdc"
        mk(r0, 0, b0)
        url0 = srv.put("/bucket/r0.rtdc", r0.read_bytes())
        case = {"nested_http_basin": nested, "transport": "loopback sockets" if real_sockets
                else "in-process"}
        Rec.opens.clear()
        try:
            with warnings.catch_warnings():
                warnings.simplefilter("ignore")
                with fmt_http.RTDC_HTTP(url0) as ds:
                    f8, f9, f1 = "userdef8" in ds, "userdef9" in ds, "userdef1" in ds
                    fb = list(ds.features_basin)
                    if f1:
                        v1 = np.asarray(ds["userdef1"][:])
                        ctx.check("c14.data_provenance",
                                  np.array_equal(v1, 1000.0 + np.arange(n)),
                                  lambda: dict(case, got=v1), message="http basin data wrong")
        except Exception as exc:
            if real_sockets and is_transport_timeout(exc):
                # a starved/stuck loopback connection: this case is not judged
                ctx.count("skipped_transport_timeout")
                return case
            raise
        local_opened = [o for o in Rec.opens if "canary" in o]
        ctx.check("c14.remote_isolation", not (f8 or f9 or local_opened),
                  lambda: dict(case, userdef8=f8, userdef9=f9, opened=local_opened,
                               features_basin=fb),
                  message=f"remote session reached local basins: offered={f8, f9}, "
                          f"opened={local_opened}")
        if nested:
            ctx.check("c14.remote_nested_followed", f1,
                      lambda: dict(case, features_basin=fb),
                      message="http basin of a remote dataset not followed")
        # mixed formats: a LOCAL file whose remote basins point at the served files.  The
        # datasets reached through the network format must still not follow their file basins.
        l0 = tmp / "l0.rtdc"
        which = int(rng.integers(0, 3))
        urls = [[url1], [url0], [url0, url1]][which]
        mk(l0, 5, [{"basin_name": f"remote {q}", "basin_type": "remote", "basin_format": "http",
                    "basin_locs": [u]} for q, u in enumerate(urls)])
        case["local_root_remote_basins"] = ["r1", "r0", "r0+r1"][which]
        Rec.opens.clear()
        try:
            with warnings.catch_warnings():
                warnings.simplefilter("ignore")
                with dclab.new_dataset(l0) as dm:
                    m8, m9 = "userdef8" in dm, "userdef9" in dm
                    m0, m1 = "userdef0" in dm, "userdef1" in dm
                    fbm = list(dm.features_basin)
                    for j, have in ((0, m0), (1, m1)):
                        if have:
                            vj = np.asarray(dm[f"userdef{j}"][:])
                            ctx.check("c14.data_provenance",
                                      np.array_equal(vj, 1000.0 * j + np.arange(n)),
                                      lambda: dict(case, got=vj, feature=f"userdef{j}"),
                                      message="http basin data wrong (local root)")
        except Exception as exc:
            if real_sockets and is_transport_timeout(exc):
                ctx.count("skipped_transport_timeout")
                return case
            raise
        local_opened = [o for o in Rec.opens if "canary" in o]
        ctx.check("c14.remote_isolation", not (m8 or m9 or local_opened),
                  lambda: dict(case, userdef8=m8, userdef9=m9, opened=local_opened,
                               features_basin=fbm),
                  message=f"network dataset below a local file reached local basins: "
                          f"offered={m8, m9}, opened={local_opened}")
        exp1 = which in (0, 2) or nested
        exp0 = which in (1, 2)
        ctx.check("c14.remote_nested_followed", (m1 == exp1) and (m0 == exp0),
                  lambda: dict(case, userdef0=m0, userdef1=m1, features_basin=fbm),
                  message="remote basins of a local file not followed as expected")
        # an unreachable remote basin (the resource is gone: 404 / not found) that declares its
        # features explicitly: nothing of it may be offered
        gone = url0.rsplit("/", 1)[0] + "/gone.rtdc"
        l2 = tmp / "l2.rtdc"
        declared = ["userdef7", "image"] if rng.random() < 0.7 else None
        mk(l2, 6, [{"basin_name": "gone", "basin_type": "remote", "basin_format": "http",
                    "basin_locs": [gone], "basin_feats": declared}])
        try:
            with warnings.catch_warnings():
                warnings.simplefilter("ignore")
                with dclab.new_dataset(l2) as dg:
                    fbg = list(dg.features_basin)
                    off = [f for f in ("userdef7", "image", "contour") if f in dg]
                    own = "userdef6" in dg
        except Exception as exc:
            if real_sockets and is_transport_timeout(exc):
                ctx.count("skipped_transport_timeout")
                return case
            raise
        ctx.check("c14.unreachable_not_offered", not off and not fbg and own,
                  lambda: dict(case, declared_features=declared, offered=off,
                               features_basin=fbg, own_feature_offered=own),
                  message=f"features of an unreachable remote basin are offered: {off or fbg}")
        # the same bytes opened locally may follow the file basin
        with warnings.catch_warnings():
            warnings.simplefilter("ignore")
            with dclab.new_dataset(r0) as dl:
                ctx.check("c14.local_follows_file_basin", "userdef8" in dl, case,
                          message="file basin not followed when the file is opened locally")
        return case
    finally:
        srv.close()


def _rewrite_basin_type(path, btype):
    import hashlib
    import json
    import h5py
    with h5py.File(path, "a") as h5:
        grp = h5["basins"]
        for key in list(grp):
            lines = [ln.decode("utf-8") if isinstance(ln, bytes) else str(ln) for ln in grp[key][:]]
            bdict = json.loads(" ".join(lines))
            bdict["type"] = btype
            if btype == "remote":
                bdict["urls"] = bdict.pop("paths")
            data = json.dumps(bdict, indent=2)
            del grp[key]
            new_lines = data.split("\n")
            width = max(len(ln.encode("utf-8")) for ln in new_lines)
            grp.create_dataset(hashlib.md5(data.encode("utf-8")).hexdigest(),
                               data=np.array([ln.encode("utf-8") for ln in new_lines],
                                             dtype=f"S{width}"))


def run_replace(ctx, idx, rng, tmp):
    """The file at a basin location is replaced between two openings of referrers in the same
    process: whether the basin belongs to the referrer's measurement is a property of the file
    that is at the location *now*."""
    import warnings
    import dclab
    n = int(rng.integers(2, 9))
    loc = tmp / "origin.rtdc"
    mapped = bool(rng.random() < 0.4)
    id_ref = "idA-sub" if mapped and rng.random() < 0.5 else "idA"
    ref = tmp / "referrer.rtdc"
    paths = {0: ref, 1: loc}
    edge = {"src": 0, "dst": 1, "n": 0, "mapped": mapped, "dangling": False,
            "relative": bool(rng.random() < 0.5)}
    write_file(ref, 0, n, id_ref, [edge], paths, rng)
    # the definition may come from other software and declare another basin *type* for the
    # same hdf5 file (remote with "urls", internal with "paths"): whatever route dclab takes
    # to it, a file of another measurement must not be served
    btype = "file"
    if rng.random() < 0.45:
        btype = str(rng.choice(["remote", "internal"]))
        _rewrite_basin_type(ref, btype)
        ctx.count(f"basin_definitions_with_type[{btype}]_format[hdf5]")
    seq = [str(v) for v in rng.choice(["idA", "idB", "idA-sub", "none", "ida", "IDA"],
                                      int(rng.integers(2, 5)))]
    if len(set(seq)) == 1:
        seq[-1] = "idB" if seq[0] != "idB" else "idA"
    hist = []
    for step, ident in enumerate(seq):
        ident_ = None if ident == "none" else ident
        if loc.exists():
            loc.unlink()
        # a different recording each time: the data encode the step
        write_file(loc, 1, n, ident_, [], paths, rng)
        import h5py
        with h5py.File(loc, "a") as h5:
            h5["events/userdef1"][:] = 1000.0 + 100 * step + np.arange(n)
        exp = edge_matches(id_ref, ident_, mapped)
        hist.append([ident, "follow" if exp else "refuse"])
        how = int(rng.integers(0, 2))
        with warnings.catch_warnings():
            warnings.simplefilter("ignore")
            ds = dclab.new_dataset(ref) if how == 0 else dclab.rtdc_dataset.fmt_hdf5.RTDC_HDF5(ref)
            try:
                got = "userdef1" in ds
                val = None
                if got:
                    try:
                        val = np.asarray(ds["userdef1"][:])
                    except Exception:
                        if btype == "file":
                            raise
                        val = None      # refused on access
            finally:
                ds.close()
        case = {"kind": "replace", "referrer_id": id_ref, "mapped": mapped, "basin_type": btype,
                "location_history": hist, "relative_location": edge["relative"]}
        if btype != "file":
            # whether and when such a definition is followed is not stated; judged is only
            # that data of a non-matching file are never *served*
            served = val is not None
            ctx.check("c14.offered_iff_model", exp or not served,
                      lambda: dict(case, served=served, expected=exp, data=val),
                      message=f"basin definition of type {btype!r} (format hdf5): data of a "
                              f"file with identifier {ident!r} served to referrer {id_ref!r}")
            if served and exp:
                ctx.check("c14.data_provenance",
                          np.array_equal(val, 1000.0 + 100 * step + np.arange(n)),
                          lambda: dict(case, got=val),
                          message="basin data are not those of the file now at the location")
            continue
        ctx.check("c14.offered_iff_model", got == exp,
                  lambda: dict(case, offered=got, expected=exp),
                  message=f"file at the basin location replaced (now {ident!r}, referrer "
                          f"{id_ref!r}, mapped={mapped}): offered={got}, expected={exp}")
        if got and exp:
            ctx.check("c14.data_provenance",
                      np.array_equal(val, 1000.0 + 100 * step + np.arange(n)),
                      lambda: dict(case, got=val),
                      message="basin data are not those of the file now at the location")
    return case


def run_wide(ctx, idx, rng, tmp):
    """A matching, reachable, mapped file basin whose definition lists many features (a long
    definition text): every listed feature is offered and holds the origin's data at the mapped
    events."""
    import warnings
    import dclab
    import dclab.definitions as dfn
    from vmon.gen import dataset as gd
    names = sorted(f for f in dfn.scalar_feature_names
                   if f not in ("index", "index_online", "time", "frame", "nevents", "ml_class")
                   and not f.startswith(("fl", "ml_", "basinmap", "userdef0")))[:80]
    n = int(rng.integers(3, 9))
    m = int(rng.integers(40, len(names) + 1))
    listed = names[:m]
    data = {f: 100.0 * k + np.arange(n) for k, f in enumerate(listed)}
    meta = gd.complete_meta(rng, {}, n)
    meta["experiment"]["run identifier"] = f"wide-{idx}"
    origin = tmp / "wide_origin.rtdc"
    with dclab.RTDCWriter(origin, mode="reset") as hw:
        hw.store_metadata(meta)
        for f, v in data.items():
            hw.store_feature(f, v)
    nb = int(rng.integers(2, 2 * n))
    bmap = rng.integers(0, n, nb).astype(np.uint64)
    meta2 = {s_: dict(kv) for s_, kv in meta.items()}
    meta2["experiment"]["event count"] = nb
    ref = tmp / "wide_ref.rtdc"
    with dclab.RTDCWriter(ref, mode="reset") as hw:
        hw.store_metadata(meta2)
        hw.store_feature("userdef0", np.arange(nb, dtype=float))
        hw.store_basin(basin_name="wide", basin_type="file", basin_format="hdf5",
                       basin_locs=[str(origin)], basin_feats=listed, basin_map=bmap)
    case = {"kind": "wide", "listed_features": m, "n_origin": n, "n_referrer": nb}
    with warnings.catch_warnings():
        warnings.simplefilter("ignore")
        with dclab.new_dataset(ref) as ds:
            for f in listed:
                off = f in ds
                ctx.check("c14.offered_iff_model", off,
                          lambda: dict(case, feature=f, offered=off, model=True),
                          message=f"{f} is listed by a matching, reachable basin but not offered")
                if off:
                    val = np.asarray(ds[f][:])
                    ctx.check("c14.data_provenance",
                              np.array_equal(val, data[f][bmap.astype(np.intp)]),
                              lambda: dict(case, feature=f, got=val,
                                           expected=data[f][bmap.astype(np.intp)]),
                              message=f"{f} offered through the mapped basin but the data are "
                                      f"not the origin's at the mapped events")
    ctx.count("wide_basin_definitions")
    return case


def run(spec, ctx):
    from vmon import boot
    install(ctx)
    for idx in ctx.case_ids():
        rng = ctx.rng(idx, salt={"graph": 0, "exhaustive": 1, "remote": 2, "replace": 3}[spec["kind"]])
        tmp = boot.scratch() / f"c14_{spec['kind']}_{idx}"
        tmp.mkdir()
        try:
            if spec["kind"] == "graph" and idx % 6 == 5:
                try:
                    ctx.mark_nontrivial(["wide", idx, run_wide(ctx, idx, rng, tmp)])
                except Exception as exc:
                    ctx.raised("c14.resolves_without_error", f"wide basin definition {idx}", exc)
            if spec["kind"] == "remote":
                case = run_remote(ctx, idx, rng, tmp)
                ctx.mark_nontrivial(["remote", idx, case])
                if idx % 8 == 0:
                    ctx.sample(dict(case, kind="remote"))
                continue
            if spec["kind"] == "replace":
                case = run_replace(ctx, idx, rng, tmp)
                ctx.mark_nontrivial(["replace", idx, case])
                if idx % 16 == 0:
                    ctx.sample(case)
                continue
            if spec["kind"] == "exhaustive":
                k, pairs = nth_digraph(idx)
                ctx.count("exhaustive_digraphs")
            else:
                k, pairs = gen_graph(rng, idx)
            edges, ids = decorate(rng, k, pairs)
            try:
                case, nt = run_graph(ctx, idx, rng, tmp, k, pairs, edges, ids)
                ctx.ev("c14.resolves_without_error")
            except (RecursionError, MemoryError, TypeError, ValueError, KeyError, OSError,
                    AttributeError) as exc:
                # opening a generated graph / asking for its features must terminate normally
                import traceback
                ctx.ev("c14.resolves_without_error")
                ctx.violation("c14.resolves_without_error",
                              {"files": k, "edges": pairs, "ids": ids, "exc": repr(exc)[:300],
                               "tb": traceback.format_exc()[-900:]},
                              message=f"resolving the basin graph raised {type(exc).__name__}")
                continue
            if nt:
                ctx.mark_nontrivial(case)
            if idx % 60 == 0:
                ctx.sample(case)
        except Exception as exc:
            ctx.raised("c14.no_exception", f"case {spec['kind']} {idx}", exc)
        finally:
            shutil.rmtree(tmp, ignore_errors=True)
