"""C10 - command-line tasks never leave a partial file at the output path.

(b) failpoint enumeration (deciding): a fork server (this shard process, which never holds an
    open HDF5 file) forks one child per (task, input, k, mode); counting shims on the h5py /
    pathlib operations make operation k raise OSError(EIO) or kill the process right before it.
    k ranges over the operations of the fault-free run (all of them in the thorough tier).
    After each faulted run a verification child checks: every requested output path is absent,
    or is the untouched stale file that was there before, or opens with dclab and equals the
    fault-free result; inputs are byte-identical.
(a) trace oracle: each task is also run once under strace; the offline checker asserts that
    the output path is never opened for writing, only appears as the target of a rename from
    the temporary name, and that no descriptor on the temporary file is open at that moment;
    inputs are only opened read-only.
"""
import json
import os
import re
import shutil
import subprocess
import sys

import numpy as np

PROP = "C10"
LEVEL = "fault_enumeration"
RULE = ("case = (task in compress/condense/repack/join/split/tdms2rtdc, generated input variant "
        "incl. stale output and stale temporary files, operation index k of the fault-free run, "
        "mode in {raise EIO, kill}); quick: every 6th k plus the first 6 and last 8, thorough: all "
        "k (tdms2rtdc runs with more than 400 operations: all of the first and last 80, every 4th "
        "in between); after every 3rd (thorough: 2nd) failpoint the same command is run again in the "
        "directory the interrupted run left behind. Non-trivial = a failpoint that was actually reached (the child reported the hit); "
        "distinct by (task, variant, k, mode)")
LEVEL_TEXT = ("Fault enumeration over every hooked file-system operation of each task run (HDF5 "
              "dataset write, group/attribute creation, object copy, resize, file close, rename), "
              "in both failure modes: after each injected failure every requested output path is "
              "absent or complete and equal to the fault-free result, inputs byte-identical. Plus a "
              "system-call trace check per task (output only ever created by rename from the "
              "closed temporary file).")
LEVEL_NOTE = ("trusted: the shim set covers the operations through which the tasks write (h5py "
              "high-level API, h5o.copy, Path.rename); kill = os._exit before the operation "
              "(no torn single write is modelled); comparison with the fault-free result ignores "
              "time-stamped logs and the random run-identifier suffix")
TECHNIQUE = ("fault injection at hooked operations (fork-per-failpoint enumeration) with post-fault "
             "file-system oracle + offline checker over a recorded strace event log")
ASSUMPTIONS = ["input path != output path", "leftover *.rtdc~ temporary files are allowed"]
MIN_EVALS = {"c10.fault.output_absent_or_complete": 300, "c10.fault.inputs_unmodified": 300,
             "c10.rerun.output_absent_or_complete": 100,
             "c10.trace.checked_runs": 3}
WATCHDOG_S = {"quick": 500, "thorough": 5400}
TASKS = ["compress", "repack", "condense", "join", "split", "tdms2rtdc"]


def plan(tier, seed):
    """One shard = (task, input variant, residue class of k): the failpoints of one run are
    spread over `parts` shards, each of which repeats the cheap fault-free run."""
    heavy = {"join": 4, "split": 4, "tdms2rtdc": 3, "condense": 2, "compress": 1, "repack": 1}
    shards = []
    for ti, t in enumerate(TASKS):
        variants = [ti % 2] if tier == "quick" else [0, 1, 2, 3]
        parts = heavy[t] if tier == "quick" else (8 if t == "tdms2rtdc" else 4)
        for v in variants:
            for pi in range(parts):
                shards.append({"kind": "faults", "task": t, "variant": v, "part": pi,
                               "parts": parts, "cases": [v]})
    # tdms2rtdc of a directory tree (nine measurements in one call)
    parts = 4 if tier == "quick" else 8
    for pi in range(parts):
        shards.append({"kind": "faults", "task": "tdms2rtdc", "variant": 4, "part": pi,
                       "parts": parts, "cases": [4]})
    for t in TASKS:
        shards.append({"kind": "trace", "task": t, "variant": 0, "cases": [0]})
    return shards


# ------------------------------------------------------------------------- case set-up
def make_inputs(task, variant, rng, d):
    """Runs in a forked child. Creates the input files in directory d."""
    import dclab  # noqa: F401
    from vmon.gen import dataset as gd
    info = {"inputs": [], "outputs": [], "stale": bool(variant % 2)}
    n = int(rng.integers(8, 16))
    kinds = {"scalar", "image", "trace"} if variant < 2 else {"scalar", "mask", "contour", "int"}

    def model(nn, t="10:00:00"):
        m = gd.gen_model(rng, n=nn, kinds=kinds, hostile_logs=False, realistic=True, special=0.05,
                         max_scalar=4, roi=(8, 9))
        m["meta"]["experiment"]["time"] = t
        m["meta"]["experiment"]["date"] = "2020-01-01"
        # user-defined metadata with non-string values (written attribute by attribute)
        m["meta"]["user"] = {"count": 4, "ratio": 0.25, "window": np.array([0.0, 100.5]),
                             "flag": True, "note": "user note"}
        return m
    if task == "tdms2rtdc" and variant == 4:
        # a directory tree with nine measurements, converted in one call
        from vmon.work.c02 import tdms_fixture
        src = tdms_fixture("fmt-tdms_minimal_2016.zip")
        for k in range(9):
            shutil.copytree(src.parent, d / "tdms" / f"data_{k}")
        info["inputs"] = [str(p) for p in sorted((d / "tdms").rglob("*")) if p.is_file()]
        info["tdms"] = str(d / "tdms")
        info["tdms_out_dir"] = str(d / "out")
        info["outputs"] = [str(d / "out" / f"data_{k}" / (src.stem + ".rtdc")) for k in range(9)]
        info["stale"] = False
    elif task == "tdms2rtdc":
        from vmon.work.c02 import tdms_fixture
        name = ["fmt-tdms_minimal_2016.zip", "fmt-tdms_2fl-no-image_2017.zip",
                "fmt-tdms_fl-image_2016.zip", "fmt-tdms_shapein-2.0.1-no-image_2017.zip"][variant]
        src = tdms_fixture(name)
        shutil.copytree(src.parent, d / "tdms")
        info["inputs"] = [str(p) for p in sorted((d / "tdms").iterdir()) if p.is_file()]
        info["tdms"] = str(d / "tdms" / src.name)
        info["outputs"] = [str(d / "out.rtdc")]
    elif task == "join":
        k = 2 + variant % 2
        sizes = [int(rng.integers(3, 8)) for _ in range(k)]
        base = model(sum(sizes))
        start = 0
        for j in range(k):
            sl = slice(start, start + sizes[j])
            start += sizes[j]
            sub = {"n": sizes[j],
                   "features": {f: gd.slice_feature(v, sl) for f, v in base["features"].items()},
                   "meta": {s: dict(kv) for s, kv in base["meta"].items()},
                   "logs": base["logs"], "tables": {}}
            sub["meta"]["experiment"]["time"] = f"1{j}:00:00"
            sub["meta"]["experiment"]["event count"] = sizes[j]
            p = d / f"in{j}.rtdc"
            gd.write_model(p, sub)
            info["inputs"].append(str(p))
        info["outputs"] = [str(d / "out.rtdc")]
    elif task == "split":
        p = d / "meas.rtdc"
        m = model(n)
        if variant % 2 == 0:
            # without tables a second run can append to a left-over temporary file (tables
            # cannot be stored twice): the rerun histories need such inputs as well
            m["tables"], m["table_inputs"] = {}, {}
        gd.write_model(p, m)
        info["inputs"] = [str(p)]
        se = max(2, n // 3)
        info["split_events"] = se
        (d / "parts").mkdir()
        info["outputs"] = [str(d / "parts" / f"meas_{i + 1:04d}.rtdc")
                           for i in range(-(-n // se))]
    else:
        p = d / "in.rtdc"
        gd.write_model(p, model(n))
        if variant in (0, 3):
            # the input is itself the product of an earlier dclab-compress run (its logs and
            # features are stored compressed, so the copy takes the whole-object route)
            import dclab.cli as cli
            p0 = d / "in_uncompressed.rtdc"
            p.rename(p0)
            cli.compress(path_in=p0, path_out=p)
            p0.unlink()
            info["precompressed"] = True
        info["inputs"] = [str(p)]
        info["outputs"] = [str(d / "out.rtdc")]
        if variant in (1, 2):
            # names without the .rtdc suffix (check_suffix=False): the output is requested
            # under the very name of the input; the task writes <name>.rtdc next to it
            q = d / "measurement"
            p.rename(q)
            info["inputs"] = [str(q)]
            info["requested_out"] = str(q)
            info["outputs"] = [str(q) + ".rtdc"]
            info["no_suffix"] = True
    return info


def task_callable(task, info, variant):
    def run():
        import dclab.cli as cli
        kw = {}
        out = info["outputs"][0]
        if info.get("no_suffix"):
            kw, out = {"check_suffix": False}, info["requested_out"]
        # (the optional arguments of the public calls vary with the variant: every documented
        # one is legal, the deprecated `force` of compress included)
        if task == "compress":
            if variant in (0, 3):
                kw["force"] = True
            cli.compress(path_in=info["inputs"][0], path_out=out, **kw)
        elif task == "repack":
            cli.repack(path_in=info["inputs"][0], path_out=out,
                       strip_logs=bool(variant % 2), strip_basins=bool(variant % 3 == 0), **kw)
        elif task == "condense":
            cli.condense(path_in=info["inputs"][0], path_out=out,
                         store_ancillary_features=bool(variant % 2 == 0),
                         store_basin_features=bool(variant % 3 != 0), **kw)
        elif task == "join":
            cli.join(paths_in=list(info["inputs"]), path_out=info["outputs"][0])
        elif task == "split":
            import pathlib
            cli.split(path_in=info["inputs"][0],
                      path_out=pathlib.Path(info["outputs"][0]).parent,
                      split_events=info["split_events"])
        elif task == "tdms2rtdc":
            import pathlib
            cli.tdms2rtdc(path_tdms=pathlib.Path(info["tdms"]),
                          path_rtdc=pathlib.Path(info.get("tdms_out_dir", info["outputs"][0])),
                          verbose=False)
    return run


def sha(path):
    import hashlib
    h = hashlib.sha256()
    with open(path, "rb") as fd:
        h.update(fd.read())
    return h.hexdigest()


def place_stale(info):
    """Stale output and temporary files from an 'earlier run' (valid small HDF5 garbage)."""
    stale = {}
    for o in info["outputs"]:
        for p in (o, o + "~"):
            with open(p, "wb") as fd:
                fd.write(b"stale file from an earlier run " + os.urandom(8))
            stale[p] = sha(p)
    return stale


def _ref_name(info, o):
    """Name of the reference copy of output o (outputs in different directories may share
    their base name)."""
    return f"{info['outputs'].index(o)}_{os.path.basename(o)}"


def clear_outputs(info, d):
    for o in info["outputs"]:
        for p in (o, o + "~"):
            if os.path.exists(p):
                os.unlink(p)


def verify(info, ref_dir, in_sha, stale):
    """Runs in a forked child. -> list of problems."""
    import h5py
    import dclab
    from vmon.model import h5equiv
    probs = []
    for o in info["outputs"]:
        if not os.path.exists(o):
            continue
        if stale.get(o) == sha(o):
            continue        # the old file, untouched
        ref = os.path.join(ref_dir, _ref_name(info, o))
        try:
            with dclab.new_dataset(o) as ds:
                len(ds)
                for f in ds.features_innate:
                    if f != "trace":
                        ds[f][0]
            with h5py.File(o, "r") as ho, h5py.File(ref, "r") as hr:
                diffs = h5equiv.compare_attrs(dict(hr.attrs), dict(ho.attrs), "/",
                                              ignore=("experiment:run identifier",))
                for grp in ("events", "tables", "basin_events"):
                    gr = hr[grp] if grp in hr else {}
                    go = ho[grp] if grp in ho else {}
                    dd, extra = h5equiv.compare_group(gr, go, "/" + grp) if len(gr) else ([], list(go))
                    diffs += dd
                    diffs += [{"where": f"/{grp}/{e}", "extra": True} for e in extra]
                ts = re.compile(r"_\d{4}-\d{2}-\d{2}_\d{2}\.\d{2}\.\d{2}")
                lr = sorted(ts.sub("", n) for n in (hr["logs"] if "logs" in hr else []))
                lo = sorted(ts.sub("", n) for n in (ho["logs"] if "logs" in ho else []))
                if lr != lo:
                    diffs.append({"logs_ref": lr, "logs_out": lo})
            if diffs:
                probs.append({"output": os.path.basename(o), "incomplete_or_different": diffs[:4]})
        except BaseException as exc:
            probs.append({"output": os.path.basename(o), "not_loadable": repr(exc)[:300],
                          "size": os.path.getsize(o)})
    changed = [os.path.basename(p) for p, h in in_sha.items() if not os.path.exists(p)
               or sha(p) != h]
    return {"outputs": probs, "inputs_changed": changed}


# ------------------------------------------------------------------------------ faults
def run_faults(spec, ctx):
    from vmon import boot, faults
    task, variant = spec["task"], spec["variant"]
    rng = ctx.rng(variant, salt=TASKS.index(task))
    d = boot.scratch() / f"c10_{task}_{variant}_{spec.get('part', 0)}"
    d.mkdir()
    res = faults.call_in_child(lambda: make_inputs(task, variant, rng, d))
    if not res["ok"]:
        ctx.error("make_inputs", RuntimeError(res.get("exc", "") + res.get("tb", "")))
        return
    info = res["result"]
    in_sha = {p: sha(p) for p in info["inputs"]}
    run = task_callable(task, info, variant)
    # ---- fault-free reference run (counts the operations)
    ops_path = d / "ops.json"
    code = faults.run_child(run, ops_path=str(ops_path))
    if code != 0 or not ops_path.exists():
        err = open(str(ops_path) + ".err").read() if os.path.exists(str(ops_path) + ".err") else ""
        ctx.ev("c10.reference_run")
        ctx.violation("c10.reference_run", {"task": task, "variant": variant, "exit": code,
                                            "err": err[-1500:]},
                      message=f"fault-free run of {task} failed (exit {code})")
        return
    ctx.ev("c10.reference_run")
    ops = json.load(open(ops_path))
    nops = len(ops)
    ref_dir = d / "ref"
    ref_dir.mkdir()
    for o in info["outputs"]:
        if os.path.exists(o):
            os.rename(o, ref_dir / _ref_name(info, o))
        else:
            ctx.violation("c10.reference_run", {"task": task, "missing_output": o},
                          message="fault-free run did not produce a requested output")
            return
    ctx.count(f"operations[{task}]", nops)
    for name in set(ops):
        ctx.count(f"op[{name}]", ops.count(name))
    if task == "tdms2rtdc" and variant == 4:
        # (nine conversions per run, seconds each: about 12 / 72 failpoints spread evenly)
        step = max(1, nops // (12 if ctx.tier == "quick" else 72))
        ks = sorted(set(list(range(2, nops + 1, step)) + [1, nops]))
    elif ctx.tier == "quick":
        ks = sorted(set(list(range(1, nops + 1, 6)) + list(range(1, 7))
                        + list(range(max(1, nops - 7), nops + 1))))
    elif task == "tdms2rtdc" and nops > 400:
        # a conversion run costs seconds (video decoding in a helper process): every failpoint
        # of the first and last 80 operations, every 4th of the repetitive middle part
        ks = sorted(set(list(range(1, 81)) + list(range(81, nops - 80, 4))
                        + list(range(max(1, nops - 80), nops + 1))))
    else:
        ks = list(range(1, nops + 1))
    ks = [k for i, k in enumerate(ks) if i % spec.get("parts", 1) == spec.get("part", 0)]
    hit_path = str(d / "hit.txt")
    for ki, k in enumerate(ks):
        for mode in ("raise", "kill"):
            clear_outputs(info, d)
            stale = place_stale(info) if info["stale"] else {}
            if os.path.exists(hit_path):
                os.unlink(hit_path)
            code = faults.run_child(run, target=k, mode=mode, hit_path=hit_path)
            hit = os.path.exists(hit_path)
            case = {"task": task, "variant": variant, "k": k, "of": nops, "op": ops[k - 1],
                    "mode": mode, "stale_files": info["stale"], "exit": code}
            if not hit:
                ctx.count("failpoint_not_reached")
                continue
            if mode == "kill" and code != 137:
                ctx.count("kill_mode_unexpected_exit")
            v = faults.call_in_child(lambda: verify(info, str(ref_dir), in_sha, stale))
            if not v["ok"]:
                ctx.error("verify", RuntimeError(v.get("exc", "") + v.get("tb", "")))
                continue
            r = v["result"]
            ctx.check("c10.fault.output_absent_or_complete", not r["outputs"],
                      lambda: dict(case, problems=r["outputs"]),
                      message=f"{task}: after {mode} before op {k}/{nops} ({ops[k - 1]}) an output "
                              f"path holds a partial/wrong file: {r['outputs'][:1]}")
            ctx.check("c10.fault.inputs_unmodified", not r["inputs_changed"],
                      lambda: dict(case, changed=r["inputs_changed"]),
                      message=f"{task}: input modified after fault at op {k}: {r['inputs_changed']}")
            ctx.mark_nontrivial([task, variant, k, mode])
            ctx.count(f"faults_injected[{mode}]")
            # ---- the same command is run again in the directory the interrupted run left
            # behind (no clean-up in between): it must either refuse / fail without creating
            # an output, or produce the complete outputs of an undisturbed run
            if ki % (3 if ctx.tier == "quick" else (4 if task == "tdms2rtdc" else 2)) == 0:
                code2 = faults.run_child(run)
                v2 = faults.call_in_child(lambda: verify(info, str(ref_dir), in_sha, stale))
                if not v2["ok"]:
                    ctx.error("verify rerun", RuntimeError(v2.get("exc", "") + v2.get("tb", "")))
                    continue
                r2 = v2["result"]
                ctx.check("c10.rerun.output_absent_or_complete", not r2["outputs"],
                          lambda: dict(case, rerun_exit=code2, problems=r2["outputs"]),
                          message=f"{task}: run again after {mode} before op {k}/{nops} "
                                  f"({ops[k - 1]}): an output path holds a partial/wrong file: "
                                  f"{r2['outputs'][:1]}")
                ctx.check("c10.fault.inputs_unmodified", not r2["inputs_changed"],
                          lambda: dict(case, rerun=True, changed=r2["inputs_changed"]),
                          message=f"{task}: input modified by the rerun: {r2['inputs_changed']}")
                ctx.count(f"reruns_after_interruption[{'completed' if code2 == 0 else 'refused'}]")
            if code == 0 and mode == "raise":
                ctx.count("task_survived_injected_error")
    ctx.sample({"task": task, "variant": variant, "operations": nops, "failpoints": len(ks) * 2,
                "first_ops": ops[:12], "last_ops": ops[-6:]})
    shutil.rmtree(d, ignore_errors=True)


# ------------------------------------------------------------------------------- trace
OPEN_RE = re.compile(r'^(\d+)\s+openat\(AT_FDCWD, "([^"]*)", ([A-Z_|0-9]+)(?:, \d+)?\)\s+= (-?\d+)')
CLOSE_RE = re.compile(r'^(\d+)\s+close\((\d+)\)\s+= 0')
RENAME_RE = re.compile(r'^(\d+)\s+rename(?:at2?)?\((?:AT_FDCWD, )?"([^"]*)", (?:AT_FDCWD, )?"([^"]*)"')
UNLINK_RE = re.compile(r'^(\d+)\s+unlink(?:at)?\((?:AT_FDCWD, )?"([^"]*)"')


def check_trace(lines, outputs, inputs):
    """Offline checker over the recorded system-call log. -> (problems, stats)"""
    outs = {os.path.realpath(o) for o in outputs}
    ins = {os.path.realpath(i) for i in inputs}
    fds = {}        # fd -> path (threads of one process share the table; children are separate
    #                 processes only for strace itself, the tasks do not fork)
    probs = []
    stats = {"opens": 0, "renames_to_output": 0, "unparsed": 0, "temp_opens": 0}
    for ln in lines:
        if "unfinished" in ln or "resumed" in ln:
            stats["unparsed"] += 1
            continue
        m = OPEN_RE.match(ln)
        if m:
            path, flags, fd = os.path.realpath(m.group(2)), m.group(3), int(m.group(4))
            stats["opens"] += 1
            wr = any(f in flags for f in ("O_WRONLY", "O_RDWR", "O_CREAT", "O_TRUNC"))
            if path in outs and wr:
                probs.append({"output_opened_for_writing": path, "flags": flags})
            if path in ins and wr and fd >= 0:
                probs.append({"input_opened_for_writing": path, "flags": flags})
            if fd >= 0:
                fds[fd] = path
                if path.endswith(".rtdc~"):
                    stats["temp_opens"] += 1
            continue
        m = CLOSE_RE.match(ln)
        if m:
            fds.pop(int(m.group(2)), None)
            continue
        m = RENAME_RE.match(ln)
        if m:
            src, dst = os.path.realpath(m.group(2)), os.path.realpath(m.group(3))
            if dst in outs:
                stats["renames_to_output"] += 1
                if not src.endswith(".rtdc~"):
                    probs.append({"renamed_from_unexpected_source": src})
                still = [fd for fd, p in fds.items() if p == src]
                if still:
                    probs.append({"rename_while_temporary_file_open": src, "fds": still})
            continue
    return probs, stats


def run_trace(spec, ctx):
    from vmon import boot, faults
    task, variant = spec["task"], spec["variant"]
    if shutil.which("strace") is None:
        ctx.count("strace_not_available")
        return
    rng = ctx.rng(100 + variant, salt=TASKS.index(task))
    d = boot.scratch() / f"c10t_{task}_{variant}"
    d.mkdir()
    res = faults.call_in_child(lambda: make_inputs(task, variant, rng, d))
    if not res["ok"]:
        ctx.error("make_inputs", RuntimeError(res.get("exc", "") + res.get("tb", "")))
        return
    info = res["result"]
    in_sha = {p: sha(p) for p in info["inputs"]}
    with open(d / "info.json", "w") as fd:
        json.dump(info, fd)
    code = ("import sys, json; sys.path.insert(0, %r); from vmon import boot; boot.boot(); "
            "from vmon.work import c10; info = json.load(open(%r)); "
            "c10.task_callable(%r, info, %d)()" % (str(boot.VERIF), str(d / "info.json"),
                                                   task, variant))
    trace = d / "trace.txt"
    env = dict(os.environ, OMP_NUM_THREADS="1")
    cp = subprocess.run(["strace", "-f", "-o", str(trace), "-e",
                         "trace=openat,rename,renameat,renameat2,unlink,unlinkat,close",
                         sys.executable, "-c", code], env=env, capture_output=True, text=True,
                        timeout=240)
    if not trace.exists() or cp.returncode != 0:
        if "ptrace" in cp.stderr or "Operation not permitted" in cp.stderr:
            ctx.count("strace_not_permitted")
            return
        ctx.error("strace run", RuntimeError(cp.stderr[-800:]))
        return
    lines = open(trace, errors="replace").read().splitlines()
    probs, stats = check_trace(lines, info["outputs"], info["inputs"])
    ctx.ev("c10.trace.checked_runs")
    ctx.check("c10.trace.output_only_by_rename_of_closed_temp", not probs,
              lambda: {"task": task, "problems": probs[:5], "stats": stats},
              message=f"{task}: system-call trace violates the temp-then-rename protocol: {probs[:2]}")
    ctx.check("c10.trace.rename_seen", stats["renames_to_output"] == len(info["outputs"]),
              lambda: {"task": task, "stats": stats, "outputs": len(info["outputs"])},
              message=f"{task}: expected {len(info['outputs'])} renames onto output paths, saw "
                      f"{stats['renames_to_output']}")
    ctx.check("c10.fault.inputs_unmodified", all(sha(p) == h for p, h in in_sha.items()),
              {"task": task}, message="input changed in the traced run")
    for k, v in stats.items():
        ctx.count(f"trace_{k}", v)
    ctx.mark_nontrivial(["trace", task, variant])
    ctx.sample({"task": task, "trace_events": len(lines), "stats": stats})
    shutil.rmtree(d, ignore_errors=True)


def run(spec, ctx):
    for _ in ctx.case_ids():
        try:
            if spec["kind"] == "faults":
                run_faults(spec, ctx)
            else:
                run_trace(spec, ctx)
        except Exception as exc:
            ctx.error(f"{spec['kind']} {spec['task']}", exc)
