"""C16 - downsampling returns a reproducible subset of the requested size.

Monitors (recording wrappers installed on the real code, they never raise inside dclab and
always hand the original result / exception through):

* ``dclab.downsampling.downsample_rand`` / ``downsample_grid`` (module attributes; core.py
  and filter.py look them up per call, so calls made by ``get_downsampled_scatter`` and by
  the ``limit events`` filter are judged as well).  Post-conditions, all taken from the
  statement (model/c16_model.py): returned values are ``input[mask]`` value for value (nan = nan), mask is a
  boolean array of the input length, nothing ineligible is returned, the number returned is
  the request (all eligible events if fewer exist, all for request 0 = "no downsampling"),
  an immediately repeated call, a call on a perturbed numpy global random state and - for
  the memoised grid function - a fresh computation bypassing the memo all return the same
  selection; calls without ``ret_idx`` return the same values as with it.  Exceptions are events.
* ``RTDCBase.get_downsampled_scatter``: OLD snapshot of ``filter.all``; the mask has
  ``len(ds)`` entries, lies inside the filter, selects exactly the returned x/y values
  (unscaled, value for value), count/eligibility by the statement with validity judged on the
  requested scale; ``ret_mask=False`` returns the same values.
* ``Filter.update``: with ``limit events = L > 0`` the combined filter is a subset of
  box & invalid & polygon & manual with exactly min(L, #passing) events.

The workload driver adds repetition on the client side (same call again, after interleaved
other calls, after ``Cache.clear_cache()``, on a freshly built identical dataset).
"""
import atexit
import collections
import hashlib
import inspect
import os
import pathlib
import shutil
import subprocess
import sysconfig
import tempfile

import numpy as np

from vmon.model import c16_model as M

PROP = "C16"
LEVEL = "exploration"
RULE = ("fn: generated pair of arrays (12 point distributions incl. constant axes, duplicate-"
        "heavy, tiny and overflowing ranges; nan/+-inf at random positions, prefixes, "
        "suffixes, everywhere; float64/float32/int64; n=0..1e5), request placed at every "
        "threshold of the statement (0, 1, #valid-1, #valid, #valid+1, N-1, N, N+1, >N), both "
        "remove_invalid modes, rand and grid method. exh: every array (pair) over "
        "{0,1,nan,inf,-inf} up to a length bound with every request 0..n+2 and both modes. "
        "ds: RTDC_Dict datasets with box/manual/polygon/invalid/limit filters and calls of "
        "get_downsampled_scatter (linear/log scales). limit: sequences of 'limit events' "
        "values around the number of passing events. Non-trivial = a true selection has to be "
        "made (0 < request < #eligible) or invalid events have to be padded in "
        "(#valid < request <= N, remove_invalid off, >=1 invalid event); distinct by hash of "
        "(kind, input bytes, request, flags)")
LEVEL_TEXT = ("Held on the observed executions: every result of the built downsampling "
              "routines, of get_downsampled_scatter and of the event-limit filter seen during "
              "the generated and the exhaustively enumerated small workloads was an unaltered, "
              "duplicate-free selection of eligible input events of the size the statement "
              "demands, with a mask selecting exactly those events, and equal under repetition "
              "(cached, uncached, perturbed global random state, interleaved, rebuilt dataset). "
              "Exploration of an unbounded input space plus exhaustive small sub-spaces, "
              "not a proof.")
LEVEL_NOTE = ("trusted: numpy; the statement-derived oracle in vmon/model/c16_model.py; "
              "ds.filter.all as the definition of 'the filtered events' (filter correctness is "
              "C03). Which eligible events are chosen is not judged (only reproducibility). "
              "The compiled extension is observed as built (no Cython in this sandbox).")
TECHNIQUE = ("runtime monitoring: recording post-condition wrappers on the built downsampling "
             "functions, get_downsampled_scatter (OLD snapshot of the filter) and Filter.update; "
             "shadow re-execution for reproducibility; executable defect models for attribution")
ASSUMPTIONS = [
    "request 0 means 'do not downsample' (docstring of get_downsampled_scatter, default of "
    "'limit events'): all eligible events are expected",
    "not judged (don't-care): negative / non-integer / >= 2**32 requests, arrays that are not "
    "1-d numeric ndarrays of equal length, integer arrays whose range overflows their dtype, "
    "unknown scale names or feature names (documented errors), which of the eligible events "
    "are selected, side effects on the numpy global random state, aliasing of the returned "
    "arrays with the input or the memo (C17), a returned dtype that differs from the input "
    "while the values are equal (counted)",
    "on the dataset level the eligible events are those passing ds.filter.all as observed "
    "before the call, invalid = nan/inf after the requested scale (log of values <= 0)",
]
MIN_EVALS = {"rand.selection": 5000, "rand.count": 5000, "rand.eligible": 5000,
             "rand.reproducible": 5000, "rand.reproducible_interleaved": 300,
             "grid.selection": 5000, "grid.count": 5000, "grid.eligible": 5000,
             "grid.reproducible": 5000, "grid.reproducible_interleaved": 300,
             "scatter.mask": 2000, "scatter.values": 2000, "scatter.count": 2000,
             "scatter.eligible": 2000, "scatter.reproducible": 1000,
             "scatter.values_without_mask": 300,
             "limit.count": 1000, "limit.subset": 1000, "limit.reproducible": 1000}
WATCHDOG_S = {"quick": 400, "thorough": 3000}

ALIAS_ADJUNCT = True      # D09 (C17) observed through C16; set False to drop the shard


def _split(kind, total, shards, **extra):
    out = []
    per = -(-total // shards)
    for i in range(shards):
        lo, hi = i * per, min((i + 1) * per, total)
        if lo < hi:
            out.append(dict(kind=kind, cases={"start": lo, "stop": hi}, **extra))
    return out


EXH = {"quick": {"rand_len": 4, "grid_len": 3}, "thorough": {"rand_len": 6, "grid_len": 4}}


def exhaustive(tier):
    return False   # the exhaustive sub-spaces are only a part of an exploration-level check


def plan(tier, seed):
    from vmon.gen import c16_gen as G
    q = tier == "quick"
    shards = []
    # cost per case (one core): fn ~2 ms, ds ~30 ms, limit ~13 ms, exhaustive array 5-9 ms
    shards += _split("fn", 16000 if q else 320000, 8 if q else 48)
    shards += _split("ds", 1600 if q else 20000, 8 if q else 48)
    shards += _split("limit", 1200 if q else 20000, 4 if q else 16)
    e = EXH[tier]
    n_rand = sum(len(G.ALPHA1) ** n for n in range(e["rand_len"] + 1))
    shards += _split("exh_rand", n_rand, 1 if q else 8, max_len=e["rand_len"])
    shards += _split("exh_grid", G.exhaustive_grid_count(e["grid_len"]), 3 if q else 16,
                     max_len=e["grid_len"])
    if ALIAS_ADJUNCT:
        shards += _split("alias", 40 if q else 400, 1)
    if not q and os.environ.get("VERIF_C16_SANITIZER", "1") != "0":
        env = _build_sanitized_overlay()
        if env:
            shards += _split("asan", 40000, 4, env=env)
    return shards


# ------------------------------------------------- sanitizer adjunct (DESIGN.md 2.8)
ASAN_RT = "/usr/lib/llvm-14/lib/clang/14.0.6/lib/linux/libclang_rt.asan-x86_64.so"
_ADJ = {"dir": None, "note": None}


def _build_sanitized_overlay():
    """Copy of the dclab package (copies, not symlinks: boot verifies the resolved import
    location) whose downsampling extension is an ASan+UBSan build of the shipped .c file.
    The behavioural monitors are off in these shards; a sanitizer report aborts the shard
    process, which the runner reports as inconclusive with the report in the log tail."""
    repo = pathlib.Path(os.environ.get("VERIF_REPO", "/repo")).resolve()
    csrc = repo / "dclab" / "downsampling.c"
    if not csrc.exists() or not os.path.exists(ASAN_RT) or shutil.which("clang") is None:
        _ADJ["note"] = "not run: downsampling.c, clang or the ASan runtime is missing"
        return None
    dest = pathlib.Path(tempfile.mkdtemp(prefix="vmon-c16-asan-", dir="/dev/shm"))
    _ADJ["dir"] = str(dest)
    atexit.register(shutil.rmtree, str(dest), ignore_errors=True)
    shutil.copytree(repo / "dclab", dest / "dclab",
                    ignore=shutil.ignore_patterns("__pycache__", "downsampling.*.so"))
    shutil.copy(repo / "CHANGELOG", dest / "CHANGELOG")
    so = dest / "dclab" / ("downsampling" + sysconfig.get_config_var("EXT_SUFFIX"))
    cmd = ["clang", "-shared", "-fPIC", "-O1", "-g", "-fno-omit-frame-pointer", "-w",
           "-fsanitize=address,undefined", "-fno-sanitize-recover=undefined", "-fwrapv",
           "-I" + np.get_include(), "-I" + sysconfig.get_paths()["include"],
           str(csrc), "-o", str(so)]
    cp = subprocess.run(cmd, capture_output=True, text=True)
    if cp.returncode != 0:
        _ADJ["note"] = "not run: sanitizer build failed: " + cp.stderr[-200:]
        shutil.rmtree(dest, ignore_errors=True)
        return None
    _ADJ["note"] = "run"
    return {"LD_PRELOAD": ASAN_RT, "VERIF_REPO": str(dest),
            "ASAN_OPTIONS": "detect_leaks=0:abort_on_error=0"}


def post(merged):
    if _ADJ["note"]:
        merged["counters"][f"sanitizer_adjunct[{_ADJ['note']}]"] = 1
    if _ADJ["dir"]:
        shutil.rmtree(_ADJ["dir"], ignore_errors=True)


# ============================================================================ monitors
class _S:
    ctx = None
    origin = "direct"        # who called the downsampling function
    light = False            # exhaustive shards: one fresh re-execution instead of two
    rand_exc = 0             # exceptions seen by the rand wrapper (Filter.update attribution)
    seen = collections.OrderedDict()   # byte-key -> (signature, result) of grid calls
    perturb = 0


SIG = {"rand": ("a", "samples", "remove_invalid", "ret_idx"),
       "grid": ("a", "b", "samples", "remove_invalid", "ret_idx")}


def _bind(method, args, kwargs):
    names = SIG[method]
    if len(args) > len(names):
        return None
    p = {"remove_invalid": False, "ret_idx": False}
    for k, v in zip(names, args):
        p[k] = v
    for k, v in kwargs.items():
        if k not in names or k in names[:len(args)]:
            return None
        p[k] = v
    if any(k not in p for k in names):
        return None
    return p


def _in_domain(method, p):
    arrs = (p["a"],) if method == "rand" else (p["a"], p["b"])
    for v in arrs:
        if not (isinstance(v, np.ndarray) and v.ndim == 1
                and v.dtype.kind in ("fiub" if method == "rand" else "fiu")):
            return False          # (the limit filter hands a boolean array to the rand method)
        if v.dtype.kind == "i" and v.size and \
                int(v.max()) - int(v.min()) > np.iinfo(v.dtype).max:
            return False          # max - min overflows the integer type: not judged
    if len({v.shape for v in arrs}) != 1:
        return False
    s = p["samples"]
    if isinstance(s, (bool, np.bool_)) or not isinstance(s, (int, np.integer)):
        return False
    if not 0 <= int(s) < 2 ** 32:
        return False
    return isinstance(p["remove_invalid"], (bool, np.bool_)) and \
        isinstance(p["ret_idx"], (bool, np.bool_))


def _same_result(r1, r2):
    """Same selection: equal masks and equal values (nan == nan)."""
    if isinstance(r1, tuple) != isinstance(r2, tuple):
        return False
    if not isinstance(r1, tuple):
        r1, r2 = (r1,), (r2,)
    return len(r1) == len(r2) and all(M.same_values(u, v) for u, v in zip(r1, r2))


def _desc(method, p, extra=None):
    arrs = (p["a"],) if method == "rand" else (p["a"], p["b"])
    bad = np.zeros(arrs[0].shape, dtype=bool)
    for v in arrs:
        bad |= M.invalid(v)
    d = {"method": method, "origin": _S.origin, "n": int(arrs[0].size),
         "n_invalid": int(bad.sum()), "samples": int(p["samples"]),
         "remove_invalid": bool(p["remove_invalid"]), "ret_idx": bool(p["ret_idx"]),
         "arrays": list(arrs)}
    if extra:
        d.update(extra)
    return d


def _alias_key(method, p):
    h = hashlib.md5()
    sig = []
    for k in ("a", "b"):
        if k in p:
            v = np.ascontiguousarray(p[k])
            h.update(v.view(np.uint8))
            sig.append((str(v.dtype), v.shape))
    h.update(f"{int(p['samples'])}|{bool(p['remove_invalid'])}|{bool(p['ret_idx'])}".encode())
    return h.hexdigest(), tuple(sig)


def _observe(method, orig, args, kwargs):
    ctx = _S.ctx
    if ctx is None:
        return orig(*args, **kwargs)
    p = _bind(method, args, kwargs)
    if p is None or not _in_domain(method, p):
        ctx.count("skipped_out_of_domain_call")
        return orig(*args, **kwargs)
    ctx.count(f"calls[{method}<-{_S.origin}]")
    arrs = (p["a"],) if method == "rand" else (p["a"], p["b"])
    samples, rinv, ret_idx = int(p["samples"]), bool(p["remove_invalid"]), bool(p["ret_idx"])
    mon = method + "."
    # -------------------------------------------------------------- the observed call
    try:
        res = orig(*args, **kwargs)
    except Exception as exc:
        ctx.ev(mon + "no_exception")
        mech = None
        if method == "grid":
            mech = M.match_defect(M.predict_grid_defect(arrs[0], arrs[1], samples, rinv), exc)
        else:
            _S.rand_exc += 1
        ctx.count(f"exceptions[{method}:{type(exc).__name__}:{mech or 'unexplained'}]")
        ctx.violation(mon + "no_exception", _desc(method, p, {"exc": repr(exc)}), finding=mech,
                      message=f"downsample_{method}(n={arrs[0].size}, samples={samples}, "
                              f"remove_invalid={rinv}) raised {exc!r}")
        raise
    ctx.ev(mon + "no_exception")
    if method == "grid":
        pred = M.predict_grid_defect(arrs[0], arrs[1], samples, rinv)
        if pred is not None:
            # the defect model must be exact in both directions
            ctx.count(f"defect_model_predicted_but_no_exception[{pred[0]}]")
    # ------------------------------------------------------------------ shape of result
    want = len(arrs) + (1 if ret_idx else 0)
    rt = res if isinstance(res, tuple) else (res,)
    ok_shape = len(rt) == want and all(isinstance(v, np.ndarray) for v in rt)
    ctx.check(mon + "result_shape", ok_shape, lambda: _desc(method, p, {"result": repr(res)[:300]}),
              message=f"downsample_{method} returned {type(res).__name__} of "
                      f"{len(rt)} item(s), expected {want} arrays")
    if not ok_shape:
        return res
    fresh_fn = getattr(orig, "func", orig)
    if ret_idx:
        values, idx = rt[:-1], rt[-1]
    else:
        # the statement speaks about values *and* mask: obtain the mask by a shadow call
        kw = {k: p[k] for k in SIG[method]}
        kw["ret_idx"] = True
        try:
            sh = orig(**kw)
            values, idx = sh[:-1], sh[-1]
            same = all(M.same_values(u, v) for u, v in zip(rt, values))
        except Exception as exc:  # pragma: no cover - would be caught by the ret_idx=True cases
            same, values, idx = False, rt, None
            ctx.count(f"shadow_ret_idx_exception[{type(exc).__name__}]")
        ctx.check(mon + "values_without_mask", same, lambda: _desc(method, p),
                  message=f"downsample_{method}(ret_idx=False) returned other values than "
                          f"with ret_idx=True")
    # ------------------------------------------------------------- statement-derived oracle
    alias = None
    if method == "grid":
        key, sig = _alias_key(method, p)
        prev = _S.seen.setdefault(key, [])
        if any(s0 != sig and r0 is res for s0, r0 in prev):
            alias = M.M_ALIAS     # the memo answered with the result of a different input
        if not any(r0 is res for _, r0 in prev):
            prev.append((sig, res))
        if len(_S.seen) > 150:
            _S.seen.popitem(last=False)
        if any(v.dtype != a.dtype for v, a in zip(values, arrs)):
            ctx.count("returned_dtype_differs_from_input(not judged)")
    verdicts = M.judge(arrs, samples, rinv, values, idx)
    for rule, problem in verdicts.items():
        ctx.check(mon + rule, problem is None, lambda: _desc(method, p, {"mask": idx}),
                  finding=alias if problem is not None else None,
                  message=f"downsample_{method}: {problem}")
    # --------------------------------------------------------------------- reproducibility
    _S.perturb += 1
    reps = []
    try:
        if not _S.light:
            reps.append(("repeated call", orig(*args, **kwargs)))
        np.random.seed(_S.perturb % 1000 + 1)          # the routines must not depend on it
        reps.append(("fresh computation on a perturbed global random state",
                     fresh_fn(*args, **kwargs)))
    except Exception as exc:
        ctx.check(mon + "reproducible", False, lambda: _desc(method, p, {"exc": repr(exc)}),
                  message=f"downsample_{method}: the repetition raised {exc!r} although the "
                          f"first call returned")
    else:
        bad = [what for what, r in reps if not _same_result(res, r)]
        ctx.check(mon + "reproducible", not bad, lambda: _desc(method, p, {"mask": idx}),
                  finding=alias if bad else None,
                  message=f"downsample_{method}: {bad} differs from the first result")
    # --------------------------------------------------------------------- evidence
    n = int(arrs[0].size)
    nbad = n - int((~_inv(arrs)).sum())
    ctx.count(f"request_class[{method}:{M.request_class(samples, n - nbad, n)}"
              f"{':remove_invalid' if rinv else ''}]")
    if method == "grid" and n <= 5000:
        ctx.count(f"grid_branch[{M.grid_branch(arrs[0], arrs[1], samples, rinv)}]")
    return res


def _inv(arrs):
    bad = np.zeros(arrs[0].shape, dtype=bool)
    for v in arrs:
        bad |= M.invalid(v)
    return bad


def _mk_rand(orig):
    def downsample_rand(*args, **kwargs):
        return _observe("rand", orig, args, kwargs)
    downsample_rand.__doc__ = getattr(orig, "__doc__", None)
    return downsample_rand


def _mk_grid(orig):
    def downsample_grid(*args, **kwargs):
        return _observe("grid", orig, args, kwargs)
    downsample_grid.__doc__ = getattr(orig, "__doc__", None)
    if hasattr(orig, "func"):
        downsample_grid.func = orig.func
    return downsample_grid


def _scale(v, scale):
    if scale == "log":
        with np.errstate(all="ignore"):
            return np.log(v)
    return v


def _mk_scatter(orig):
    sig = inspect.signature(orig)

    def get_downsampled_scatter(self, *args, **kwargs):
        ctx = _S.ctx
        if ctx is None:
            return orig(self, *args, **kwargs)
        try:
            ba = sig.bind(self, *args, **kwargs)
            ba.apply_defaults()
            p = dict(ba.arguments)
            ok = (isinstance(p["downsample"], (int, np.integer))
                  and not isinstance(p["downsample"], (bool, np.bool_))
                  and 0 <= p["downsample"] < 2 ** 32
                  and p["xscale"] in ("linear", "log") and p["yscale"] in ("linear", "log")
                  and isinstance(p["xax"], str) and isinstance(p["yax"], str)
                  and p["xax"].lower() in self.features_scalar
                  and p["yax"].lower() in self.features_scalar)
        except Exception:
            ok = False
        if not ok:
            ctx.count("skipped_out_of_domain_call")
            return orig(self, *args, **kwargs)
        fa = np.array(self.filter.all, dtype=bool, copy=True)       # OLD snapshot
        x = np.asarray(self[p["xax"].lower()])
        y = np.asarray(self[p["yax"].lower()])
        req, rinv = int(p["downsample"]), bool(p["remove_invalid"])
        ctx.count("calls[get_downsampled_scatter]")

        def desc(extra=None):
            d = {"n_ds": len(self), "n_filtered": int(fa.sum()), "call":
                 {k: v for k, v in p.items() if k != "self"}, "x": x, "y": y, "filter_all": fa}
            d.update(extra or {})
            return d
        prev, _S.origin = _S.origin, "scatter"
        try:
            res = orig(self, *args, **kwargs)
        except Exception as exc:
            _S.origin = prev
            pred = M.predict_grid_defect(_scale(x[fa], p["xscale"]), _scale(y[fa], p["yscale"]),
                                         req, rinv)
            mech = M.match_defect(pred, exc)
            ctx.ev("scatter.no_exception")
            ctx.count(f"exceptions[scatter:{type(exc).__name__}:{mech or 'unexplained'}]")
            ctx.violation("scatter.no_exception", desc({"exc": repr(exc)}), finding=mech,
                          message=f"get_downsampled_scatter(downsample={req}, remove_invalid="
                                  f"{rinv}, scales={p['xscale']}/{p['yscale']}) on "
                                  f"{int(fa.sum())} filtered events raised {exc!r}")
            raise
        _S.origin = prev
        ctx.ev("scatter.no_exception")
        want = 3 if p["ret_mask"] else 2
        ok_shape = isinstance(res, tuple) and len(res) == want
        ctx.check("scatter.result_shape", ok_shape, lambda: desc({"result": repr(res)[:300]}),
                  message=f"get_downsampled_scatter returned {type(res).__name__}, expected a "
                          f"{want}-tuple")
        if not ok_shape:
            return res
        if p["ret_mask"]:
            xr, yr, mask = res
        else:
            kw = {k: v for k, v in p.items() if k != "self"}
            kw["ret_mask"] = True
            _S.origin = "scatter-shadow"
            try:
                xr, yr, mask = orig(self, **kw)
                same = M.same_values(xr, res[0]) and M.same_values(yr, res[1])
            except Exception as exc:
                same, xr, yr, mask = False, res[0], res[1], None
                ctx.count(f"shadow_ret_mask_exception[{type(exc).__name__}]")
            finally:
                _S.origin = prev
            ctx.check("scatter.values_without_mask", same, desc,
                      message="get_downsampled_scatter(ret_mask=False) returned other data "
                              "than with ret_mask=True")
        verdicts = M.judge_scatter(len(self), fa, x, y, req, p["xscale"], p["yscale"], rinv,
                                   xr, yr, mask)
        for rule, problem in verdicts.items():
            ctx.check("scatter." + rule, problem is None, lambda: desc({"mask": mask}),
                      message=f"get_downsampled_scatter: {problem}")
        bad = M.scaled_invalid(x, p["xscale"]) | M.scaled_invalid(y, p["yscale"])
        nf = int(fa.sum())
        ctx.count(f"request_class[scatter:{M.request_class(req, int((fa & ~bad).sum()), nf)}"
                  f"{':remove_invalid' if rinv else ''}]")
        ctx.count(f"scatter_filter[{'all' if nf == len(self) else 'none' if nf == 0 else 'some'}]")
        ctx.count(f"scatter_scales[{p['xscale']}/{p['yscale']}]")
        return res
    return get_downsampled_scatter


def _mk_update(orig):
    def update(self, rtdc_ds, *args, **kwargs):
        ctx = _S.ctx
        if ctx is None:
            return orig(self, rtdc_ds, *args, **kwargs)
        exc0 = _S.rand_exc
        prev, _S.origin = _S.origin, "limit"
        try:
            res = orig(self, rtdc_ds, *args, **kwargs)
        except Exception as exc:
            _S.origin = prev
            if _S.rand_exc != exc0:
                ctx.ev("limit.no_exception")
                ctx.violation("limit.no_exception", {"exc": repr(exc), "filtering":
                              dict(rtdc_ds.config["filtering"])},
                              message=f"Filter.update raised {exc!r} from downsample_rand")
            else:
                ctx.count("filter_update_exception_outside_downsampling")
            raise
        _S.origin = prev
        try:
            cfg = rtdc_ds.config["filtering"]
            limit = cfg["limit events"]
            if not cfg["enable filters"]:
                ctx.count("limit_not_judged[filters disabled]")
                return res
            if isinstance(limit, (bool, np.bool_)) or not isinstance(limit, (int, np.integer)) \
                    or not 0 <= limit < 2 ** 32:
                ctx.count("skipped_out_of_domain_call")
                return res
            passing = np.array(self.box & self.invalid & self.polygon & self.manual)
            got = np.array(self.all)
            n_pass = int(passing.sum())

            def desc():
                return {"limit": int(limit), "n": int(self.size), "n_passing": n_pass,
                        "n_all": int(got.sum()), "passing": passing, "all": got}
            if limit > 0:
                ctx.ev("limit.no_exception")
                ctx.check("limit.subset", not (got & ~passing).any(), desc,
                          message="'limit events' let events through that do not pass "
                                  "box & invalid & polygon & manual")
                exp = min(int(limit), n_pass)
                ctx.check("limit.count", int(got.sum()) == exp, desc,
                          message=f"'limit events'={limit} leaves {int(got.sum())} of {n_pass} "
                                  f"passing events, statement demands {exp}")
                ctx.count(f"limit_class[{'<' if limit < n_pass else '=' if limit == n_pass else '>'}"
                          f"passing{'(=1)' if limit == 1 else ''}]")
            else:
                ctx.check("limit.zero_means_no_limit", bool((got == passing).all()), desc,
                          message="'limit events'=0 changed the set of passing events")
        except Exception as exc:   # a monitor must never disturb the monitored code
            ctx.error("limit monitor", exc)
        return res
    return update


_installed = []


def install():
    if _installed:
        return _installed
    from dclab import downsampling
    from dclab.rtdc_dataset import core, filter as dfilter
    from vmon.contracts import wrap_function, wrap_method
    _installed.append(("rand", wrap_function(downsampling, "downsample_rand", _mk_rand)))
    _installed.append(("grid", wrap_function(downsampling, "downsample_grid", _mk_grid)))
    wrap_method(core.RTDCBase, "get_downsampled_scatter", _mk_scatter)
    wrap_method(dfilter.Filter, "update", _mk_update)
    return _installed


# ============================================================================ workloads
def _call(method, a, b, samples, rinv, ret_idx, style):
    """Client call through the module attribute (= through the monitor)."""
    from dclab import downsampling as D
    if method == "rand":
        f, lead = D.downsample_rand, (a,)
    else:
        f, lead = D.downsample_grid, (a, b)
    if style == 0:
        return f(*lead, samples, rinv, ret_idx)
    if style == 1:
        return f(*lead, samples=samples, remove_invalid=rinv, ret_idx=ret_idx)
    kw = {}
    if rinv:
        kw["remove_invalid"] = True
    if ret_idx:
        kw["ret_idx"] = True
    return f(*lead, samples, **kw)


def _nontrivial(ctx, kind, arrs, samples, rinv):
    bad = _inv(arrs)
    n, nb = int(arrs[0].size), int(bad.sum())
    n_el = n - nb if rinv else n
    if 0 < samples < n_el or (not rinv and nb and n - nb < samples <= n):
        h = hashlib.sha1()
        for v in arrs:
            h.update(np.ascontiguousarray(v).tobytes())
        ctx.mark_nontrivial([kind, h.hexdigest(), samples, rinv])
        return True
    return False


def _fn_case(ctx, idx):
    from vmon.gen import c16_gen as G
    rng = ctx.rng(idx, salt=1)
    shape, dtype, x, y = G.gen_arrays(rng, big=ctx.tier == "thorough" or idx % 16 == 0)
    n = int(x.size)
    method = "grid" if rng.random() < 0.6 else "rand"
    arrs = (x, y) if method == "grid" else (x,)
    nv = n - int(_inv(arrs).sum())
    return {"method": method, "a": x, "b": y if method == "grid" else None,
            "samples": G.gen_request(rng, n, nv), "rinv": bool(rng.random() < 0.5),
            "ret_idx": bool(rng.random() < 0.8), "style": int(rng.integers(0, 3)),
            "shape": shape, "dtype": dtype, "idx": idx}


def _run_fn_call(c):
    try:
        return _call(c["method"], c["a"], c["b"], c["samples"], c["rinv"], c["ret_idx"],
                     c["style"]), None
    except Exception as exc:
        return None, exc          # recorded by the monitor


def run_fn(ctx):
    from dclab.cached import Cache
    pending = collections.deque()

    def replay_pending(item):
        c, dig = item
        keep_case, ctx.case = ctx.case, c["idx"]
        _S.origin = "interleaved"
        try:
            res, exc = _run_fn_call(c)
        finally:
            _S.origin = "direct"
        ok = exc is None and _same_result(res, dig)
        ctx.check(c["method"] + ".reproducible_interleaved", ok,
                  lambda: {"case": {k: v for k, v in c.items()}, "exc": repr(exc)},
                  message=f"downsample_{c['method']}: repeating the call after "
                          f"interleaved other calls gave another result")
        ctx.case = keep_case

    for idx in ctx.case_ids():
        c = _fn_case(ctx, idx)
        arrs = (c["a"], c["b"]) if c["method"] == "grid" else (c["a"],)
        res, exc = _run_fn_call(c)
        nt = _nontrivial(ctx, "fn-" + c["method"], arrs, c["samples"], c["rinv"])
        ctx.count(f"fn_shape[{c['shape']}]")
        ctx.count(f"fn_dtype[{c['dtype']}]")
        n = int(c["a"].size)
        ctx.count("fn_n[" + ("0" if n == 0 else "1-2" if n < 3 else "3-24" if n < 25 else
                             "25-399" if n < 400 else "400-3999" if n < 4000 else
                             "4000-29999" if n < 30000 else ">=30000") + "]")
        if exc is None and idx % 3 == 0:
            pending.append((c, res))
        elif exc is None and idx % 3 == 1 and n >= 2 and c["a"].flags.writeable:
            # the same array objects, modified in place, are a different input: the second
            # call is judged by the monitor like any other (values / mask of the current data)
            rng2 = ctx.rng(idx, salt=11)
            a = c["a"]
            how = int(rng2.integers(0, 3))
            with np.errstate(all="ignore"):
                if how == 0 and a.dtype.kind == "f":
                    a[rng2.random(n) < 0.3] = np.nan
                elif how == 1:
                    a[:] = a[::-1].copy()
                else:
                    a[:] = (a * 3 + 1).astype(a.dtype)
            _S.origin = "modified in place"
            try:
                _run_fn_call(c)
            finally:
                _S.origin = "direct"
            ctx.count(f"calls_after_in_place_modification[{how}]")
        if idx % 211 == 0:
            Cache.clear_cache()
            ctx.count("cache_cleared")
        if len(pending) > 6:
            replay_pending(pending.popleft())
        if idx % 997 == 0 and nt:
            ctx.sample({"kind": "fn", "method": c["method"], "shape": c["shape"], "n": n,
                        "n_invalid": int(_inv(arrs).sum()), "samples": c["samples"],
                        "remove_invalid": c["rinv"], "a_head": c["a"][:6]})
    while pending:
        replay_pending(pending.popleft())


def _decode(i, k):
    n = 0
    while i >= k ** n:
        i -= k ** n
        n += 1
    digits = []
    for _ in range(n):
        i, t = divmod(i, k)
        digits.append(t)
    return digits


def run_exh(ctx, spec):
    from vmon.gen import c16_gen as G
    _S.light = True
    grid = spec["kind"] == "exh_grid"
    for idx in ctx.case_ids():
        if grid:
            a, b = G.exhaustive_grid_case(idx, spec["max_len"])
            arrs = (a, b)
        else:
            a = np.array([G.ALPHA1[t] for t in _decode(idx, len(G.ALPHA1))], dtype=np.float64)
            b, arrs = None, (a,)
        n = a.size
        for samples in range(0, n + 3):
            for rinv in (False, True):
                c = {"method": "grid" if grid else "rand", "a": a, "b": b, "samples": samples,
                     "rinv": rinv, "ret_idx": True, "style": 0}
                _S.origin = "exhaustive"
                _run_fn_call(c)
                _S.origin = "direct"
                _nontrivial(ctx, spec["kind"], arrs, samples, rinv)
                ctx.count(f"exhaustive_calls[{spec['kind']}]")
        ctx.count(f"exhaustive_arrays[{spec['kind']}:len{n}]")
    _S.light = False


def _build_ds(cols, recipe, backing="dict", keep=None):
    """backing: the same data as in-memory dict dataset, as .rtdc file, or as hierarchy child
    of an unfiltered dict dataset (`keep` collects objects that must stay alive)."""
    import dclab
    from dclab.polygon_filter import PolygonFilter
    if backing == "hdf5":
        from vmon import boot
        path = boot.scratch() / f"c16_{os.getpid()}_{_S.perturb}_{id(cols) % 9973}.rtdc"
        if path.exists():
            path.unlink()
        with dclab.RTDCWriter(path, mode="reset") as hw:
            hw.store_metadata({"experiment": {"sample": "c16", "run index": 1},
                               "imaging": {"pixel size": 0.34},
                               "setup": {"channel width": 20.0, "chip region": "channel",
                                         "flow rate": 0.04, "medium": "water"}})
            for k, v in cols.items():
                hw.store_feature(k, v.copy())
        ds = dclab.new_dataset(path)
        if keep is not None:
            keep.append(path)
    elif backing == "child":
        root = dclab.new_dataset({k: v.copy() for k, v in cols.items()})
        ds = dclab.new_dataset(root)
        if keep is not None:
            keep.append(root)
    else:
        ds = dclab.new_dataset({k: v.copy() for k, v in cols.items()})
    cfg = ds.config["filtering"]
    cfg["enable filters"] = recipe["enable"]
    cfg["remove invalid events"] = recipe["remove_invalid_events"]
    for f, lo, hi in recipe["box"]:
        cfg[f + " min"], cfg[f + " max"] = lo, hi
    if recipe["manual"] is not None:
        ds.filter.manual[recipe["manual"]] = False
    if recipe["polygon"] is not None:
        pf = PolygonFilter(axes=tuple(recipe["polygon"]["axes"]),
                           points=np.array(recipe["polygon"]["points"]),
                           inverted=recipe["polygon"]["inverted"])
        # not `= [id]`: the config parser drops a list item 0 (`if it:` in fintlist), which
        # silently ignores the first polygon filter of a process - a C03 matter
        cfg["polygon filters"].append(pf.unique_id)
    cfg["limit events"] = recipe["limit"]
    ds.apply_filter()
    return ds


def _scatter(ds, p):
    try:
        return ds.get_downsampled_scatter(**p), None
    except Exception as exc:
        return None, exc         # recorded by the monitor


def run_ds(ctx):
    from dclab.cached import Cache
    from dclab.polygon_filter import PolygonFilter
    from vmon.gen import c16_gen as G
    for idx in ctx.case_ids():
        rng = ctx.rng(idx, salt=2)
        n, feats, cols, shapes, recipe = G.gen_dataset(rng, big=ctx.tier == "thorough")
        try:
            keep = []
            backing = str(rng.choice(["dict", "dict", "hdf5", "child"]))
            if n == 0 or any(v.dtype.kind not in "fiu" or v.ndim != 1 for v in cols.values()):
                backing = "dict"          # (an .rtdc file cannot hold zero events)
            ds = _build_ds(cols, recipe, backing=backing, keep=keep)
            ctx.count(f"ds_backing[{backing}]")
            fa = np.array(ds.filter.all)
            nf = int(fa.sum())
            if recipe["enable"] and recipe["remove_invalid_events"]:
                # definition: with invalid-event removal no selected event has nan / inf in
                # any scalar feature (whatever container serves the feature data)
                inv = np.zeros(n, dtype=bool)
                for v in cols.values():
                    if v.dtype.kind == "f":
                        inv |= ~np.isfinite(v)
                ctx.check("limit.invalid_removed", not (fa & inv).any(),
                          lambda: {"recipe": recipe, "n": n, "backing": backing,
                                   "selected_invalid_events": np.flatnonzero(fa & inv)[:10],
                                   "n_invalid": int(inv.sum())},
                          message=f"{int((fa & inv).sum())} selected events hold nan/inf although "
                                  f"'remove invalid events' is set ({backing} dataset)")
            ctx.count("ds_filters[" + "+".join(
                [k for k, on in (("box", recipe["box"]), ("manual", recipe["manual"] is not None),
                                 ("polygon", recipe["polygon"]), ("limit", recipe["limit"]),
                                 ("invalid", recipe["remove_invalid_events"]),
                                 ("disabled", not recipe["enable"])) if on] or ["none"]) + "]")
            calls = [G.gen_scatter_call(rng, feats, nf) for _ in range(int(rng.integers(2, 6)))]
            first = []
            for p in calls:
                res, exc = _scatter(ds, p)
                first.append((res, exc))
                if exc is None:
                    x, y = np.asarray(ds[p["xax"]]), np.asarray(ds[p["yax"]])
                    xs, ys = _scale(x[fa], p["xscale"]), _scale(y[fa], p["yscale"])
                    if _nontrivial(ctx, "ds", (xs, ys), p["downsample"], p["remove_invalid"]) \
                            and 0 < nf < n:
                        ctx.count("ds_nontrivial_with_partial_filter")
            if rng.random() < 0.3:
                Cache.clear_cache()
                ctx.count("cache_cleared")
            # repetition after the interleaved other calls, on the same and on a rebuilt dataset
            ds2 = _build_ds(cols, recipe, backing=backing, keep=keep)
            same_filter = M.same_bits(np.array(ds2.filter.all), fa)
            ctx.check("limit.reproducible", same_filter,
                      lambda: {"recipe": recipe, "n": n, "all_1": fa,
                               "all_2": np.array(ds2.filter.all)},
                      message="an identically built dataset has another filter.all")
            for p, (res, exc) in zip(calls, first):
                if exc is not None:
                    continue
                for what, d in (("same dataset", ds), ("rebuilt dataset", ds2)):
                    r2, e2 = _scatter(d, p)
                    ok = e2 is None and _same_result(res, r2)
                    ctx.check("scatter.reproducible", ok,
                              lambda: {"call": p, "n": n, "recipe": recipe, "exc": repr(e2),
                                       "first": res, "second": r2},
                              message=f"get_downsampled_scatter repeated on the {what} after "
                                      f"interleaved calls gave another result")
            if idx % 499 == 0:
                ctx.sample({"kind": "ds", "n": n, "n_filtered": nf, "features": feats,
                            "shapes": shapes, "limit": recipe["limit"], "calls": calls[:2]})
        except Exception as exc:
            ctx.error(f"ds case {idx}", exc)
        finally:
            PolygonFilter.clear_all_filters()


def run_limit(ctx):
    from dclab.polygon_filter import PolygonFilter
    from vmon.gen import c16_gen as G
    for idx in ctx.case_ids():
        rng = ctx.rng(idx, salt=3)
        n, feats, cols, shapes, recipe = G.gen_dataset(rng, big=ctx.tier == "thorough")
        recipe = dict(recipe, enable=True, limit=0)
        try:
            ds = _build_ds(cols, recipe)
            passing = np.array(ds.filter.all)
            npass = int(passing.sum())
            cands = [1, 2, npass - 1, npass, npass + 1, 2 * npass + 1, n, n + 1, npass // 2,
                     10 ** 5]
            seq = [max(int(v), 0) for v in rng.choice(cands, 3)] + \
                  [int(rng.integers(1, n + 3)), 0]
            rng.shuffle(seq)
            results = {}
            for limit in seq + seq[:2]:
                ds.config["filtering"]["limit events"] = limit
                ds.apply_filter()                      # judged by the Filter.update monitor
                got = np.array(ds.filter.all)
                if limit in results:
                    ctx.check("limit.reproducible", M.same_bits(results[limit], got),
                              lambda: {"limit": limit, "sequence": seq, "n": n,
                                       "n_passing": npass, "first": results[limit],
                                       "again": got},
                              message=f"'limit events'={limit} selected other events when "
                                      f"applied again after other limits")
                results[limit] = got
                if 0 < limit < npass:
                    ctx.mark_nontrivial(["limit", hashlib.sha1(passing.tobytes()).hexdigest(),
                                         limit])
                # the limited filter feeds the scatter plot
                if feats and rng.random() < 0.3:
                    p = G.gen_scatter_call(rng, feats, int(got.sum()))
                    _scatter(ds, p)
            ds2 = _build_ds(cols, dict(recipe, limit=seq[0]))
            ctx.check("limit.reproducible", M.same_bits(np.array(ds2.filter.all),
                                                        results[seq[0]]),
                      lambda: {"limit": seq[0], "n": n, "n_passing": npass,
                               "first": results[seq[0]], "rebuilt": np.array(ds2.filter.all)},
                      message="a rebuilt dataset with the same limit selected other events")
            # ---- the filters are reset on the long-lived dataset (its filter arrays have
            # been read before); limits and scatter requests afterwards must give what a
            # dataset that never had other filters gives
            if idx % 2 == 0:
                ds.reset_filter()
                # (reset_filter() puts the switches, the limit and the polygon list back to
                # their defaults and clears the manual exclusions; range settings stay in the
                # configuration - the reference dataset gets exactly the current settings)
                def fresh_like(d):
                    import dclab
                    ref_ = dclab.new_dataset({k: v.copy() for k, v in cols.items()})
                    for k_, v_ in dict(d.config["filtering"]).items():
                        if k_ != "hierarchy parent":
                            ref_.config["filtering"][k_] = v_
                    ref_.apply_filter()
                    return ref_
                for limit in [int(v) for v in rng.choice([1, 2, n // 2, n - 1, n, n + 3], 2)]:
                    limit = max(limit, 0)
                    ds.config["filtering"]["limit events"] = limit
                    ds.apply_filter()
                    got = np.array(ds.filter.all)
                    ref = fresh_like(ds)
                    exp = np.array(ref.filter.all)
                    ctx.check("limit.reproducible", M.same_bits(got, exp),
                              lambda: {"limit": limit, "n": n, "history": "filters, limits, "
                                       "reset_filter(), limit", "selected": int(got.sum()),
                                       "fresh_dataset_selects": int(exp.sum()),
                                       "after_reset": got, "fresh": exp},
                              message=f"after reset_filter() 'limit events'={limit} selects "
                                      f"{int(got.sum())} events, a fresh dataset {int(exp.sum())}")
                    if feats:
                        p = G.gen_scatter_call(rng, feats, int(exp.sum()))
                        r1, e1 = _scatter(ds, p)
                        r2, e2 = _scatter(ref, p)
                        ok = (e1 is None) == (e2 is None) and (e1 is not None
                                                               or _same_result(r1, r2))
                        ctx.check("scatter.reproducible", ok,
                                  lambda: {"call": p, "n": n, "history": "reset_filter()",
                                           "exc_after_reset": repr(e1), "exc_fresh": repr(e2),
                                           "after_reset": r1, "fresh": r2},
                                  message="get_downsampled_scatter after reset_filter() "
                                          "differs from a fresh dataset")
                ctx.count("limit_cases_with_reset_filter")
            if idx % 3 == 1 and npass >= 4:
                # the limit of a hierarchy member is the member's own setting: it keeps
                # selecting min(limit, eligible) of the member's events while the parent's
                # limit (inherited once, when the member was created) changes
                import dclab
                root = _build_ds(cols, dict(recipe, limit=int(rng.choice([0, npass - 1]))))
                child = dclab.new_dataset(root)
                own = int(rng.integers(1, npass))
                child.config["filtering"]["limit events"] = own
                child.apply_filter()
                hist = [["child limit", own]]
                for plim in [int(v) for v in rng.choice([0, npass - 1, npass, max(own - 1, 1),
                                                         own + 1, n + 5], 3)]:
                    root.config["filtering"]["limit events"] = plim
                    hist.append(["parent limit", plim])
                    if rng.random() < 0.5:
                        child.rejuvenate()
                    else:
                        child.apply_filter()
                    elig = len(child)
                    got = np.array(child.filter.all)
                    exp_n = min(own, elig)
                    ctx.check("limit.count", len(got) == elig and int(got.sum()) == exp_n,
                              lambda: {"history": hist, "eligible_in_member": elig,
                                       "selected": int(got.sum()), "member_limit_set": own,
                                       "member_limit_now":
                                           child.config["filtering"]["limit events"]},
                              message=f"hierarchy member with its own 'limit events'={own} and "
                                      f"{elig} eligible events selects {int(got.sum())}, "
                                      f"statement demands {exp_n}")
                    p = {"xax": feats[0], "yax": feats[1 % len(feats)], "downsample": 0}
                    r1, e1 = _scatter(child, p)
                    if e1 is None:
                        ctx.check("scatter.count", len(r1[0]) <= exp_n,
                                  lambda: {"history": hist, "returned": len(r1[0]),
                                           "selected_expected": exp_n},
                                  message="the scatter data of a limited hierarchy member holds "
                                          "more events than its limit selects")
                ctx.count("limit_cases_hierarchy_member_own_limit")
            if idx % 499 == 0:
                ctx.sample({"kind": "limit", "n": n, "n_passing": npass, "limits": seq})
        except Exception as exc:
            ctx.error(f"limit case {idx}", exc)
        finally:
            PolygonFilter.clear_all_filters()


def run_alias(ctx):
    """Two inputs with identical bytes but different dtypes are different inputs (D09)."""
    from dclab.cached import Cache
    pairs = [(np.int64, np.float64), (np.float64, np.int64), (np.int32, np.float32),
             (np.uint32, np.float32)]
    for idx in ctx.case_ids():
        rng = ctx.rng(idx, salt=4)
        Cache.clear_cache()
        t1, t2 = pairs[idx % len(pairs)]
        n = int(rng.integers(4, 60))
        if np.dtype(t1).kind in "iu":
            a1 = rng.integers(1, 5000, n).astype(t1)
            b1 = rng.integers(1, 5000, n).astype(t1)
        else:
            # floats whose integer view is small: subnormal numbers
            a1 = rng.integers(1, 5000, n).astype(np.int64).view(np.float64)
            b1 = rng.integers(1, 5000, n).astype(np.int64).view(np.float64)
        a2, b2 = a1.view(t2), b1.view(t2)
        samples = int(rng.integers(1, n))
        rinv = bool(rng.random() < 0.5)
        _S.origin = "alias"
        for a, b in ((a1, b1), (a2, b2)):
            _run_fn_call({"method": "grid", "a": a, "b": b, "samples": samples, "rinv": rinv,
                          "ret_idx": True, "style": 0})
        _S.origin = "direct"
        ctx.mark_nontrivial(["alias", a1.tobytes().hex(), str(t1), samples, rinv])
        ctx.count(f"alias_pairs[{np.dtype(t1)}->{np.dtype(t2)}]")


def run_asan(ctx):
    """Sanitizer adjunct: the fn workload on the ASan/UBSan build, behavioural monitors off
    (they decide in the ordinary shards); an evaluation = a call the process survived."""
    import dclab.downsampling as D
    so = str(getattr(D, "__file__", ""))
    where = "overlay" if so.startswith(os.environ.get("VERIF_REPO", "?")) else "NOT-THE-OVERLAY"
    ctx.count(f"sanitizer_extension_loaded_from[{where}]")
    if where != "overlay":
        raise RuntimeError(f"sanitizer shard loaded {so}")
    for idx in ctx.case_ids():
        c = _fn_case(ctx, idx)
        res, exc = _run_fn_call(c)
        ctx.ev("sanitizer.no_report")
        ctx.count(f"sanitizer_calls[{c['method']}:{'ok' if exc is None else type(exc).__name__}]")
        if idx % 4 == 0 and c["method"] == "grid":
            ctx.mark_nontrivial(["asan", idx])


def run(spec, ctx):
    if spec["kind"] == "asan":
        _S.ctx = None
        return run_asan(ctx)
    _S.ctx = ctx
    sites = install()
    for name, s in sites:
        ctx.count(f"rebound_sites[{name}]", len(s))
    kind = spec["kind"]
    if kind == "fn":
        run_fn(ctx)
    elif kind in ("exh_rand", "exh_grid"):
        run_exh(ctx, spec)
    elif kind == "ds":
        run_ds(ctx)
    elif kind == "limit":
        run_limit(ctx)
    elif kind == "alias":
        run_alias(ctx)
    else:
        raise ValueError(kind)
