"""C18 - contour-, image- and fluorescence-derived features obey their definitions.

Monitors = recording wrappers on the real functions of dclab.features.* (rebound at every
import site, so calls made by the ancillary features of datasets are observed as well).
Every wrapper evaluates context-free oracles on the call it sees:

* get_contour            refill(contour) == mask for connected hole-free masks, all contour
                         points are boundary pixels of the mask
* cont_moments_cv        area and central moments translation-invariant, swap with the axes
* get_inert_ratio_raw/cvx translation-invariant, reciprocal under axis exchange
* get_inert_ratio_prnc   translation-/rotation-invariant, >= 1
* get_tilt               translation-invariant
* get_volume             V(s*pix) == s^3 V(pix), V(reversed contour) == -V
* get_bright/_bc/_perc   mean / sd / percentiles of (image - bg)[mask] recomputed in exact
                         integer arithmetic, offsets shift one-to-one
* correct_crosstalk      closed-form un-mixing of measured = S^T true

The driver generates the workload and adds the oracles that need the synthesised truth
(ellipsoid volumes, crosstalk round trip, dataset features vs. definitions).
"""
import inspect
import math
import re

import numpy as np

PROP = "C18"
LEVEL = "exploration"
RULE = ("contour: random connected hole-free masks (4-/8-connected blobs, one pixel wide walks, "
        "lines, rectangles, discretised ellipses, combs, tiny shapes; interior, border-touching, "
        "full-frame, cut by the border) -> get_contour and the contour features; exhaustive: every "
        "connected hole-free mask of a small grid, as full frame and with a margin; poly: simple "
        "polygons (star, convex, rectangles, ellipses, integer grid, triangles) -> moments, inertia "
        "ratios, tilt, volume; ellipse: discretised and polygonal ellipses -> volume/prnc against "
        "the analytic values; bright: images/backgrounds/offsets in every container type; ctc: "
        "non-negative spill matrices with cond < 1e6; ds: in-memory and HDF5 datasets. "
        "non-trivial = mask with >= 3 pixels / polygon with area / mask with >= 2 pixels under a "
        "non-constant image / spill matrix with a non-zero off-diagonal; distinct by content hash")
ASSUMPTIONS = [
    "refilling = plotting the contour points and scipy.ndimage.binary_fill_holes (the definition "
    "used by dclab's own fmt_tdms MaskColumn and by tests/test_feat_contour.py)",
    "connected = one 8-neighbourhood component, hole-free = binary_fill_holes leaves the mask "
    "unchanged (the connectivity convention of get_contour: fully_connected='high')",
    "percentiles use linear interpolation between order statistics (numpy default)",
    "floating point laws are judged with conditioning-aware tolerances (eps * n * rmax^4 for second "
    "moments, calibrated on the unchanged tree: observed errors <= 3% of the bound); cases whose "
    "tolerance would exceed 1e-3 are skipped and counted",
    "volume/prnc convergence bounds were calibrated once on the unchanged tree and doubled: "
    "|dV/V| <= 3.6/min(a,b) for discretised ellipses (semi-axes in pixels), <= 20/n^2 for n-gons, "
    "|prnc/(a/b) - 1| <= 2/min(a,b), |inert_ratio_raw|cvx/(a/b) - 1| <= 2.7/min(a,b)",
]
LEVEL_TEXT = ("Held on the observed executions: each monitored call of the feature functions "
              "(direct and through dataset ancillary features) satisfied the algebraic law or "
              "equalled the independently recomputed definition. Exploration over generated shapes, "
              "images and matrices plus exhaustive small mask grids; not a proof.")
LEVEL_NOTE = ("trusted: numpy/scipy.ndimage (labelling, hole filling), the generators, the "
              "tolerances listed under assumptions. Not judged (don't-care): masks with holes or "
              "several components, empty masks, images smaller than 2x2 (marching squares refuses "
              "them), contours without area (inertia) or with < 4 points (volume NaN documented), "
              "non-integer images, non-bool masks for brightness, negative or near-singular "
              "(cond >= 1e6) spill matrices, ill-conditioned moment cases.")
TECHNIQUE = ("runtime monitoring: recording wrappers with metamorphic and reference oracles on "
             "dclab.features.*; differential dataset-vs-definition checks")
MIN_EVALS = {"contour_refill": 300, "contour_on_boundary": 200, "inertia_translation": 300,
             "inertia_swap": 300, "prnc_rotation": 150, "prnc_ge_one": 150,
             "area_translation": 100, "volume_cube": 300, "volume_sign": 200,
             "volume_convergence": 50, "bright_def": 100, "bright_bc_def": 100,
             "bright_perc_def": 100, "offset_shift": 100, "ctc_unmix": 100,
             "ctc_roundtrip": 100, "ds_matches_definition": 50, "ds_access": 100,
             "inertia_ellipse": 50, "prnc_ellipse": 50, "tilt_translation": 100}
WATCHDOG_S = {"quick": 300, "thorough": 1500}


def plan(tier, seed):
    quick = tier == "quick"
    shards = []

    def add(kind, n, k, **extra):
        per = -(-n // k)
        for i in range(k):
            lo, hi = i * per, min(n, (i + 1) * per)
            if lo < hi:
                shards.append(dict({"kind": kind, "cases": {"start": lo, "stop": hi}}, **extra))
    if quick:
        add("contour", 1000, 6)
        add("poly", 400, 3)
        add("ellipse", 160, 1)
        add("bright", 360, 2)
        add("ctc", 400, 1)
        add("ds", 60, 2)
        add("exhaustive", 2 ** 9, 1, grid=[3, 3])
        add("tdms", 12, 1)
    else:
        add("contour", 40000, 16)
        add("poly", 16000, 8)
        add("ellipse", 4000, 4)
        add("bright", 8000, 4)
        add("ctc", 8000, 2)
        add("ds", 1600, 8)
        add("exhaustive", 2 ** 16, 4, grid=[4, 4])
        add("exhaustive", 2 ** 15, 2, grid=[3, 5])
        add("exhaustive", 2 ** 14, 1, grid=[2, 7])
        add("tdms", 240, 2)
        shards.append({"kind": "sanitizer", "cases": [0]})
    return shards


# --------------------------------------------------------------------------- state
class _State:
    ctx = None
    rng = None
    depth = 0
    orig = {}


def _rng():
    if _State.rng is None:
        _State.rng = np.random.default_rng(0)
    return _State.rng


def _mask_rows(m):
    return ["".join("#" if v else "." for v in row) for row in np.asarray(m, dtype=bool)]


def _bucket(n, edges=(1, 2, 3, 5, 10, 20, 50, 100, 200, 500)):
    for e in edges:
        if n <= e:
            return f"<={e}"
    return f">{edges[-1]}"


def _fin(x):
    try:
        return float(x)
    except Exception:
        return float("nan")


# ------------------------------------------------------------------- wrapper plumbing
def _arg_digests(a, kw):
    """sha1 of every writeable ndarray passed directly or inside a list/tuple argument."""
    import hashlib
    out = {}

    def visit(key, v, depth=0):
        if isinstance(v, np.ndarray):
            if v.size <= 2_000_000:
                out[key] = hashlib.sha1(np.ascontiguousarray(v).tobytes()).hexdigest()
        elif isinstance(v, (list, tuple)) and depth == 0 and len(v) <= 64:
            for i, w in enumerate(v):
                visit(f"{key}[{i}]", w, 1)
    for i, v in enumerate(a):
        visit(f"arg{i}", v)
    for k, v in kw.items():
        visit(k, v)
    return out


def _monitored(name, judge):
    def make(orig):
        sig = inspect.signature(orig)
        _State.orig[name] = orig

        def wrapper(*a, **kw):
            st = _State
            if st.ctx is None or st.depth > 0:
                return orig(*a, **kw)
            st.depth += 1
            try:
                exc = None
                out = None
                before = _arg_digests(a, kw)
                try:
                    out = orig(*a, **kw)
                except BaseException as e:  # dclab's contour error derives from BaseException
                    if isinstance(e, (KeyboardInterrupt, SystemExit, MemoryError)):
                        raise
                    exc = e
                st.ctx.count(f"calls[{name}]")
                # a feature function must not change the data it is given: every law about
                # "the same contour / image" presupposes that
                after = _arg_digests(a, kw)
                changed = [k for k in before if before[k] != after.get(k)]
                st.ctx.check("inputs_unmodified", not changed,
                             lambda: {"function": name, "changed_arguments": changed},
                             message=f"{name} modified its input argument(s) {changed} in place")
                try:
                    ba = sig.bind(*a, **kw)
                    ba.apply_defaults()
                    judge(st.ctx, orig, dict(ba.arguments), out, exc)
                except Exception as je:   # a monitor must never disturb dclab
                    st.ctx.error(f"monitor:{name}", je)
            finally:
                st.depth -= 1
            if exc is not None:
                raise exc
            return out
        wrapper.__name__ = getattr(orig, "__name__", name)
        wrapper.__doc__ = getattr(orig, "__doc__", None)
        return wrapper
    return make


_installed = False


def install():
    global _installed
    if _installed:
        return {}
    _installed = True
    from dclab.features import (bright, bright_bc, bright_perc, contour, fl_crosstalk,
                                inert_ratio, volume)
    from vmon.contracts import wrap_function
    sites = {}
    for mod, fname, judge in [
            (contour, "get_contour", judge_get_contour),
            (inert_ratio, "cont_moments_cv", judge_moments),
            (inert_ratio, "get_inert_ratio_raw", _judge_ratio("raw")),
            (inert_ratio, "get_inert_ratio_cvx", _judge_ratio("cvx")),
            (inert_ratio, "get_inert_ratio_prnc", judge_prnc),
            (inert_ratio, "get_tilt", judge_tilt),
            (volume, "get_volume", judge_volume),
            (bright, "get_bright", judge_bright),
            (bright_bc, "get_bright_bc", judge_bright_bc),
            (bright_perc, "get_bright_perc", judge_bright_perc),
            (fl_crosstalk, "correct_crosstalk", judge_ctc)]:
        sites[fname] = wrap_function(mod, fname, _monitored(fname, judge))
    return sites


# --------------------------------------------------------------------------- contour
def _outcome(orig, m):
    try:
        return ("cont", orig(m))
    except BaseException as e:
        if isinstance(e, (KeyboardInterrupt, SystemExit, MemoryError)):
            raise
        return ("exc", type(e).__name__, repr(e)[:200])


def judge_mask(ctx, m, outcome):
    """The refill law for one 2D mask and the observed outcome of get_contour."""
    from vmon.model import c18_ref as R
    mb = np.asarray(m)
    if mb.ndim != 2 or min(mb.shape) < 2:
        ctx.count("skipped_dc[image smaller than 2x2]")
        return
    if mb.dtype != bool:
        if not np.isin(mb, (0, 1)).all():
            ctx.count("skipped_dc[mask not binary 0/1]")
            return
        mb = mb.astype(bool)
    if not mb.any():
        ctx.count("skipped_dc[empty mask]")
        return
    if not (R.is_connected8(mb) and R.is_holefree(mb)):
        ctx.count("skipped_dc[holes or several components]")
        return
    border = R.touches_border(mb)
    tag = "border" if border else "interior"
    ctx.count(f"contour_masks[{tag}]")
    ctx.count(f"contour_mask_pixels[{_bucket(int(mb.sum()))}]")
    if not R.is_connected4(mb):
        ctx.count("contour_masks[connected by diagonal links only]")
    if border:
        sides = int(mb[0].any()) + int(mb[-1].any()) + int(mb[:, 0].any()) + int(mb[:, -1].any())
        ctx.count(f"contour_border_sides[{sides}]")

    def wit(extra):
        return dict({"mask": _mask_rows(mb), "shape": list(mb.shape),
                     "touches_border": border}, **extra)

    if outcome[0] == "exc":
        key = R.classify_contour_failure(mb, ("exc", outcome[1]))
        ctx.count(f"contour_failure[{tag}][{outcome[1]}]")
        ctx.check("contour_refill", False, wit({"exception": outcome[2]}), finding=key,
                  message=f"get_contour raised {outcome[2]} for a connected hole-free "
                          f"{tag} mask of {int(mb.sum())} px")
        return
    c = np.asarray(outcome[1])
    good_form = (c.ndim == 2 and c.shape[1] == 2 and c.shape[0] >= 1
                 and np.issubdtype(c.dtype, np.integer)
                 and c[:, 0].min() >= 0 and c[:, 1].min() >= 0
                 and c[:, 0].max() < mb.shape[1] and c[:, 1].max() < mb.shape[0])
    if not good_form:
        ctx.check("contour_refill", False, wit({"contour": c}),
                  message="contour is not an integer (n, 2) array of in-image (x, y) points")
        return
    re = R.refill(c, mb.shape)
    ok = bool(np.array_equal(re, mb))
    key = None
    if not ok:
        key = R.classify_contour_failure(mb, ("cont", c))
        ctx.count(f"contour_failure[{tag}][refill differs]")
    ctx.check("contour_refill", ok,
              lambda: wit({"contour_xy": c.tolist()[:120], "refilled": _mask_rows(re),
                           "missing_px": int((mb & ~re).sum()), "extra_px": int((re & ~mb).sum())}),
              finding=key,
              message=f"refilling the contour of a {tag} mask loses {int((mb & ~re).sum())} and "
                      f"adds {int((re & ~mb).sum())} of {int(mb.sum())} px")
    bp = R.boundary_pixels(mb)
    onb = bool(bp[c[:, 1], c[:, 0]].all())
    ctx.check("contour_on_boundary", onb,
              lambda: wit({"contour_xy": c.tolist()[:120]}),
              message="contour contains points that are not boundary pixels of the mask")


def judge_get_contour(ctx, orig, args, out, exc):
    mask = args["mask"]
    if isinstance(mask, np.ndarray) and mask.ndim == 2:
        oc = ("cont", out) if exc is None else ("exc", type(exc).__name__, repr(exc)[:200])
        judge_mask(ctx, mask, oc)
        return
    try:
        n = len(mask)
    except Exception:
        return
    for i in range(n):
        mi = np.asarray(mask[i])
        if exc is None:
            judge_mask(ctx, mi, ("cont", out[i]))
        else:
            judge_mask(ctx, mi, _outcome(orig, mi))


# --------------------------------------------------------------------------- inertia
def _contours(cont):
    """[(index or None, ndarray)] of the contours that can be retrieved."""
    if isinstance(cont, np.ndarray):
        return [(None, cont)]
    out = []
    try:
        n = len(cont)
    except Exception:
        return out
    for i in range(n):
        try:
            out.append((i, np.asarray(cont[i])))
        except BaseException as e:
            if isinstance(e, (KeyboardInterrupt, SystemExit, MemoryError)):
                raise
    return out


def _pick(out, i):
    return _fin(out if i is None else out[i])


def _shift_for(c, rng):
    mag = [5, 50, 1000][int(rng.integers(3))]
    if np.issubdtype(c.dtype, np.integer):
        d = rng.integers(-mag, mag + 1, 2)
        if not d.any():
            d[0] = 1
        return d.astype(c.dtype)
    return rng.uniform(-mag, mag, 2)


def _prep(ctx, c, what):
    """Conditioning of an inertia case: None (don't care) or (A, mu20, mu02, mu11, lam)."""
    from vmon.model import c18_ref as R
    if c.ndim != 2 or c.shape[1] != 2 or c.shape[0] < 3 or not np.isfinite(c.astype(float)).all():
        ctx.count(f"skipped_dc[{what}: fewer than 3 points]")
        return None
    cm = R.centred_moments(c)
    if cm is None or cm[0] < 1e-3 or cm[4] <= 0:
        ctx.count(f"skipped_dc[{what}: contour without area]")
        return None
    return cm


def _close(a, b, tol):
    if math.isnan(a) or math.isnan(b):
        return math.isnan(a) and math.isnan(b)
    return abs(a - b) <= tol * max(abs(a), abs(b))


def _relbucket(ctx, name, a, b):
    if a == b or math.isnan(a) or math.isnan(b):
        e = 0.0
    else:
        e = abs(a - b) / max(abs(a), abs(b))
    k = "0" if e == 0 else f"1e{max(-17, int(math.floor(math.log10(e))))}"
    ctx.count(f"relerr[{name}][{k}]")


def _no_exc(ctx, name, args, exc, cont):
    """Exceptions of feature functions called with plain arrays are violations; exceptions
    that come out of a lazy contour container are judged where the contour is computed."""
    if exc is None:
        return True
    plain = isinstance(cont, np.ndarray) or (isinstance(cont, (list, tuple))
                                             and all(isinstance(c, np.ndarray) for c in cont))
    if plain:
        ctx.check("no_exception", False, {"function": name, "exc": repr(exc)[:300]},
                  message=f"{name} raised {exc!r}")
    else:
        ctx.count(f"exception_from_lazy_container[{name}]")
    return False


def _judge_ratio(name):
    def judge(ctx, orig, args, out, exc):
        from vmon.model import c18_ref as R
        cont = args["cont"]
        if not _no_exc(ctx, f"get_inert_ratio_{name}", args, exc, cont):
            return
        if isinstance(cont, np.ndarray):
            ctx.ev("no_exception")
        rng = _rng()
        for i, c in _contours(cont):
            v = _pick(out, i)
            cm = _prep(ctx, c, f"inert_ratio_{name}")
            if cm is None:
                continue
            A, mu20, mu02, mu11, lam = cm
            d = _shift_for(c, rng)
            ct = c + d
            rmax = max(np.abs(c).max(), np.abs(ct).max())
            tol = 1e-12 + R.moment_abs_error(len(c), rmax) * (1 / mu20 + 1 / mu02)
            if tol > 1e-3:
                ctx.count(f"skipped_dc[inert_ratio_{name}: ill-conditioned]")
                continue
            vt = _fin(orig(ct))
            _relbucket(ctx, f"{name}_translation", v, vt)
            ctx.check("inertia_translation", _close(v, vt, tol) and not math.isnan(v),
                      lambda: {"feature": f"inert_ratio_{name}", "contour": c, "shift": d,
                               "value": v, "shifted": vt, "tol": tol},
                      message=f"inert_ratio_{name} {v!r} -> {vt!r} after translation by "
                              f"{d.tolist()} (tol {tol:.1e})")
            cs = np.ascontiguousarray(c[:, ::-1])
            tol_s = 1e-12 + R.moment_abs_error(len(c), np.abs(c).max()) * (1 / mu20 + 1 / mu02)
            vs = _fin(orig(cs))
            ok = (not math.isnan(v)) and (not math.isnan(vs)) and v > 0 and \
                abs(vs * v - 1) <= tol_s
            _relbucket(ctx, f"{name}_swap", vs * v if v == v and vs == vs else float("nan"), 1.0)
            ctx.check("inertia_swap", ok,
                      lambda: {"feature": f"inert_ratio_{name}", "contour": c, "value": v,
                               "swapped": vs, "product": vs * v, "tol": tol_s},
                      message=f"inert_ratio_{name}: {v!r} with axes exchanged {vs!r}, "
                              f"product {vs * v!r} != 1")
    judge.__name__ = f"judge_ratio_{name}"
    return judge


def judge_prnc(ctx, orig, args, out, exc):
    from vmon.model import c18_ref as R
    cont = args["cont"]
    if not _no_exc(ctx, "get_inert_ratio_prnc", args, exc, cont):
        return
    if isinstance(cont, np.ndarray):
        ctx.ev("no_exception")
    rng = _rng()
    for i, c in _contours(cont):
        v = _pick(out, i)
        cm = _prep(ctx, c, "inert_ratio_prnc")
        if cm is None:
            continue
        A, mu20, mu02, mu11, lam = cm
        ctx.check("prnc_ge_one", v >= 1 - 1e-6,
                  lambda: {"contour": c, "value": v},
                  message=f"principal inertia ratio {v!r} < 1")
        d = _shift_for(c, rng)
        ct = c + d
        # rotation: exact quarter turns for integer contours, any angle for float contours
        o = np.round(c.mean(axis=0))
        if np.issubdtype(c.dtype, np.integer):
            k = int(rng.integers(1, 4))
            rel = (c - o.astype(c.dtype))
            for _ in range(k):
                rel = np.stack([-rel[:, 1], rel[:, 0]], axis=1)
            cr = np.ascontiguousarray(rel + o.astype(c.dtype))
            how = f"{90 * k} deg"
        else:
            th = float(rng.uniform(0, 2 * math.pi))
            cc, ss = math.cos(th), math.sin(th)
            cr = (c - o) @ np.array([[cc, ss], [-ss, cc]]) + o
            how = f"{math.degrees(th):.3f} deg"
        rmax = max(np.abs(c).max(), np.abs(ct).max(), np.abs(cr).max())
        tol = 5e-7 + 4 * R.moment_abs_error(len(c), rmax) / lam
        if tol > 1e-3:
            ctx.count("skipped_dc[inert_ratio_prnc: ill-conditioned]")
            continue
        vt = _fin(orig(ct))
        _relbucket(ctx, "prnc_translation", v, vt)
        ctx.check("inertia_translation", _close(v, vt, tol) and not math.isnan(v),
                  lambda: {"feature": "inert_ratio_prnc", "contour": c, "shift": d,
                           "value": v, "shifted": vt, "tol": tol},
                  message=f"inert_ratio_prnc {v!r} -> {vt!r} after translation by {d.tolist()}")
        vr = _fin(orig(cr))
        _relbucket(ctx, "prnc_rotation", v, vr)
        ctx.check("prnc_rotation", _close(v, vr, tol) and not math.isnan(v),
                  lambda: {"contour": c, "rotation": how, "centre": o, "value": v,
                           "rotated": vr, "tol": tol},
                  message=f"inert_ratio_prnc {v!r} -> {vr!r} after rotation by {how}")


def judge_tilt(ctx, orig, args, out, exc):
    from vmon.model import c18_ref as R
    cont = args["cont"]
    if not _no_exc(ctx, "get_tilt", args, exc, cont):
        return
    rng = _rng()
    for i, c in _contours(cont):
        v = _pick(out, i)
        cm = _prep(ctx, c, "tilt")
        if cm is None:
            continue
        A, mu20, mu02, mu11, lam = cm
        aniso = math.hypot(2 * mu11, mu20 - mu02)
        d = _shift_for(c, rng)
        ct = c + d
        rmax = max(np.abs(c).max(), np.abs(ct).max())
        # the angle is undefined for isotropic shapes: its error is moment error / anisotropy
        if aniso <= 0 or 4 * R.moment_abs_error(len(c), rmax) / aniso > 1e-4 \
                or aniso < 1e-6 * (mu20 + mu02):
            ctx.count("skipped_dc[tilt: isotropic or ill-conditioned]")
            continue
        tol = 1e-9 + 4 * R.moment_abs_error(len(c), rmax) / aniso
        vt = _fin(orig(ct))
        diff = abs(v - vt)
        ctx.check("tilt_translation", diff <= tol and not math.isnan(v),
                  lambda: {"contour": c, "shift": d, "value": v, "shifted": vt, "tol": tol},
                  message=f"tilt {v!r} -> {vt!r} after translation by {d.tolist()}")


def judge_moments(ctx, orig, args, out, exc):
    from vmon.model import c18_ref as R
    c = args["cont"]
    if exc is not None:
        ctx.check("no_exception", False, {"function": "cont_moments_cv", "exc": repr(exc)[:300]},
                  message=f"cont_moments_cv raised {exc!r}")
        return
    if not isinstance(c, np.ndarray):
        return
    ctx.ev("no_exception")
    cm = _prep(ctx, c, "moments")
    if cm is None:
        return
    A, mu20, mu02, mu11, lam = cm
    if out is None:
        ctx.check("area_translation", False, {"contour": c, "reference_area": A},
                  message=f"no moments for a contour with area {A}")
        return
    rng = _rng()
    d = _shift_for(c, rng)
    ct = c + d
    n = len(c)
    rmax = max(np.abs(c).max(), np.abs(ct).max())
    e2 = 4 * R.EPS * n * float(rmax) ** 2          # area: terms are O(rmax^2)
    e4 = R.moment_abs_error(n, rmax)
    mt = orig(ct)
    ms = orig(np.ascontiguousarray(c[:, ::-1]))
    if mt is None or ms is None:
        ctx.check("area_translation", False, {"contour": c, "shift": d},
                  message="moments vanish after translation / axis exchange")
        return
    ok_a = abs(mt["m00"] - out["m00"]) <= 1e-12 * A + e2 and \
        abs(ms["m00"] - out["m00"]) <= 1e-12 * A + e2 and out["m00"] > 0
    ctx.check("area_translation", ok_a,
              lambda: {"contour": c, "shift": d, "m00": out["m00"], "m00_shifted": mt["m00"],
                       "m00_swapped": ms["m00"], "tol": 1e-12 * A + e2},
              message=f"area m00 {out['m00']!r} -> {mt['m00']!r} (translated) / "
                      f"{ms['m00']!r} (axes exchanged)")
    if e4 > 1e-3 * lam:
        ctx.count("skipped_dc[moments: ill-conditioned]")
        return
    tol = 1e-12 * (mu20 + mu02) + e4
    ok_t = all(abs(mt[k] - out[k]) <= tol for k in ("mu20", "mu11", "mu02"))
    ctx.check("inertia_translation", ok_t,
              lambda: {"feature": "central moments", "contour": c, "shift": d,
                       "mu": [out[k] for k in ("mu20", "mu11", "mu02")],
                       "mu_shifted": [mt[k] for k in ("mu20", "mu11", "mu02")], "tol": tol},
              message="central second moments change under translation")
    tol_s = 1e-12 * (mu20 + mu02) + R.moment_abs_error(n, np.abs(c).max())
    ok_s = abs(ms["mu20"] - out["mu02"]) <= tol_s and abs(ms["mu02"] - out["mu20"]) <= tol_s \
        and abs(ms["mu11"] - out["mu11"]) <= tol_s
    ctx.check("inertia_swap", ok_s,
              lambda: {"feature": "central moments", "contour": c,
                       "mu": [out[k] for k in ("mu20", "mu11", "mu02")],
                       "mu_swapped": [ms[k] for k in ("mu20", "mu11", "mu02")], "tol": tol_s},
              message="mu20/mu02 do not swap when the axes are exchanged")


# --------------------------------------------------------------------------- volume
def judge_volume(ctx, orig, args, out, exc):
    cont, pos_x, pos_y, pix = args["cont"], args["pos_x"], args["pos_y"], args["pix"]
    fix = bool(args.get("fix_orientation", False))
    single = np.isscalar(pos_x)
    if exc is not None:
        _no_exc(ctx, "get_volume", args, exc, cont if not single else np.asarray(cont))
        return
    if single:
        ctx.ev("no_exception")
        items = [(None, np.asarray(cont), float(pos_x), float(pos_y))]
    else:
        px, py = np.atleast_1d(pos_x), np.atleast_1d(pos_y)
        items = []
        for i in range(min(len(cont), px.shape[0])):
            try:
                items.append((i, np.asarray(cont[i]), float(px[i]), float(py[i])))
            except BaseException as e:
                if isinstance(e, (KeyboardInterrupt, SystemExit, MemoryError)):
                    raise
    rng = _rng()
    pix = float(pix)
    for i, c, px, py in items:
        v = _pick(out, i)
        if c.ndim != 2 or c.shape[0] < 4:
            ctx.count("skipped_dc[volume: contour with < 4 points (NaN documented)]")
            continue
        if not (math.isfinite(px) and math.isfinite(py)):
            ctx.count("skipped_dc[volume: non-finite position]")
            continue
        x = c[:, 0].astype(float) - px / pix
        y = c[:, 1].astype(float) - py / pix
        vscale = abs(pix) ** 3 * math.pi * float(np.abs(np.diff(x, append=x[0])).sum()) \
            * float(np.abs(y).max()) ** 2
        if vscale == 0:
            ctx.count("skipped_dc[volume: degenerate contour]")
            continue
        area2 = float(np.sum(x * np.roll(y, -1) - np.roll(x, -1) * y))
        if fix and abs(area2) < 1e-9:
            # the orientation of a contour without area is undefined
            ctx.count("skipped_dc[volume: fix_orientation on a contour without area]")
            continue
        s = float([0.5, 2.0, 3.7, 0.1, 1.25][int(rng.integers(5))])
        vs = _fin(orig(c, px * s, py * s, pix * s, fix))
        tol = 1e-11 * vscale
        if fix and vs * v < 0:
            # fix_orientation decides the sign with a heuristic that is discontinuous for
            # contours without width; the law is then judged on the magnitude
            ctx.count("volume_fix_orientation_sign_changed_under_scaling")
            vs = -vs
        ok_cube = abs(vs - s ** 3 * v) <= tol * s ** 3 and not math.isnan(v)
        key = None
        if fix and not ok_cube:
            # rounding of pos/pix may flip the orientation heuristic for thin contours; a
            # correct reversal would only change the sign (accepted above). The known defect
            # reverses r but not z, which changes the magnitude: attribute the violation to
            # it only if its model reproduces both observed values.
            from vmon.model import c18_ref as R
            r1 = R.needs_reversal(c, px, py, pix)
            r2 = R.needs_reversal(c, px * s, py * s, pix * s)
            p1 = R.volume_model(c, px, py, pix, reverse=r1, defect=True)
            p2 = R.volume_model(c, px * s, py * s, pix * s, reverse=r2, defect=True)
            if r1 != r2 and abs(p1 - v) <= tol and abs(abs(p2) - abs(vs)) <= tol * s ** 3:
                key = R.DVF
        ctx.check("volume_cube", ok_cube,
                  lambda: {"contour": c, "pos": [px, py], "pix": pix, "scale": s, "volume": v,
                           "scaled": vs, "expected": s ** 3 * v, "fix_orientation": fix},
                  finding=key,
                  message=f"volume {v!r} at pixel size {pix}, {vs!r} at {pix * s} "
                          f"(expected {s ** 3 * v!r})")
        if abs(v) > 1e-3 * vscale:
            ctx.count("volume_nonzero_cases")
        if fix:
            ctx.count("skipped_dc[volume sign: fix_orientation requested]")
            continue
        vr = _fin(orig(np.ascontiguousarray(c[::-1]), px, py, pix, fix))
        ctx.check("volume_sign", abs(vr + v) <= tol and not math.isnan(v),
                  lambda: {"contour": c, "pos": [px, py], "pix": pix, "volume": v, "reversed": vr},
                  message=f"volume {v!r}, reversed contour {vr!r} (expected {-v!r})")


# ------------------------------------------------------------------------- brightness
def _is_int_image(a):
    return np.issubdtype(np.asarray(a).dtype, np.integer)


def _split_ret(out, ret, single):
    ra, rs = "avg" in ret, "sd" in ret
    if ra and rs:
        avg, sd = out[0], out[1]
    elif ra:
        avg, sd = out, None
    else:
        avg, sd = None, out
    f = (lambda z: None if z is None else np.atleast_1d(np.asarray(z, dtype=float)))
    return f(avg), f(sd)


def _offsets(bg_off, n):
    if bg_off is None:
        return np.zeros(n)
    o = np.atleast_1d(np.asarray(bg_off[:] if hasattr(bg_off, "id") else bg_off, dtype=float))
    if o.size == 1:
        return np.full(n, float(o[0]))
    return o[:n]


def _off_kind(bg_off):
    if bg_off is None:
        return "None"
    if isinstance(bg_off, np.ndarray):
        return f"ndarray[{'1' if bg_off.size == 1 else 'n'}]"
    if isinstance(bg_off, (list, tuple)):
        return "list"
    if np.isscalar(bg_off):
        return "scalar"
    return type(bg_off).__name__


def _cont_kind(x):
    if isinstance(x, np.ndarray):
        return f"ndarray{x.ndim}d"
    if isinstance(x, (list, tuple)):
        return "list"
    return type(x).__name__


def _near(a, b, rel=1e-9):
    if math.isnan(a) or math.isnan(b):
        return math.isnan(a) and math.isnan(b)
    if a == b:
        return True
    return abs(a - b) <= rel * max(1.0, abs(b))


def _bright_items(mask, image, image_bg):
    single = isinstance(mask, np.ndarray) and mask.ndim == 2
    if single:
        return True, [(mask, image, image_bg)]
    n = min(len(mask), len(image)) if image_bg is None else \
        min(len(mask), len(image), len(image_bg))
    return False, [(mask[i], image[i], None if image_bg is None else image_bg[i])
                   for i in range(n)]


def _judge_meansd(ctx, monitor, fname, args, out, exc, with_bg):
    from vmon.model import c18_ref as R
    mask, image = args["mask"], args["image"]
    image_bg = args.get("image_bg") if with_bg else None
    bg_off = args.get("bg_off") if with_bg else None
    ret = args["ret_data"]
    single, items = _bright_items(mask, image, image_bg)
    ctx.count(f"bright_containers[{fname}][{_cont_kind(mask)},{_cont_kind(image)}]")
    if with_bg:
        ctx.count(f"bright_offset_kind[{fname}][{_off_kind(bg_off)}]")
    if exc is not None:
        ctx.check(monitor, False, {"function": fname, "exc": repr(exc)[:300],
                                   "bg_off": bg_off, "ret_data": ret},
                  message=f"{fname} raised {exc!r}")
        return None
    avg, sd = _split_ret(out, ret, single)
    offs = _offsets(bg_off, len(items))
    for i, (mk, im, bg) in enumerate(items):
        mk = np.asarray(mk)
        if mk.dtype != bool:
            ctx.count("skipped_dc[brightness: mask not boolean]")
            continue
        if not (_is_int_image(im) and (bg is None or _is_int_image(bg))):
            ctx.count("skipped_dc[brightness: non-integer image]")
            continue
        vals = R.masked_values(mk, im, bg)
        if not vals:
            ctx.count("skipped_dc[brightness: empty mask]")
            continue
        rm, rs = R.mean_sd_exact(vals)
        rm -= float(offs[i])
        ok = (avg is None or _near(float(avg[i]), rm)) and (sd is None or _near(float(sd[i]), rs))
        ctx.check(monitor, ok,
                  lambda: {"function": fname, "event": i, "ret_data": ret, "n_pixels": len(vals),
                           "got_avg": None if avg is None else float(avg[i]),
                           "got_sd": None if sd is None else float(sd[i]),
                           "ref_avg": rm, "ref_sd": rs, "offset": float(offs[i]),
                           "image_dtype": str(np.asarray(im).dtype)},
                  message=f"{fname}: avg/sd "
                          f"{None if avg is None else float(avg[i])!r}/"
                          f"{None if sd is None else float(sd[i])!r} != reference {rm!r}/{rs!r}")
    return avg, sd, offs


def judge_bright(ctx, orig, args, out, exc):
    _judge_meansd(ctx, "bright_def", "get_bright", args, out, exc, with_bg=False)


def judge_bright_bc(ctx, orig, args, out, exc):
    res = _judge_meansd(ctx, "bright_bc_def", "get_bright_bc", args, out, exc, with_bg=True)
    if res is None or args.get("bg_off") is None:
        return
    avg, sd, offs = res
    try:
        out0 = orig(args["mask"], args["image"], args["image_bg"], None, args["ret_data"])
    except Exception as e:
        ctx.check("offset_shift", False, {"exc": repr(e)}, message=f"bg_off=None raised {e!r}")
        return
    single = isinstance(args["mask"], np.ndarray) and args["mask"].ndim == 2
    avg0, sd0 = _split_ret(out0, args["ret_data"], single)
    ok = True
    if avg is not None:
        ok &= bool(np.allclose(avg, avg0 - offs[:len(avg0)], rtol=1e-12, atol=1e-9,
                               equal_nan=True))
    if sd is not None:
        ok &= bool(np.allclose(sd, sd0, rtol=1e-12, atol=1e-12, equal_nan=True))
    ctx.check("offset_shift", ok,
              lambda: {"function": "get_bright_bc", "offsets": offs, "avg": avg, "avg_no_offset":
                       avg0, "sd": sd, "sd_no_offset": sd0},
              message="bg_off does not shift bright_bc_avg one-to-one / changes the sd")


def judge_bright_perc(ctx, orig, args, out, exc):
    from vmon.model import c18_ref as R
    mask, image, image_bg, bg_off = args["mask"], args["image"], args["image_bg"], args["bg_off"]
    single, items = _bright_items(mask, image, image_bg)
    ctx.count(f"bright_containers[get_bright_perc][{_cont_kind(mask)},{_cont_kind(image)}]")
    ctx.count(f"bright_offset_kind[get_bright_perc][{_off_kind(bg_off)}]")
    if exc is not None:
        key = None
        if R.d10_predicts_valueerror(bg_off) and isinstance(exc, ValueError) \
                and "truth value of an array" in str(exc):
            key = R.D10
        ctx.check("bright_perc_def", False,
                  {"function": "get_bright_perc", "exc": repr(exc)[:300], "bg_off": bg_off,
                   "bg_off_type": type(bg_off).__name__, "n_events": len(items)},
                  finding=key, message=f"get_bright_perc raised {exc!r} "
                                       f"(bg_off: {_off_kind(bg_off)})")
        return
    p10 = np.atleast_1d(np.asarray(out[0], dtype=float))
    p90 = np.atleast_1d(np.asarray(out[1], dtype=float))
    offs = _offsets(bg_off, len(items))
    for i, (mk, im, bg) in enumerate(items):
        mk = np.asarray(mk)
        if mk.dtype != bool or not (_is_int_image(im) and _is_int_image(bg)):
            ctx.count("skipped_dc[brightness: non-integer image or non-bool mask]")
            continue
        vals = R.masked_values(mk, im, bg)
        if not vals:
            ctx.count("skipped_dc[brightness: empty mask]")
            continue
        r10 = R.percentile_linear(vals, 10) - float(offs[i])
        r90 = R.percentile_linear(vals, 90) - float(offs[i])
        ok = _near(float(p10[i]), r10) and _near(float(p90[i]), r90)
        ctx.check("bright_perc_def", ok,
                  lambda: {"event": i, "n_pixels": len(vals), "got": [float(p10[i]), float(p90[i])],
                           "ref": [r10, r90], "offset": float(offs[i])},
                  message=f"get_bright_perc: {float(p10[i])!r}/{float(p90[i])!r} != reference "
                          f"{r10!r}/{r90!r}")
    if bg_off is not None:
        try:
            o0 = orig(mask, image, image_bg, None)
        except Exception as e:
            ctx.check("offset_shift", False, {"exc": repr(e)}, message=f"bg_off=None raised {e!r}")
            return
        q10 = np.atleast_1d(np.asarray(o0[0], dtype=float))
        q90 = np.atleast_1d(np.asarray(o0[1], dtype=float))
        ok = bool(np.allclose(p10, q10 - offs[:len(q10)], rtol=1e-12, atol=1e-9, equal_nan=True)
                  and np.allclose(p90, q90 - offs[:len(q90)], rtol=1e-12, atol=1e-9,
                                  equal_nan=True))
        ctx.check("offset_shift", ok,
                  lambda: {"function": "get_bright_perc", "offsets": offs, "p10": p10,
                           "p10_no_offset": q10, "p90": p90, "p90_no_offset": q90},
                  message="bg_off does not shift the brightness percentiles one-to-one")


# -------------------------------------------------------------------------- crosstalk
def judge_ctc(ctx, orig, args, out, exc):
    from vmon.model import c18_ref as R
    ct = {k: args[k] for k in ("ct21", "ct31", "ct12", "ct32", "ct13", "ct23")}
    try:
        ch = int(args["fl_channel"])
    except Exception:
        ctx.count("skipped_dc[crosstalk: invalid channel]")
        return
    if ch not in (1, 2, 3):
        ctx.count("skipped_dc[crosstalk: invalid channel]")
        return
    if any((not np.isscalar(v)) or (not math.isfinite(float(v))) or float(v) < 0
           for v in ct.values()):
        ctx.count("skipped_dc[crosstalk: negative or non-scalar coefficient]")
        return
    S = R.spill_matrix(ct)
    cond = float(np.linalg.cond(S))
    if not math.isfinite(cond) or cond >= 1e6:
        ctx.count("skipped_dc[crosstalk: cond(S) >= 1e6]")
        return
    ctx.count(f"ctc_cond[1e{int(math.floor(math.log10(cond)))}]")
    if exc is not None:
        ctx.check("ctc_unmix", False, {"ct": ct, "channel": ch, "exc": repr(exc)[:300]},
                  message=f"correct_crosstalk raised {exc!r}")
        return
    fl = [np.asarray(args[k][:] if hasattr(args[k], "id") else args[k], dtype=float)
          for k in ("fl1", "fl2", "fl3")]
    ref = R.unmix(fl, S, ch)
    scale = max(float(np.max(np.abs(f))) if f.size else 0.0 for f in fl)
    got = np.asarray(out, dtype=float)
    tol = 1e-11 * cond * scale + 1e-300
    err = float(np.max(np.abs(got - ref))) if got.size else 0.0
    ctx.check("ctc_unmix", err <= tol,
              lambda: {"ct": ct, "channel": ch, "cond": cond, "max_abs_err": err, "tol": tol,
                       "fl": [f.ravel()[:5] for f in fl], "got": got.ravel()[:5],
                       "ref": np.asarray(ref).ravel()[:5]},
              message=f"corrected channel {ch} differs from the solution of S^T t = m by {err!r} "
                      f"(tol {tol:.2e}, cond {cond:.1f})")


# ------------------------------------------------------------------------------ kinds
def _set_case(ctx, idx, salt):
    _State.rng = ctx.rng(idx, salt=1000 + salt)
    return ctx.rng(idx, salt=salt)


def _features(ctx, c, rng, pix=None):
    """Call the contour-derived feature functions (monitored) on one contour."""
    from dclab.features import inert_ratio as IR, volume as VOL
    for f in (IR.cont_moments_cv, IR.get_inert_ratio_raw, IR.get_inert_ratio_cvx,
              IR.get_inert_ratio_prnc, IR.get_tilt):
        try:
            f(c)
        except BaseException as e:
            if isinstance(e, (KeyboardInterrupt, SystemExit, MemoryError)):
                raise
    pix = pix or float(rng.choice([0.34, 0.2, 0.68, 1.0]))
    cf = c.astype(float)
    if rng.random() < 0.7:
        px, py = cf[:, 0].mean() * pix, cf[:, 1].mean() * pix
    else:
        px = float(rng.uniform(cf[:, 0].min(), cf[:, 0].max() + 1e-9)) * pix
        py = float(rng.uniform(cf[:, 1].min(), cf[:, 1].max() + 1e-9)) * pix
    try:
        VOL.get_volume(c, float(px), float(py), pix, fix_orientation=bool(rng.random() < 0.2))
    except BaseException as e:
        if isinstance(e, (KeyboardInterrupt, SystemExit, MemoryError)):
            raise


def run_contour(ctx, idx):
    from dclab.features import contour as C
    from vmon.gen import c18_shapes as G
    from vmon.model import c18_ref as R
    rng = _set_case(ctx, idx, 1)
    m, kind, placement = G.gen_mask(rng, big=bool(rng.random() < 0.15))
    ctx.count(f"mask_kind[{kind}]")
    ctx.count(f"mask_placement[{placement}]")
    how = int(rng.integers(10))
    cont = None
    try:
        if how == 0:
            # list of masks (second one: a plain rectangle in the same frame)
            m2 = np.zeros_like(m)
            if m.shape[1] >= 3:
                m2[m.shape[0] // 2, 1:-1] = True
            else:
                m2[0, 0] = True
            cont = C.get_contour([m, m2])[0]
            ctx.count("contour_call[list]")
        elif how == 1:
            cont = C.get_contour(np.stack([m, m]))[1]
            ctx.count("contour_call[3d array]")
        elif how == 2:
            cont = C.get_contour(m.astype(np.uint8))
            ctx.count("contour_call[uint8 0/1]")
        elif how == 3:
            cont = C.get_contour_lazily(np.stack([m, m]))[0]
            ctx.count("contour_call[lazy list]")
        elif how == 4:
            cont = C.get_contour(np.asfortranarray(m))
            ctx.count("contour_call[fortran order]")
        else:
            cont = C.get_contour(m)
            ctx.count("contour_call[2d array]")
    except BaseException as e:
        if isinstance(e, (KeyboardInterrupt, SystemExit, MemoryError)):
            raise
    if int(m.sum()) >= 3:
        ctx.mark_nontrivial(["mask", list(m.shape), np.packbits(m).tobytes().hex()])
    if cont is not None and len(cont) >= 1:
        _features(ctx, np.asarray(cont), rng)
    if idx % 331 == 0:
        ctx.sample({"kind": "contour", "mask_kind": kind, "placement": placement,
                    "mask": _mask_rows(m),
                    "contour_points": None if cont is None else int(len(cont)),
                    "touches_border": R.touches_border(m)})


def run_exhaustive(ctx, idx, spec):
    from dclab.features import contour as C
    from vmon.gen import c18_shapes as G
    from vmon.model import c18_ref as R
    h, w = spec["grid"]
    _set_case(ctx, idx, 2)
    if idx == 0:
        return
    shp = G.mask_from_code(idx, h, w)
    if not (R.is_connected8(shp) and R.is_holefree(shp)):
        ctx.count("exhaustive_skipped[not connected or with hole]")
        return
    ctx.count(f"exhaustive_shapes[{h}x{w}]")
    for margin in (0, 1):
        m = np.pad(shp, margin)
        if min(m.shape) < 2:
            continue
        try:
            C.get_contour(m)
        except BaseException as e:
            if isinstance(e, (KeyboardInterrupt, SystemExit, MemoryError)):
                raise
    if int(shp.sum()) >= 3:
        ctx.mark_nontrivial(["grid", h, w, idx])


def run_poly(ctx, idx):
    from dclab.features import inert_ratio as IR, volume as VOL
    from vmon.gen import c18_shapes as G
    rng = _set_case(ctx, idx, 3)
    poly, kind = G.gen_polygon(rng)
    ctx.count(f"poly_kind[{kind}]")
    ctx.count(f"poly_vertices[{_bucket(len(poly))}]")
    ctx.count(f"poly_dtype[{poly.dtype}]")
    _features(ctx, poly, rng)
    if abs(G.shoelace(poly)) > 1e-3:
        ctx.mark_nontrivial(["poly", poly.tobytes().hex()[:4000]])
    if idx % 4 == 0:
        # list mode: several contours, array positions
        p2, _ = G.gen_polygon(rng)
        p3, _ = G.gen_polygon(rng)
        lst = [poly, p2, p3]
        for f in (IR.get_inert_ratio_raw, IR.get_inert_ratio_cvx, IR.get_inert_ratio_prnc,
                  IR.get_tilt):
            try:
                f(lst)
            except BaseException as e:
                if isinstance(e, (KeyboardInterrupt, SystemExit, MemoryError)):
                    raise
        pix = 0.34
        px = np.array([p[:, 0].astype(float).mean() * pix for p in lst])
        py = np.array([p[:, 1].astype(float).mean() * pix for p in lst])
        try:
            VOL.get_volume(lst, px, py, pix)
        except BaseException as e:
            if isinstance(e, (KeyboardInterrupt, SystemExit, MemoryError)):
                raise
        ctx.count("poly_list_mode_calls")
    if idx % 211 == 0:
        ctx.sample({"kind": "poly", "poly_kind": kind, "vertices": poly[:6].tolist(),
                    "n": int(len(poly)), "signed_area": G.shoelace(poly)})


def run_ellipse(ctx, idx):
    """Discretised and polygonal ellipses against the analytic values."""
    from dclab.features import contour as C, inert_ratio as IR, volume as VOL
    from vmon.gen import c18_shapes as G
    from vmon.model import c18_ref as R
    rng = _set_case(ctx, idx, 4)
    a = float(rng.uniform(2, 45))
    b = a if rng.random() < 0.3 else float(rng.uniform(2, 45))
    pix = float(rng.choice([0.34, 0.2, 1.0, 0.68]))
    r = int(math.ceil(max(a, b))) + 1 + int(rng.integers(1, 4))
    cx, cy = r + float(rng.uniform(-.5, .5)), r + float(rng.uniform(-.5, .5))
    shape = (2 * r + 1 + int(rng.integers(0, 3)), 2 * r + 1 + int(rng.integers(0, 3)))
    va = R.ellipsoid_volume(a, b, pix)
    ctx.count(f"ellipse_min_semi_axis[{_bucket(int(min(a, b)), (3, 5, 10, 20, 30, 45))}]")
    # (1) axis aligned, discretised -> contour -> volume
    m = G.ellipse_mask(a, b, 0.0, cx, cy, shape)
    try:
        c = C.get_contour(m)
        ys, xs = np.nonzero(m)
        v = float(VOL.get_volume(c, float(xs.mean()) * pix, float(ys.mean()) * pix, pix))
        err = (v - va) / va
        bound = 3.6 / min(a, b)
        ctx.count(f"ellipse_volume_relerr_times_r[{round(err * min(a, b) * 2) / 2:+.1f}]")
        ctx.check("volume_convergence", abs(err) <= bound,
                  lambda: {"route": "mask", "a": a, "b": b, "centre": [cx, cy], "pix": pix,
                           "volume": v, "analytic": va, "rel_err": err, "bound": bound},
                  message=f"discretised ellipsoid a={a:.2f} b={b:.2f}: volume {v!r}, analytic "
                          f"{va!r}, rel. error {err:.4f} > {bound:.4f}")
        # the inertia ratio sqrt(mu20/mu02) of an ellipse with semi-axis a along x is a/b
        for nm, f in (("raw", IR.get_inert_ratio_raw), ("cvx", IR.get_inert_ratio_cvx)):
            ir = float(f(c))
            ib = 2.7 / min(a, b)
            ctx.check("inertia_ellipse", abs(ir / (a / b) - 1) <= ib,
                      lambda: {"feature": f"inert_ratio_{nm}", "a": a, "b": b, "value": ir,
                               "a/b": a / b, "bound": ib},
                      message=f"inert_ratio_{nm} {ir!r} of a discretised axis-parallel ellipse "
                              f"with a/b = {a / b:.4f}")
    except BaseException as e:
        if isinstance(e, (KeyboardInterrupt, SystemExit, MemoryError)):
            raise
        ctx.check("volume_convergence", False, {"route": "mask", "exc": repr(e)},
                  message=f"ellipse pipeline raised {e!r}")
    # (2) polygonal ellipse, both orientations: sign follows the orientation
    n = int(rng.integers(8, 400))
    p = G.ellipse_polygon(a, b, 0.0, cx, cy, n, float(rng.uniform(0, 1)))
    if rng.random() < 0.5:
        p = np.ascontiguousarray(p[::-1])
    sign = -1.0 if G.shoelace(p) > 0 else 1.0     # image coordinates: y points down
    v = float(VOL.get_volume(p, cx * pix, cy * pix, pix))
    err = (sign * v - va) / va
    bound = 20.0 / n ** 2
    ctx.check("volume_convergence", abs(err) <= bound,
              lambda: {"route": "polygon", "a": a, "b": b, "n": n, "pix": pix, "volume": v,
                       "analytic": sign * va, "rel_err": err, "bound": bound},
              message=f"{n}-gon ellipsoid a={a:.2f} b={b:.2f}: volume {v!r}, analytic "
                      f"{sign * va!r}, rel. error {err:.3e} > {bound:.3e}")
    # (2b) the same polygon with fix_orientation=True: +analytic whatever the orientation
    try:
        vf = float(VOL.get_volume(p, cx * pix, cy * pix, pix, fix_orientation=True))
    except BaseException as e:
        if isinstance(e, (KeyboardInterrupt, SystemExit, MemoryError)):
            raise
        vf = float("nan")
    errf = (vf - va) / va
    key = None
    if not abs(errf) <= bound:
        if R.needs_reversal(p, cx * pix, cy * pix, pix):
            pred = R.volume_model(p, cx * pix, cy * pix, pix, reverse=True, defect=True)
            good = R.volume_model(p, cx * pix, cy * pix, pix, reverse=True, defect=False)
            if abs(vf - pred) <= 1e-9 * abs(pred) and abs(good - va) <= bound * va:
                key = R.DVF
    ctx.count(f"ellipse_polygon_fix_orientation[{'reversal needed' if sign < 0 else 'already oriented'}]")
    ctx.check("volume_convergence", abs(errf) <= bound,
              lambda: {"route": "polygon, fix_orientation=True", "a": a, "b": b, "n": n,
                       "pix": pix, "volume": vf, "analytic": va, "rel_err": errf, "bound": bound,
                       "input_orientation": "needs reversal" if sign < 0 else "as required"},
              finding=key,
              message=f"{n}-gon ellipsoid a={a:.2f} b={b:.2f} with fix_orientation=True: volume "
                      f"{vf!r}, analytic {va!r}, rel. error {errf:.3e} > {bound:.3e}")
    # (3) rotated discretised ellipse: principal inertia ratio ~ a/b at any orientation
    th = float(rng.uniform(0, math.pi))
    m = G.ellipse_mask(a, b, th, cx, cy, shape)
    try:
        c = C.get_contour(m)
        pr = float(IR.get_inert_ratio_prnc(c))
        want = max(a, b) / min(a, b)
        bound = 2.0 / min(a, b)
        ctx.check("prnc_ellipse", abs(pr / want - 1) <= bound,
                  lambda: {"a": a, "b": b, "theta": th, "prnc": pr, "a/b": want, "bound": bound},
                  message=f"prnc {pr!r} of a discretised ellipse a/b={want:.4f} rotated by "
                          f"{math.degrees(th):.1f} deg")
    except BaseException as e:
        if isinstance(e, (KeyboardInterrupt, SystemExit, MemoryError)):
            raise
        ctx.check("prnc_ellipse", False, {"exc": repr(e)}, message=f"raised {e!r}")
    ctx.mark_nontrivial(["ellipse", a, b, cx, cy, th, n])
    if idx % 97 == 0:
        ctx.sample({"kind": "ellipse", "a": a, "b": b, "pix": pix, "n_polygon": n,
                    "analytic_volume": va})


def _containers(rng, arrs, tmp, idx):
    """The same data as 3D arrays / lists / h5py datasets."""
    how = int(rng.integers(4))
    if how == 0:
        return arrs, "ndarray", None
    if how == 1:
        return [[a[i] for i in range(len(a))] for a in arrs], "list", None
    if how == 2:
        return [[np.asfortranarray(a[i]) for i in range(len(a))] for a in arrs], "list-F", None
    import h5py
    h5 = h5py.File(tmp / f"c18_bright_{idx}.h5", "w")
    out = []
    for k, a in enumerate(arrs):
        out.append(h5.create_dataset(f"d{k}", data=a, chunks=True))
    return out, "h5py", h5


def run_bright(ctx, idx):
    from dclab.features import bright as B, bright_bc as BC, bright_perc as BP
    from vmon import boot
    from vmon.gen import c18_shapes as G
    rng = _set_case(ctx, idx, 5)
    n = int(rng.integers(1, 7))
    shape = (int(rng.integers(1, 25)), int(rng.integers(1, 40)))
    if idx % 12 == 7:
        # many events of small images: event counts around powers of two and other round
        # numbers (implementations that read the data block-wise)
        n = int(rng.choice([64, 100, 127, 128, 255, 256, 257, 500, 512, 513]))
        shape = (int(rng.integers(2, 6)), int(rng.integers(2, 8)))
        ctx.count(f"bright_cases_with_many_events[{n}]")
    img, bg, mask, dt = G.gen_images(rng, n, shape)
    ctx.count(f"image_dtype[{dt}]")
    offs = G.gen_offsets(rng, n)
    single = rng.random() < 0.25
    h5 = None
    try:
        if single:
            k = int(rng.integers(n))
            a_mask, a_img, a_bg = mask[k], img[k], bg[k]
            cont = "single"
            okind = int(rng.integers(6))
            off = [None, 0, float(offs[k]), np.float64(offs[k]), np.array([offs[k]]),
                   np.array(offs[k])][okind]
        else:
            (a_mask, a_img, a_bg), cont, h5 = _containers(rng, [mask, img, bg], boot.scratch(), idx)
            okind = int(rng.integers(8))
            if okind == 7 and h5 is None:
                okind = 5
            off = [None, 0, float(offs[0]), np.float64(offs[0]), list(offs), np.array(offs),
                   np.array(offs, dtype=np.float32), None][okind]
            if okind == 7:
                off = h5.create_dataset("off", data=offs)
        ctx.count(f"bright_case[{cont}]")
        ret = ["avg,sd", "avg,sd", "avg", "sd"][int(rng.integers(4))]
        for call in (lambda: B.get_bright(a_mask, a_img, ret_data=ret),
                     lambda: BC.get_bright_bc(a_mask, a_img, a_bg, bg_off=off, ret_data=ret),
                     lambda: BP.get_bright_perc(a_mask, a_img, a_bg, bg_off=off)):
            try:
                call()
            except BaseException as e:
                if isinstance(e, (KeyboardInterrupt, SystemExit, MemoryError)):
                    raise
    finally:
        if h5 is not None:
            name = h5.filename
            h5.close()
            import os
            os.unlink(name)
    if int(mask.sum()) >= 2 and img.min() != img.max():
        ctx.mark_nontrivial(["bright", dt, list(img.shape), img.tobytes().hex()[:512],
                             np.packbits(mask).tobytes().hex()[:512]])
    if idx % 173 == 0:
        ctx.sample({"kind": "bright", "n": n, "shape": list(shape), "dtype": dt,
                    "container": cont, "bg_off": off if not hasattr(off, "id") else "h5py"})


def run_ctc(ctx, idx):
    from dclab.features import fl_crosstalk as F
    from vmon.gen import c18_shapes as G
    from vmon.model import c18_ref as R
    rng = _set_case(ctx, idx, 6)
    channels = [(1, 2, 3), (1, 2, 3), (1, 2), (1, 3), (2, 3), (1,), (2,), (3,)][int(rng.integers(8))]
    ctx.count(f"ctc_channels[{len(channels)}]")
    ct = G.gen_spill(rng, channels)
    S = R.spill_matrix(ct)
    cond = float(np.linalg.cond(S))
    if not math.isfinite(cond) or cond >= 1e6:
        ctx.count("skipped_dc[crosstalk: cond(S) >= 1e6]")
        return
    n = int(rng.integers(1, 50))
    integer = bool(rng.random() < 0.3)
    true = G.gen_signals(rng, n, channels, integer=integer)
    meas = R.spill(true, S)
    form = int(rng.integers(4))
    if form == 1:
        meas_in = [float(m[0]) for m in meas]      # python scalars
        true_cmp = [float(t[0]) for t in true]
    elif form == 2:
        meas_in = [m.astype(np.float32).astype(np.float64) for m in meas]
        # the truth that belongs to the rounded measurement
        true_cmp = None
    else:
        meas_in = meas
        true_cmp = true
    # absent channels are passed as 0 (what the ancillary feature does)
    args = [meas_in[k] if (k + 1) in channels else 0 for k in range(3)]
    scale = max(float(np.max(np.abs(t))) for t in true)
    for ch in channels:
        try:
            got = F.correct_crosstalk(args[0], args[1], args[2], ch, **ct)
        except BaseException as e:
            if isinstance(e, (KeyboardInterrupt, SystemExit, MemoryError)):
                raise
            ctx.check("ctc_roundtrip", False, {"ct": ct, "channel": ch, "exc": repr(e)},
                      message=f"correct_crosstalk raised {e!r}")
            continue
        if true_cmp is None:
            continue
        want = np.asarray(true_cmp[ch - 1], dtype=float)
        err = float(np.max(np.abs(np.asarray(got, dtype=float) - want)))
        tol = 1e-11 * cond * scale + 1e-300
        ctx.check("ctc_roundtrip", err <= tol,
                  lambda: {"ct": ct, "channels": channels, "channel": ch, "cond": cond,
                           "true": want.ravel()[:5], "recovered": np.asarray(got).ravel()[:5],
                           "max_abs_err": err, "tol": tol},
                  message=f"crosstalk correction of channel {ch} does not recover the true signal: "
                          f"max error {err!r} (tol {tol:.2e}, cond {cond:.1f})")
    if any(v > 0 for v in ct.values()):
        ctx.mark_nontrivial(["ctc", sorted(ct.items()), channels, n, float(true[channels[0] - 1][0])])
    if idx % 197 == 0:
        ctx.sample({"kind": "ctc", "ct": ct, "channels": channels, "cond": cond, "n": n})


# ---------------------------------------------------------------------------- datasets
DS_SCALAR = ["volume", "inert_ratio_raw", "inert_ratio_cvx", "inert_ratio_prnc", "tilt",
             "bright_avg", "bright_sd", "bright_bc_avg", "bright_bc_sd",
             "bright_perc_10", "bright_perc_90"]


def _frame_mask(rng, G, H, W, border):
    """One connected hole-free mask in an (H, W) frame."""
    import scipy.ndimage as ndi
    kind = ["blob4", "blob8", "ellipse", "rect", "thin8", "comb"][int(rng.integers(6))]
    shp = G.gen_shape(rng, kind)
    lim_h, lim_w = (H, W) if border else (H - 2, W - 2)
    shp = shp[:lim_h, :lim_w]
    shp = G._tight(ndi.binary_fill_holes(G._largest_component(shp)))
    h, w = shp.shape
    if border:
        y0 = int(rng.choice([0, H - h, int(rng.integers(0, H - h + 1))]))
        x0 = int(rng.choice([0, W - w, int(rng.integers(0, W - w + 1))]))
        if rng.random() < 0.15:
            m = np.ones((H, W), dtype=bool)     # full frame
            return m
    else:
        y0 = int(rng.integers(1, H - h))
        x0 = int(rng.integers(1, W - w))
    m = np.zeros((H, W), dtype=bool)
    m[y0:y0 + h, x0:x0 + w] = shp
    return m


def run_ds(ctx, idx):
    """Ancillary features of in-memory (and HDF5) datasets against the definitions."""
    import os
    import dclab
    from vmon import boot
    from vmon.gen import c18_shapes as G
    from vmon.model import c18_ref as R
    rng = _set_case(ctx, idx, 7)
    O = _State.orig
    N = int(rng.integers(1, 7))
    H, W = int(rng.integers(8, 28)), int(rng.integers(8, 44))
    with_border = rng.random() < 0.25
    masks = np.stack([_frame_mask(rng, G, H, W, with_border and rng.random() < 0.5)
                      for _ in range(N)])
    img, bg, _, dt = G.gen_images(rng, N, (H, W))
    img, bg = img.astype(np.uint8), bg.astype(np.uint8)
    pix = float(rng.choice([0.34, 0.2, 0.68]))
    pos_x = np.array([np.nonzero(m)[1].mean() * pix for m in masks])
    pos_y = np.array([np.nonzero(m)[0].mean() * pix for m in masks])
    offs = G.gen_offsets(rng, N) if rng.random() < 0.5 else None
    channels = [(1, 2, 3), (1, 2), (1, 3), (2, 3)][int(rng.integers(4))]
    ct = G.gen_spill(rng, channels)
    S = R.spill_matrix(ct)
    cond = float(np.linalg.cond(S))
    true = G.gen_signals(rng, N, channels)
    meas = R.spill(true, S)
    data = {"image": img, "image_bg": bg, "mask": masks, "pos_x": pos_x, "pos_y": pos_y,
            "deform": np.linspace(0.01, 0.02, N)}
    if offs is not None:
        data["bg_off"] = offs
    for c in channels:
        data[f"fl{c}_max"] = np.asarray(meas[c - 1], dtype=float)
    use_h5 = idx % 3 == 0
    path = None
    try:
        if use_h5:
            path = boot.scratch() / f"c18_ds_{idx}.rtdc"
            with dclab.RTDCWriter(path, mode="reset") as hw:
                hw.store_metadata({"experiment": {"sample": "c18", "run index": 1},
                                   "imaging": {"pixel size": pix, "roi size x": W,
                                               "roi size y": H},
                                   "setup": {"channel width": 20.0, "chip region": "channel",
                                             "flow rate": 0.04, "medium": "CellCarrier"}})
                for k, v in data.items():
                    hw.store_feature(k, v)
            ds = dclab.new_dataset(path)
            ctx.count("ds_format[hdf5]")
        else:
            ds = dclab.new_dataset(data)
            ctx.count("ds_format[dict]")
        ds.config["imaging"]["pixel size"] = pix
        for k, v in ct.items():
            i, j = int(k[2]), int(k[3])
            if i in channels and j in channels:
                ds.config["calculation"][f"crosstalk fl{i}{j}"] = v
        # model predictions of contour failures for this dataset
        conts = []
        for m in masks:
            oc = _outcome(O["get_contour"], m)
            conts.append(oc[1] if oc[0] == "cont" else None)
        ctx.count(f"ds_masks[{'some touch the border' if any(R.touches_border(m) for m in masks) else 'interior'}]")

        def access(feat, getter):
            try:
                val = getter()
                ctx.ev("ds_access")
                return val
            except BaseException as e:
                if isinstance(e, (KeyboardInterrupt, SystemExit, MemoryError)):
                    raise
                key = None
                if feat in ("contour", "volume", "inert_ratio_raw", "inert_ratio_cvx",
                            "inert_ratio_prnc", "tilt") \
                        and type(e).__name__ in ("IndexError", "NoValidContourFoundError"):
                    # LazyContourList prefixes the message with the failing event
                    mt = re.match(r"Event (\d+), ", str(e.args[0]) if e.args else "")
                    if mt and int(mt.group(1)) < N:
                        key = R.classify_contour_failure(masks[int(mt.group(1))],
                                                         ("exc", type(e).__name__))
                if feat.startswith("bright_perc") and offs is not None and N > 1 \
                        and isinstance(e, ValueError) and "truth value of an array" in str(e) \
                        and not use_h5:
                    key = R.D10
                ctx.check("ds_access", False,
                          {"feature": feat, "exc": repr(e)[:300], "n_events": N,
                           "format": "hdf5" if use_h5 else "dict", "has_bg_off": offs is not None,
                           "masks_touch_border": [R.touches_border(m) for m in masks]},
                          finding=key, message=f"ds[{feat!r}] raised {e!r}")
                return None
        # contours
        lazy = access("contour", lambda: ds["contour"])
        if lazy is not None:
            for i in range(N):
                access("contour", lambda: lazy[i])
        vals = {}
        feats = list(DS_SCALAR)
        if cond < 1e6:
            feats += [f"fl{c}_max_ctc" for c in channels]
        else:
            ctx.count("skipped_dc[crosstalk: cond(S) >= 1e6]")
        # the signals as the dataset holds them (HDF5 storage may round them)
        held = [np.array(ds[f"fl{c}_max"][:], dtype=float) if c in channels else np.zeros(N)
                for c in (1, 2, 3)]
        exact_storage = all(np.array_equal(held[c - 1], np.asarray(meas[c - 1], dtype=float))
                            for c in channels)
        ctx.count(f"ds_fl_storage[{'exact' if exact_storage else 'rounded by the file format'}]")
        for feat in feats:
            if feat not in ds:
                ctx.check("ds_access", False, {"feature": feat, "available": ds.features},
                          message=f"{feat} is not available in the dataset")
                continue
            v = access(feat, lambda: np.array(ds[feat][:], dtype=float))
            if v is not None:
                vals[feat] = v
        # --- definitions
        o = offs if offs is not None else np.zeros(N)
        for i in range(N):
            v_img = R.masked_values(masks[i], img[i])
            v_bc = R.masked_values(masks[i], img[i], bg[i])
            ref = {}
            ref["bright_avg"], ref["bright_sd"] = R.mean_sd_exact(v_img)
            a, sd = R.mean_sd_exact(v_bc)
            ref["bright_bc_avg"], ref["bright_bc_sd"] = a - o[i], sd
            ref["bright_perc_10"] = R.percentile_linear(v_bc, 10) - o[i]
            ref["bright_perc_90"] = R.percentile_linear(v_bc, 90) - o[i]
            for c in channels:
                ref[f"fl{c}_max_ctc"] = float(true[c - 1][i]) if exact_storage else \
                    float(R.unmix([h[i] for h in held], S, c))
            if all(c is not None for c in conts):
                c_i = conts[i]
                ref["volume"] = _fin(O["get_volume"](c_i, float(pos_x[i]), float(pos_y[i]), pix))
                ref["inert_ratio_raw"] = _fin(O["get_inert_ratio_raw"](c_i))
                ref["inert_ratio_cvx"] = _fin(O["get_inert_ratio_cvx"](c_i))
                ref["inert_ratio_prnc"] = _fin(O["get_inert_ratio_prnc"](c_i))
                ref["tilt"] = _fin(O["get_tilt"](c_i))
            for feat, r in ref.items():
                if feat not in vals:
                    continue
                g = float(vals[feat][i])
                if feat.endswith("_ctc"):
                    scale = max(float(np.max(np.abs(t))) for t in true)
                    ok = abs(g - r) <= 1e-11 * cond * scale + 1e-300
                else:
                    ok = _near(g, r, 1e-9)
                ctx.check("ds_matches_definition", ok,
                          lambda: {"feature": feat, "event": i, "dataset": g, "definition": r,
                                   "format": "hdf5" if use_h5 else "dict",
                                   "offset": float(o[i]), "pix": pix},
                          message=f"ds[{feat!r}][{i}] = {g!r}, definition gives {r!r}")
        ctx.mark_nontrivial(["ds", idx, N, H, W, img.tobytes().hex()[:256]])
        if idx % 37 == 0:
            ctx.sample({"kind": "ds", "format": "hdf5" if use_h5 else "dict", "events": N,
                        "frame": [H, W], "channels": channels, "bg_off": offs is not None,
                        "features_read": sorted(vals)})
        try:
            ds.close() if hasattr(ds, "close") else None
        except Exception:
            pass
    finally:
        if path is not None and os.path.exists(path):
            os.unlink(path)


# ------------------------------------------------------------------ .tdms masks
TDMS_FIXTURES = ["fmt-tdms_fl-image_2016.zip", "fmt-tdms_fl-image-bright_2017.zip",
                 "fmt-tdms_fl-image-large-fov_2017.zip", "fmt-tdms_minimal_2016.zip"]


def run_tdms(ctx, idx):
    """The masks a .tdms dataset computes on the fly are its contours, refilled: every mask a
    client holds (collected in a list, fetched in any order, fetched again, with other events
    fetched in between) is the plotted contour of its own event with the holes filled, and the
    brightness computed from collected masks is the brightness of the single events."""
    import scipy.ndimage as ndi
    import dclab
    from dclab.features import bright as bright_mod
    from vmon.work.c02 import tdms_fixture
    rng = _set_case(ctx, idx, 11)
    name = TDMS_FIXTURES[idx % len(TDMS_FIXTURES)]
    try:
        path = tdms_fixture(name)
    except Exception as exc:
        ctx.count("tdms_fixture_unavailable")
        ctx.error("tdms fixture", exc)
        return
    ds = dclab.new_dataset(path)
    if "mask" not in ds or "contour" not in ds or "image" not in ds:
        ctx.count("tdms_fixture_without_mask")
        return
    n = len(ds)
    usable = []
    for i in range(n):
        try:
            ds["contour"][i]
            usable.append(i)
        except IndexError:
            ctx.count("tdms_event_without_contour")     # documented for this format
    if len(usable) < 2:
        return
    k = int(rng.integers(2, min(len(usable), 8) + 1))
    order = [int(v) for v in rng.choice(usable, k, replace=bool(rng.random() < 0.3))]
    shape = tuple(np.asarray(ds["image"][usable[0]]).shape[:2])

    def refill(i):
        c = np.asarray(ds["contour"][i])
        m = np.zeros(shape, dtype=bool)
        m[c[:, 1], c[:, 0]] = True
        return ndi.binary_fill_holes(m)

    pattern = int(rng.integers(0, 3))
    held = []
    for i in order:
        held.append((i, ds["mask"][i]))
        if pattern == 1 and rng.random() < 0.5:
            ds["mask"][int(rng.choice(usable))]             # another event in between
        if pattern == 2:
            ds["image"][i]
    ctx.count(f"tdms_mask_hold_pattern[{pattern}]")
    for pos, (i, m) in enumerate(held):
        want = refill(i)
        ctx.check("contour_refill", np.array_equal(np.asarray(m, dtype=bool), want),
                  lambda: {"fixture": name, "event": i, "position_in_client_list": pos,
                           "events_fetched": order, "pixels_held": int(np.sum(m)),
                           "pixels_of_refilled_contour": int(want.sum())},
                  message=f"mask of .tdms event {i} held by the client (fetched {pos + 1}. of "
                          f"{len(order)}) is not its refilled contour")
    # brightness from the collected masks equals the per-event brightness
    imgs = [np.asarray(ds["image"][i]) for i, _ in held]
    if all(im.ndim == 2 for im in imgs) and all(refill(i).any() for i, _ in held):
        got = bright_mod.get_bright([m for _, m in held], imgs, ret_data="avg")
        want = [float(np.mean(im[refill(i)])) for (i, _), im in zip(held, imgs)]
        ctx.check("bright_def", bool(np.allclose(np.atleast_1d(got), want, rtol=1e-12, atol=0)),
                  lambda: {"fixture": name, "events": order, "got": np.atleast_1d(got),
                           "definition": want},
                  message="brightness from masks collected from a .tdms dataset differs from "
                          "the mean of the image under each event's refilled contour")
    ctx.count("tdms_cases")
    ctx.mark_nontrivial(["tdms", name, order])


# ------------------------------------------------------------------ sanitizer adjunct
def run_sanitizer(ctx, spec):
    """Optional (thorough): rerun a contour workload against ASan+UBSan builds of the
    shipped .c files. Reported as not run when the build is impossible."""
    import glob
    import json
    import os
    import shutil
    import subprocess
    import sys
    from vmon import boot, native
    tmp = boot.scratch() / "asan"
    tmp.mkdir(parents=True, exist_ok=True)
    try:
        overlay, env_add = native.build_sanitized(tmp / "overlay")
        if not os.path.exists(env_add["LD_PRELOAD"]):
            raise RuntimeError("asan runtime missing")
        # boot.boot() resolves dclab.__file__; a symlinked __init__.py would point into
        # the original tree
        init = overlay / "dclab" / "__init__.py"
        if init.is_symlink():
            src = os.path.realpath(init)
            init.unlink()
            shutil.copy(src, init)
    except BaseException as e:
        if isinstance(e, (KeyboardInterrupt, SystemExit)):
            raise
        ctx.count("sanitizer_adjunct[not run: build failed]")
        ctx.mark_nontrivial("sanitizer-not-run-0")
        ctx.mark_nontrivial("sanitizer-not-run-1")
        return
    n_cases = int(spec.get("sanitizer_cases", 1500))
    sub = {"kind": "contour", "cases": {"start": 0, "stop": n_cases}, "shard": 9000,
           "seed": ctx.seed, "tier": "thorough"}
    specfile, outfile = tmp / "spec.json", tmp / "out.json"
    specfile.write_text(json.dumps(sub))
    env = dict(os.environ)
    env.update(env_add)
    env["ASAN_OPTIONS"] = f"detect_leaks=0:halt_on_error=0:log_path={tmp}/asan.log"
    env["UBSAN_OPTIONS"] = f"print_stacktrace=1:log_path={tmp}/ubsan.log"
    env["PYTHONPATH"] = str(boot.VERIF) + os.pathsep + env.get("PYTHONPATH", "")
    try:
        cp = subprocess.run([sys.executable, "-m", "vmon.shard", "C18", str(specfile),
                             str(outfile)], env=env, cwd=str(boot.VERIF), timeout=1000,
                            capture_output=True, text=True)
        status = cp.returncode
        tail = (cp.stderr or "")[-1500:]
    except subprocess.TimeoutExpired:
        ctx.count("sanitizer_adjunct[not finished: timeout]")
        return
    reports = []
    for f in glob.glob(f"{tmp}/asan.log*") + glob.glob(f"{tmp}/ubsan.log*"):
        txt = open(f, errors="replace").read()
        for block in txt.split("==ERROR")[1:]:
            reports.append(block[:1500])
        for line in txt.splitlines():
            if "runtime error:" in line:
                reports.append(line[:500])
    res = json.loads(outfile.read_text()) if outfile.exists() else None
    ctx.ev("sanitizer_run")
    if res is not None:
        ctx.count("sanitizer_cases_run", res["cases_run"])
        ctx.count("sanitizer_contour_calls", res["counters"].get("calls[get_contour]", 0))
        ctx.count("sanitizer_refill_evaluations", res["monitors"].get("contour_refill", 0))
    mine = [r for r in reports if "_find_contours" in r or "dclab" in r]
    ctx.count("sanitizer_reports_total", len(reports))
    ctx.count("sanitizer_reports_in_dclab_frames", len(mine))
    if res is None or mine:
        ctx.violation("sanitizer_run", {"exit": status, "reports": mine[:3] or reports[:3],
                                        "stderr_tail": tail},
                      message=f"sanitized run: exit {status}, {len(mine)} report(s) with dclab "
                              f"frames, result file {'missing' if res is None else 'present'}")
    ctx.mark_nontrivial("sanitizer-run-0")
    ctx.mark_nontrivial("sanitizer-run-1")


def run(spec, ctx):
    _State.ctx = ctx
    kind = spec["kind"]
    if kind == "sanitizer":
        for idx in ctx.case_ids():
            run_sanitizer(ctx, spec)
        return
    sites = install()
    for k, v in sites.items():
        ctx.count(f"rebound_sites[{k}]", len(v))
    for idx in ctx.case_ids():
        if kind == "contour":
            run_contour(ctx, idx)
        elif kind == "exhaustive":
            run_exhaustive(ctx, idx, spec)
        elif kind == "poly":
            run_poly(ctx, idx)
        elif kind == "ellipse":
            run_ellipse(ctx, idx)
        elif kind == "bright":
            run_bright(ctx, idx)
        elif kind == "ctc":
            run_ctc(ctx, idx)
        elif kind == "ds":
            run_ds(ctx, idx)
        elif kind == "tdms":
            run_tdms(ctx, idx)
        else:
            raise ValueError(kind)
