"""C17, dataset-interface workload: reads through ``ds[feat]`` in many access forms,
interleaved with writes into the arrays that came back, contour accesses (capacity 3) and
KDE / downsampling calls through the dataset.  Every read is compared with the generated
data (the model), never with dclab's own state."""
import copy
import pathlib
import shutil

import numpy as np

D13 = "scalar-feature-cache-handed-out-writeable"
F_CONTOUR = "lazy-contour-cache-handed-out-writeable"

W_FEATS = ["deform", "area_um", "userdef1"]      # targets of in-place writes
K_FEATS = ["aspect", "bright_avg"]               # inputs of KDE / downsampling, never written
READ_FORMS = ["full", "asarray", "array_nocopy", "dunder_array", "basic_slice", "int",
              "fancy", "bool", "ufunc", "float32", "array_copy", "array_copy_f8"]
WRITE_KINDS = ["set_item", "set_all", "imul", "iadd", "fill", "reverse", "sort"]


TEMP_FEAT = "vmon_c17_temp"


def _gen_data(rng, n):
    data = {
        "deform": rng.uniform(0.001, 0.3, n),
        "area_um": rng.lognormal(4, 0.5, n),
        "userdef1": rng.normal(0, 10, n),
        "aspect": rng.uniform(1, 2, n),
        "bright_avg": rng.normal(100, 10, n),
        "time": np.cumsum(rng.uniform(0.001, 0.01, n)),
    }
    for f in W_FEATS:
        if rng.random() < 0.4:
            m = rng.random(n) < 0.15
            data[f] = np.where(m, rng.choice([np.nan, np.inf, -np.inf], n), data[f])
    if rng.random() < 0.3:
        # a few invalid values in the KDE inputs as well
        data["aspect"][int(rng.integers(0, n))] = np.nan
    return {k: np.asarray(v, dtype=np.float64) for k, v in data.items()}


def _read(ds, feat, form, index):
    obj = ds[feat]
    if form == "full":
        return obj[:]
    if form == "asarray":
        return np.asarray(obj)
    if form == "array_nocopy":
        return np.array(obj, copy=None)
    if form == "array_copy":
        return np.array(obj)                    # the client's own copy (it may change it)
    if form == "array_copy_f8":
        return np.array(obj, dtype=np.float64, copy=True)
    if form == "dunder_array":
        return obj.__array__()
    if form in ("basic_slice", "int", "fancy", "bool"):
        return obj[index]
    if form == "ufunc":
        return obj + 0.0
    if form == "float32":
        return np.asarray(obj, dtype=np.float32)
    raise ValueError(form)


def _expected_read(expected, form, index):
    if form in ("full", "asarray", "array_nocopy", "dunder_array", "array_copy",
                "array_copy_f8"):
        return expected
    if form in ("basic_slice", "int", "fancy", "bool"):
        return expected[index]
    if form == "ufunc":
        return expected + 0.0
    return expected.astype(np.float32)


def _gen_index(rng, form, n):
    if form == "basic_slice":
        a, b = sorted(int(x) for x in rng.integers(0, n + 1, 2))
        if a == b:
            a, b = 0, n
        return slice(a, b, int(rng.choice([1, 1, 2, -1]))) if rng.random() < 0.8 \
            else slice(None, None, -1)
    if form == "int":
        return int(rng.integers(-n, n))
    if form == "fancy":
        return rng.integers(0, n, int(rng.integers(1, n + 1)))
    if form == "bool":
        return rng.random(n) < 0.5
    return None


def _gen_write(rng):
    kind = str(rng.choice(WRITE_KINDS))
    if kind == "set_item":
        return [kind, int(rng.integers(0, 1000)), float(rng.choice([99.0, -1.0, 0.0, 1e9]))]
    if kind in ("set_all", "fill"):
        return [kind, float(rng.choice([0.0, -7.5, 123.0]))]
    if kind == "imul":
        return [kind, float(rng.choice([2.0, -1.0, 0.0]))]
    if kind == "iadd":
        return [kind, float(rng.choice([1.0, 1000.0]))]
    return [kind]


def _index_desc(index):
    if isinstance(index, slice):
        return f"slice({index.start},{index.stop},{index.step})"
    if isinstance(index, np.ndarray):
        return f"{index.dtype}[{len(index)}]"
    return repr(index)


def run_feat(ctx, idx, S):
    import dclab
    from dclab.features import contour as contour_mod
    from vmon import boot
    from vmon.gen import dataset as gd
    from vmon.model import c17_cache as M
    from dclab.cached import Cache

    rng = ctx.rng(idx, salt=2)
    Cache.clear_cache()
    S.reg.clear()
    S.creg.clear()
    S.case = {"hits": 0, "misses": 0, "evictions": 0, "hits_after_eviction": 0,
              "collisions": 0, "key_exc": 0}
    # capacity of the contour list: small enough for eviction (see ASSUMPTIONS)
    contour_mod.LazyContourList.__init__.__defaults__ = (3,)
    tmp = pathlib.Path(boot.scratch()) / f"feat{idx}"
    tmp.mkdir(parents=True, exist_ok=True)
    opened = []
    try:
        n = int(rng.integers(6, 41))
        big = idx % 16 == 3
        if big:
            # a long measurement (scalar features only): more events than any block-wise or
            # partial read may take at once
            n = int(rng.integers(10001, 12001))
            ctx.count("long_measurements")
        data = _gen_data(rng, n)
        with_mask = bool(rng.random() < 0.7) and not big
        feats = dict(data)
        shape = None
        if with_mask:
            h, w = int(rng.integers(8, 20)), int(rng.integers(8, 20))
            feats["mask"] = gd.blob_masks(rng, n, h, w)
            shape = (h, w)
        meta = gd.complete_meta(rng, feats, n, shape, None)
        p = tmp / "a.rtdc"
        gd.write_model(p, {"n": n, "features": feats, "meta": meta, "logs": {}, "tables": {}})
        scal = W_FEATS + K_FEATS
        # mapped basin
        nb = int(rng.integers(3, 2 * n))
        bmap = rng.integers(0, n, nb).astype(np.uint64)
        if rng.random() < 0.5 and not big:
            bmap = np.sort(bmap)
        p2 = tmp / "bmap.rtdc"
        meta2 = copy.deepcopy(meta)
        meta2["experiment"]["event count"] = nb
        with dclab.RTDCWriter(p2, mode="reset") as hw:
            hw.store_metadata(meta2)
            hw.store_feature("time", np.arange(nb, dtype=float))
            hw.store_basin("mapped", "file", "hdf5", [str(p)], basin_feats=scal, basin_map=bmap)
        p3 = tmp / "bsame.rtdc"
        with dclab.RTDCWriter(p3, mode="reset") as hw:
            hw.store_metadata(meta)
            hw.store_feature("time", data["time"])
            hw.store_basin("same", "file", "hdf5", [str(p)], basin_feats=scal)

        h5 = dclab.new_dataset(p)
        opened.append(h5)
        m1 = rng.random(n) < 0.7
        m1[int(rng.integers(0, n))] = True
        h5.filter.manual[:] = m1
        h5.apply_filter()
        child = dclab.new_dataset(h5)
        nc = int(m1.sum())
        m2 = rng.random(nc) < 0.7
        m2[int(rng.integers(0, nc))] = True
        child.filter.manual[:] = m2
        child.apply_filter()
        gchild = dclab.new_dataset(child)
        dbm = dclab.new_dataset(p2)
        opened.append(dbm)
        dbs = dclab.new_dataset(p3)
        opened.append(dbs)
        pidx1 = np.where(m1)[0]
        pidx2 = pidx1[np.where(m2)[0]]
        actors = {
            "h5": (h5, lambda a: a, True),
            "child": (child, lambda a: a[pidx1], True),
            "gchild": (gchild, lambda a: a[pidx2], True),
            "basin_mapped": (dbm, lambda a: a[bmap.astype(np.intp)], False),
            "basin_same": (dbs, lambda a: a, True),
        }
        # ---- register expected values + defect models per feature object
        models = {}
        parents = {"child": ("h5", lambda a: a[m1]), "gchild": ("child", lambda a: a[m2])}
        for an, (ds, sel, aliases) in actors.items():
            for f in scal:
                obj = ds[f]
                par, psel = parents.get(an, (None, None))
                am = M.AliasArrayModel(sel(data[f]), aliases=aliases,
                                       parent=models[(par, f)] if par else None, select=psel)
                models[(an, f)] = am
                S.reg[id(obj)] = (obj, am)
                ctx.count(f"feat_object_class[{an}:{type(obj).__name__}]")
        # ---- contours
        pristine = None
        cmodel = None
        if with_mask:
            pristine = [M_outcome(contour_mod.get_contour, feats["mask"][i]) for i in range(n)]
            lcl = h5["contour"]
            ctx.count(f"contour_object_class[{type(lcl).__name__}]")

            def fresh_contour(i):
                o = pristine[int(i)]
                if o[0] != "ok":
                    raise o[1]
                return o[1]
            cmodel = M.ContourDequeModel(fresh_contour, lcl.contours.maxlen)
            S.creg[id(lcl)] = (lcl, cmodel)
        cidx = {"h5": np.arange(n), "child": pidx1, "gchild": pidx2}
        first_results = {}
        # a small menu of dataset-level KDE / downsampling calls, so that repetitions occur
        menu = []
        for _ in range(int(rng.integers(4, 9))):
            an = str(rng.choice(["h5", "child", "gchild", "basin_mapped", "basin_same"]))
            xax, yax = (K_FEATS if rng.random() < 0.5 else K_FEATS[::-1])
            menu.append((an, str(rng.choice(["scatter", "contour", "downsample"])), xax, yax,
                         str(rng.choice(["histogram", "gauss", "multivariate", "none"]
                                        if not big else ["histogram", "none"])),
                         str(rng.choice(["linear", "linear", "log"])),
                         bool(rng.random() < 0.3),
                         int(rng.choice([0, 3, max(1, len(actors[an][0]) // 2)])),
                         bool(rng.random() < 0.5), bool(rng.random() < 0.5)))
        n_ops = int(rng.integers(60, 151)) if not big else 50
        wrote = set()
        nontrivial = False
        for step in range(n_ops):
            r = rng.random()
            if r < 0.60:
                # ------------------------------------------------ scalar read (+ write)
                an = str(rng.choice(list(actors)))
                if big and rng.random() < 0.5:
                    an = "basin_mapped"
                ds, sel, aliases = actors[an]
                f = str(rng.choice(W_FEATS))
                am = models[(an, f)]
                ne = len(am.expected)
                form = str(rng.choice(READ_FORMS))
                if big and rng.random() < 0.4:
                    form = "basic_slice"
                index = _gen_index(rng, form, ne)
                S.spec = {"step": step, "actor": an, "feature": f, "form": form,
                          "index": _index_desc(index)}
                try:
                    got = _read(ds, f, form, index)
                except Exception as exc:
                    ctx.check("feat_read_equals_model", False,
                              dict(S.spec, exc=repr(exc)), message=f"read raised {exc!r}")
                    continue
                exp = _expected_read(am.expected, form, index)
                ok = M.same_value(got, exp)
                finding = None
                am.touch()
                if not ok and am.aliases:
                    pred = _expected_read(am.shared, form, index)
                    if M.same_value(got, pred):
                        finding = D13
                if (an, f) in wrote:
                    nontrivial = True
                    ctx.count("feat_reads_after_write")
                ctx.check("feat_read_equals_model", ok,
                          lambda: dict(S.spec, got=got, expected=exp, n=n,
                                       writes_through_earlier_results=am.writes),
                          finding=finding,
                          message=f"{an}[{f!r}] read as {form} differs from the data in the "
                                  f"file after {am.writes} write(s) into arrays returned by "
                                  f"earlier reads")
                ctx.count(f"feat_read_form[{form}]")
                if isinstance(got, np.ndarray) and got.ndim == 1 and len(got) \
                        and rng.random() < 0.5:
                    wop = _gen_write(rng)
                    handle = am.handle(form, index)
                    try:
                        M.apply_write(got, wop)
                    except ValueError as exc:
                        if "read-only" in str(exc):
                            ctx.count("feat_write_refused_read_only")
                            continue
                        raise
                    ctx.count(f"feat_write[{wop[0]}]")
                    am.writes += 1
                    wrote.add((an, f))
                    if handle is not None:
                        M.apply_write(handle, wop)
                        ctx.count("feat_write_reaches_cache_in_defect_model")
            elif r < 0.64:
                # ---------------- the root's data change without any filter change: a
                # temporary feature is set (again); after a refresh from the youngest member
                # the members' feature objects must deliver the new values
                import dclab.definitions as dfn_
                if not dfn_.scalar_feature_exists(TEMP_FEAT):
                    dclab.register_temporary_feature(TEMP_FEAT)
                arr = rng.normal(size=n)
                dclab.set_temporary_feature(h5, TEMP_FEAT, arr)
                gchild.rejuvenate()
                for an_, d_, ids_ in (("child", child, pidx1), ("gchild", gchild, pidx2)):
                    S.spec = {"step": step, "actor": an_, "feature": TEMP_FEAT,
                              "form": "whole array after the root's temporary feature was set"}
                    try:
                        got = np.array(d_[TEMP_FEAT][:], copy=True)
                        ok = M.same_value(got, arr[ids_])
                        detail = None
                    except Exception as exc:
                        got, ok, detail = None, False, repr(exc)
                    ctx.check("feat_read_equals_model", ok,
                              lambda: dict(S.spec, got=got, expected=arr[ids_], exc=detail),
                              message=f"{an_}[{TEMP_FEAT!r}] does not deliver the root's current "
                                      f"temporary feature after a refresh")
                ctx.count("temporary_feature_replaced_below_hierarchy")
            elif r < 0.78 and with_mask:
                # ------------------------------------------------ contour read (+ write)
                an = str(rng.choice(["h5", "child", "gchild"]))
                ds = actors[an][0]
                ids = cidx[an]
                j = int(rng.integers(0, len(ids))) if rng.random() < 0.6 \
                    else int(rng.choice(np.arange(len(ids))[:3]))
                S.spec = {"step": step, "actor": an, "feature": "contour", "index": j}
                del S.chandles[:]
                got = _outcome_base(lambda: ds["contour"][j])
                exp = pristine[int(ids[j])]
                ok = M.outcome_equal(got, exp)
                finding = None
                if not ok and got[0] == "ok" and S.chandles \
                        and M.same_value(got[1], S.chandles[-1]):
                    finding = F_CONTOUR
                ctx.check("feat_contour_equals_model", ok,
                          lambda: dict(S.spec, got=M.describe_outcome(got),
                                       expected=M.describe_outcome(exp)),
                          finding=finding,
                          message=f"{an}['contour'][{j}] differs from the contour of the mask "
                                  f"in the file after writes into earlier results")
                if got[0] == "ok" and rng.random() < 0.5:
                    wop = ["set_all", 0] if rng.random() < 0.5 else ["iadd", 1]
                    try:
                        M.apply_write(got[1], wop)
                    except ValueError as exc:
                        if "read-only" in str(exc):
                            ctx.count("contour_write_refused_read_only")
                            continue
                        raise
                    ctx.count("contour_writes")
                    nontrivial = True
                    if S.chandles:
                        M.apply_write(S.chandles[-1], wop)
            else:
                # ------------------------------------------------ KDE / downsampling
                an, meth, xax, yax, kt, xs, pos, dsamp, ri, rm = \
                    menu[int(rng.integers(0, len(menu)))]
                ds = actors[an][0]
                if meth == "scatter":
                    key = (an, meth, xax, yax, kt, xs, pos)
                    kw = dict(xax=xax, yax=yax, kde_type=kt, xscale=xs)
                    if pos:
                        kw["positions"] = [np.linspace(1, 2, 7), np.linspace(80, 120, 7)] \
                            if xax == "aspect" else \
                            [np.linspace(80, 120, 7), np.linspace(1, 2, 7)]

                    def fn(ds=ds, kw=kw):
                        return ds.get_kde_scatter(**kw)
                elif meth == "contour":
                    key = (an, meth, xax, yax, kt, xs)
                    kw = dict(xax=xax, yax=yax, kde_type=kt, xscale=xs)

                    def fn(ds=ds, kw=kw):
                        return ds.get_kde_contour(**kw)
                else:
                    key = (an, meth, xax, yax, dsamp, xs, ri, rm)
                    kw = dict(xax=xax, yax=yax, downsample=dsamp, xscale=xs,
                              remove_invalid=ri, ret_mask=rm)

                    def fn(ds=ds, kw=kw):
                        return ds.get_downsampled_scatter(**kw)
                S.spec = {"step": step, "actor": an, "call": [str(k) for k in key]}
                got = _outcome(fn)
                if key in first_results:
                    ok = M.outcome_equal(got, first_results[key])
                    nontrivial = True
                    ctx.check("ds_call_repeatable", ok,
                              lambda: dict(S.spec, got=M.describe_outcome(got),
                                           first=M.describe_outcome(first_results[key])),
                              message=f"{key} returns something else than the first time "
                                      f"(results of earlier calls were modified in between)")
                else:
                    first_results[key] = copy.deepcopy(got) if got[0] == "ok" else got
                    ctx.count("ds_call_first")
                ctx.count(f"ds_call[{meth}]")
                if got[0] == "exc":
                    ctx.count(f"ds_call_raised[{type(got[1]).__name__}]")
                elif rng.random() < 0.6:
                    res = got[1] if isinstance(got[1], tuple) else (got[1],)
                    for a in res:
                        if isinstance(a, np.ndarray) and a.size and a.dtype.kind in "fb":
                            try:
                                a[...] = 1 if a.dtype.kind == "b" else -12345.0
                                ctx.count("ds_call_result_overwritten")
                            except ValueError:
                                ctx.count("ds_call_result_read_only")
        # ---- final reads: nothing of what was written may be visible
        for (an, f), am in models.items():
            ds = actors[an][0]
            S.spec = {"step": "final", "actor": an, "feature": f, "form": "full"}
            try:
                got = ds[f][:]
            except Exception as exc:
                ctx.check("feat_read_equals_model", False, dict(S.spec, exc=repr(exc)),
                          message=f"final read raised {exc!r}")
                continue
            am.touch()
            ok = M.same_value(got, am.expected)
            finding = D13 if (not ok and am.aliases and M.same_value(got, am.shared)) else None
            ctx.check("feat_read_equals_model", ok,
                      lambda: dict(S.spec, got=got, expected=am.expected,
                                   writes_through_earlier_results=am.writes),
                      finding=finding,
                      message=f"final read of {an}[{f!r}] differs from the data in the file "
                              f"after {am.writes} write(s) into arrays returned by earlier reads")
        S.spec = None
        from . import c17 as drv
        drv.sweep_cache(ctx)
        ctx.count("feat_sequences")
        if nontrivial:
            ctx.mark_nontrivial(["feat", idx, n, n_ops])
        if idx % 40 == 0:
            ctx.sample({"kind": "feat", "case": idx, "events": n, "with_mask": with_mask,
                        "ops": n_ops, "child_events": int(len(pidx1)),
                        "grandchild_events": int(len(pidx2)), "basin_map_len": nb})
    finally:
        S.reg.clear()
        S.creg.clear()
        for ds in opened:
            try:
                ds.close()
            except Exception:
                pass
        shutil.rmtree(tmp, ignore_errors=True)


def _outcome(fn):
    try:
        return ("ok", fn())
    except Exception as exc:       # noqa: BLE001
        return ("exc", exc)


def _outcome_base(fn):
    try:
        return ("ok", fn())
    except (KeyboardInterrupt, SystemExit):
        raise
    except BaseException as exc:   # noqa: BLE001
        return ("exc", exc)


def M_outcome(fn, *a):
    try:
        return ("ok", fn(*a))
    except (KeyboardInterrupt, SystemExit):
        raise
    except BaseException as exc:   # noqa: BLE001
        return ("exc", exc)
