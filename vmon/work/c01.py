"""C01 - data written through the writer API is read back exactly.

Monitors
* client-boundary recorder: every public RTDCWriter call of a generated history is applied
  to vmon.model.writer_model.WriterModel as well; at every quiescent point (writer closed)
  the file is re-opened with raw h5py AND with dclab.new_dataset and compared with the model.
* icontract post-conditions with OLD snapshots on the real write_ndarray / write_text /
  write_ragged (vmon.monitors.writer).
"""
import itertools

import numpy as np

PROP = "C01"
LEVEL = "exploration"
RULE = ("history = random dataset model (all feature kinds, NaN/inf, hostile logs, tables, "
        "complete metadata) cut into per-feature compositions of N events, interleaved with "
        "log/table/metadata calls, split over 1-4 writer sessions (append/replace/reset; path or "
        "h5py.File flavour) under one of three chunk-size configurations; thorough adds ALL "
        "compositions of 11 and 12 events (chunk length 10). Non-trivial = >=2 append calls to one "
        "dataset, or a non-scalar feature longer than one chunk, or a mode other than append; "
        "distinct by hash of the call history")
LEVEL_TEXT = ("Held on the observed executions: after every writer session of every generated call "
              "history the re-opened file (raw h5py and dclab) equals an independent model of what "
              "was passed to the writer - features of all kinds, logs, tables, typed metadata, "
              "event count and index; plus per-call post-conditions on the low-level write "
              "routines. Exploration of an unbounded history space, not a proof.")
LEVEL_NOTE = ("trusted: h5py/numpy, the WriterModel (documented append/replace/reset semantics), "
              "release version pre-seed. Not judged: calls documented as errors; float->unsigned "
              "casts of non-finite values; event count when feature lengths differ")
TECHNIQUE = ("runtime monitoring: recorded writer call history vs executable reference model at "
             "quiescent points + icontract post-conditions with OLD snapshots on write routines")
ASSUMPTIONS = ["histories only contain calls the API documents as legal",
               "len(ds)/event count is judged only when all features hold the same number of events"]
MIN_EVALS = {"raw.feature": 300, "dclab.feature": 300, "c01.write_ndarray.content": 300,
             "raw.log": 20, "raw.attr": 300, "dclab.len": 50}
WATCHDOG_S = {"quick": 400, "thorough": 3000}

CHUNKS = [256, 4096, 1024 ** 2]
# None = the writer's default (zstd level 1)
COMPRESSIONS = [None, None, {"compression": None}, {"compression": "gzip", "compression_opts": 4},
                {"compression": "lzf"}]


def plan(tier, seed):
    n = 480 if tier == "quick" else 12000
    k = 16
    per = n // k
    shards = [{"kind": "random", "cases": {"start": i * per, "stop": (i + 1) * per}}
              for i in range(k)]
    if tier == "thorough":
        # all compositions of 11 and 12 events: 1024 + 2048
        tot = 2 ** 10 + 2 ** 11
        per = -(-tot // k)
        shards += [{"kind": "compositions", "cases": {"start": i * per,
                                                      "stop": min(tot, (i + 1) * per)}}
                   for i in range(k)]
    return shards


def exhaustive(tier):
    return False


# ------------------------------------------------------------------------- generation
def composition(rng, n):
    """Random composition of n into consecutive (start, stop) parts."""
    if n == 1 or rng.random() < 0.25:
        return [(0, n)]
    r = rng.random()
    if r < 0.3:
        cuts = sorted(set(rng.integers(1, n, int(rng.integers(1, min(n, 6))))))
    elif r < 0.5:
        # single-event calls (2D -> 3D promotion paths)
        k = int(rng.integers(1, min(n, 6)))
        cuts = list(range(1, k + 1)) if k < n else list(range(1, n))
    elif r < 0.7:
        # cut at / around multiples of 10 (chunk length in the small configuration)
        cuts = sorted({c for c in (10 * np.arange(1, n // 10 + 1)
                                   + rng.integers(-1, 2, n // 10)) if 0 < c < n})
    else:
        cuts = sorted(set(rng.integers(1, n, int(rng.integers(1, 12)))))
    cuts = [int(c) for c in cuts if 0 < c < n]
    edges = [0] + cuts + [n]
    return [(a, b) for a, b in zip(edges[:-1], edges[1:]) if b > a]


def nth_composition(n, k):
    """k-th composition of n (bit i of k set = cut after event i+1)."""
    cuts = [i + 1 for i in range(n - 1) if k >> i & 1]
    edges = [0] + cuts + [n]
    return list(zip(edges[:-1], edges[1:]))


def split_meta(rng, meta):
    items = [(s, k, v) for s, kv in meta.items() for k, v in kv.items()]
    nparts = int(rng.integers(1, 4))
    parts = [dict() for _ in range(nparts)]
    for s, k, v in items:
        parts[int(rng.integers(0, nparts))].setdefault(s, {})[k] = v
    return [p for p in parts if p]


def gen_history(rng, model, comp_override=None):
    """-> list of sessions; session = (mode, flavour, [ops])."""
    N = model["n"]
    queues = []
    for feat, data in model["features"].items():
        parts = comp_override if comp_override is not None else composition(rng, N)
        queues.append([("feat", feat, a, b, int(rng.integers(0, 3))) for a, b in parts])
    if rng.random() < 0.3:
        parts = composition(rng, N)
        queues.append([("feat", "index", a, b, 0) for a, b in parts])
    for name, lines in model["logs"].items():
        parts = composition(rng, len(lines))
        queues.append([("log", name, a, b) for a, b in parts])
    for name in model["tables"]:
        queues.append([("table", name)])
    queues.append([("meta", i) for i in range(len(model["meta_parts"]))])
    ops = []
    queues = [q for q in queues if q]
    while queues:
        i = int(rng.integers(0, len(queues)))
        ops.append(queues[i].pop(0))
        if not queues[i]:
            queues.pop(i)
    # sessions
    nses = int(rng.choice([1, 1, 2, 3, 4]))
    cuts = sorted(set(int(c) for c in rng.integers(1, max(2, len(ops)), nses - 1))) \
        if len(ops) > 1 else []
    edges = [0] + [c for c in cuts if 0 < c < len(ops)] + [len(ops)]
    sessions = []
    for j, (a, b) in enumerate(zip(edges[:-1], edges[1:])):
        if j == 0:
            mode = str(rng.choice(["reset", "append", "replace"], p=[.45, .45, .1]))
        else:
            mode = str(rng.choice(["append", "replace", "reset"], p=[.75, .17, .08]))
        flavour = "h5file" if (mode != "reset" and rng.random() < 0.3) else "path"
        sessions.append((mode, flavour, ops[a:b]))
    return sessions


def flavoured(data, feat, a, b, fl):
    """Slice the model data and present it in one of the accepted flavours."""
    if feat == "trace":
        return {k: (v[a] if (b - a == 1 and fl == 1) else v[a:b]) for k, v in data.items()}
    if feat == "contour":
        part = data[a:b]
        if b - a == 1 and fl == 1:
            return part[0]
        return part
    part = data[a:b]
    if feat in ("image", "image_bg", "mask", "qpi_pha", "qpi_oah"):
        if b - a == 1 and fl == 1:
            return part[0]
        if fl == 2:
            return [p for p in part]
        return part
    if part.ndim == 1:
        if fl == 2:
            return part.tolist()
        if b - a == 1 and fl == 1:
            return part[0]
    return part


# ------------------------------------------------------------------------- comparison
def type_class(v):
    if isinstance(v, (bool, np.bool_)):
        return "bool"
    if isinstance(v, (int, np.integer)):
        return "int"
    if isinstance(v, (float, np.floating)):
        return "float"
    if isinstance(v, (str, bytes)):
        return "str"
    return type(v).__name__


def compare_quiescent(ctx, path, wm, hist_desc, equal_len):
    import h5py
    import dclab
    from vmon.model import dscmp
    wit = lambda **kw: dict(kw, history=hist_desc)  # noqa: E731
    # ------------------------------------------------------------- raw h5py
    with h5py.File(path, "r") as h5:
        ev = h5["events"] if "events" in h5 else {}
        stored = {k for k in ev if not (k == "trace" and len(ev[k]) == 0)}
        exp = {k for k, v in wm.feats.items() if not (k == "trace" and not v)}
        ctx.check("raw.feature_set", stored == exp,
                  lambda: wit(stored=sorted(stored), expected=sorted(exp)),
                  message=f"features in file {sorted(stored)} != written {sorted(exp)}")
        for f in sorted(stored & exp):
            m = wm.feats[f]
            d = None
            if f == "trace":
                if sorted(ev[f]) != sorted(m):
                    d = {"traces": sorted(ev[f]), "expected": sorted(m)}
                else:
                    for k in m:
                        if ev[f][k].dtype != m[k].dtype or not dscmp.arr_equal(ev[f][k][:], m[k]):
                            d = {"trace": k, "dtype": str(ev[f][k].dtype),
                                 "diff": dscmp.first_diff(ev[f][k][:], m[k])}
                            break
            elif f == "contour":
                if len(ev[f]) != len(m):
                    d = {"count": len(ev[f]), "expected": len(m)}
                else:
                    for i, c in enumerate(m):
                        if str(i) not in ev[f] or not dscmp.arr_equal(ev[f][str(i)][:], c):
                            d = {"contour": i}
                            break
            else:
                got = ev[f][:]
                if got.dtype != m.dtype:
                    d = {"dtype": str(got.dtype), "expected_dtype": str(m.dtype)}
                elif not dscmp.arr_equal(got, m):
                    d = dscmp.first_diff(got, m)
            ctx.check("raw.feature", d is None, lambda: wit(feature=f, diff=d),
                      message=f"raw h5py: feature {f} differs from what was written: {d}")
        logs = h5["logs"] if "logs" in h5 else {}
        ctx.check("raw.log_set", sorted(logs) == sorted(wm.logs),
                  lambda: wit(stored=sorted(logs), expected=sorted(wm.logs)),
                  message="log names differ")
        for name in sorted(set(logs) & set(wm.logs)):
            got = [ln.decode("utf-8", errors="replace") if isinstance(ln, bytes) else ln
                   for ln in logs[name][:]]
            d = None
            if got != wm.logs[name]:
                i = next((i for i, (a, b) in enumerate(zip(got, wm.logs[name])) if a != b),
                         min(len(got), len(wm.logs[name])))
                d = {"line": i, "n_stored": len(got), "n_expected": len(wm.logs[name]),
                     "stored": got[i][:120] if i < len(got) else None,
                     "expected": wm.logs[name][i][:120] if i < len(wm.logs[name]) else None}
            ctx.check("raw.log", d is None, lambda: wit(log=name, diff=d),
                      message=f"log {name!r} differs: {d}")
        tabs = h5["tables"] if "tables" in h5 else {}
        ctx.check("raw.table_set", sorted(tabs) == sorted(wm.tables),
                  lambda: wit(stored=sorted(tabs), expected=sorted(wm.tables)),
                  message="table names differ")
        for name in sorted(set(tabs) & set(wm.tables)):
            d = dscmp.table_equal(tabs[name], wm.tables[name])
            ctx.check("raw.table", d is None, lambda: wit(table=name, diff=d),
                      message=f"table {name!r} differs: {d}")
        attrs = dict(h5.attrs)
        for k, v in wm.attrs.items():
            if k == "experiment:event count" and not equal_len:
                ctx.count("skipped_event_count_unequal_lengths")
                continue
            if k not in attrs:
                ctx.check("raw.attr", False, lambda: wit(key=k, expected=repr(v), stored="<absent>"),
                          message=f"metadata {k} missing in file")
                continue
            got = attrs[k]
            if isinstance(got, bytes):
                got = got.decode("utf-8")
            ok = type_class(got) == type_class(v) and dscmp.cfg_value_equal(got, v)
            ctx.check("raw.attr", ok,
                      lambda: wit(key=k, expected=repr(v), stored=repr(got)),
                      message=f"metadata {k}: stored {got!r} ({type_class(got)}), "
                              f"expected {v!r} ({type_class(v)})")
        extra = sorted(set(attrs) - set(wm.attrs))
        ctx.check("raw.attr_extra", not extra, lambda: wit(extra=extra),
                  message=f"attributes nobody wrote: {extra}")
    # ---------------------------------------------------------------- dclab
    if not wm.feats:
        return
    lens = wm.feature_lengths()
    with dclab.new_dataset(path) as ds:
        if equal_len:
            n = next(iter(lens.values()))
            ctx.check("dclab.len", len(ds) == n,
                      lambda: wit(len_ds=len(ds), expected=n),
                      message=f"len(ds)={len(ds)}, stored events {n}")
            try:
                idx = np.asarray(ds["index"][:])
                ctx.check("dclab.index", np.array_equal(idx, np.arange(1, n + 1)),
                          lambda: wit(index=idx[:20], expected_n=n),
                          message="index does not enumerate 1..N")
            except Exception as exc:
                ctx.check("dclab.index", False, wit(exc=repr(exc)), message=f"index: {exc!r}")
        if equal_len:
            # what the client read first from the re-opened file, and in which form, varies
            # (DESIGN 7.5): conversions to other dtypes, single events, slices, iteration,
            # reductions, computed features that read stored ones
            from vmon.gen.touch import client_touch
            trng = np.random.default_rng([ctx.seed, ctx.cases_run, len(wm.feats),
                                          ctx.counters.get("readbacks", 0)])
            ctx.count("readbacks")
            if trng.random() < 0.6:
                extra = [c for c in ("time", "index") if trng.random() < 0.5]
                client_touch(trng, ds, extra + [f for f in wm.feats
                                                if f != "trace" or wm.feats[f]],
                             ctx, p=0.5)
        for f, m in wm.feats.items():
            if f == "trace" and not m:
                continue
            try:
                if f not in ds.features_innate:
                    d = {"absent": True}
                elif f == "mask":
                    d = dscmp.feature_equal(ds[f], m.astype(bool), f)
                elif f == "contour" and not equal_len:
                    # dclab takes the number of contours from the event count; with
                    # features of different lengths only event-wise access is judged
                    d = None
                    for i, c in enumerate(m):
                        if not dscmp.arr_equal(ds[f][i], c):
                            d = {"contour_event": i}
                            break
                else:
                    d = dscmp.feature_equal(ds[f], m, f)
                    if d is None and isinstance(m, np.ndarray) and m.ndim == 1 and len(m):
                        # single-index and slice access
                        i = len(m) // 2
                        if not dscmp.arr_equal(ds[f][i], m[i]) or \
                                not dscmp.arr_equal(ds[f][i:], m[i:]):
                            d = {"access": "index/slice"}
            except Exception as exc:
                d = {"exception": repr(exc)}
            ctx.check("dclab.feature", d is None, lambda: wit(feature=f, diff=d),
                      message=f"dclab: feature {f} differs from what was written: {d}")
        for name, lines in wm.logs.items():
            try:
                got = list(ds.logs[name])
                ok = got == lines
            except Exception as exc:
                got, ok = repr(exc), False
            ctx.check("dclab.log", ok, lambda: wit(log=name, stored=str(got)[:300],
                                                   expected=lines[:3]),
                      message=f"dclab: log {name!r} differs")
        for name, rec in wm.tables.items():
            try:
                d = dscmp.table_equal(ds.tables[name], rec)
            except Exception as exc:
                d = {"exception": repr(exc)}
            ctx.check("dclab.table", d is None, lambda: wit(table=name, diff=d),
                      message=f"dclab: table {name!r} differs: {d}")
        for k, v in wm.attrs.items():
            sec, key = k.split(":")
            if k == "experiment:event count" and not equal_len:
                continue
            try:
                got = ds.config[sec][key]
                ok = type_class(got) == type_class(v) and dscmp.cfg_value_equal(got, v)
            except Exception as exc:
                got, ok = repr(exc), False
            ctx.check("dclab.config", ok,
                      lambda: wit(key=k, expected=repr(v), got=repr(got)),
                      message=f"dclab: config {k} is {got!r}, expected {v!r}")


# ------------------------------------------------------------------------------ driver
_TEMP = "vmon_nonscalar"


def run_history(ctx, idx, rng, model, sessions, chunk_bytes):
    import h5py
    import dclab
    from dclab.rtdc_dataset import writer
    from vmon import boot
    from vmon.gen import dataset as gd
    from vmon.model.writer_model import WriterModel
    path = boot.scratch() / f"c01_{idx}.rtdc"
    if path.exists():
        path.unlink()
    wm = WriterModel(dclab.__version__)
    hist = []           # canonical description
    appends = {}
    nontrivial = False
    writer.CHUNK_SIZE_BYTES = chunk_bytes
    desc = {"n": model["n"], "chunk_bytes": chunk_bytes, "model": gd.describe(model)}
    try:
        for mode, flavour, ops in sessions:
            hist.append(["open", mode, flavour])
            if mode != "append":
                nontrivial = True
            h5 = None
            try:
                ckw = COMPRESSIONS[int(rng.integers(0, len(COMPRESSIONS)))]
                kw = {} if ckw is None else {"compression_kwargs": ckw}
                if flavour == "h5file":
                    h5 = h5py.File(path, "a")
                    hw = dclab.RTDCWriter(h5, mode=mode, **kw)
                else:
                    hw = dclab.RTDCWriter(path, mode=mode, **kw)
                wm.open(mode)
                with hw:
                    for op in ops:
                        hist.append([str(x) for x in op])
                        if op[0] == "feat":
                            _, feat, a, b, fl = op
                            if feat == "index":
                                data = np.zeros(b - a)
                                hw.store_feature("index", data)
                                wm.store_feature("index", data)
                            elif feat == _TEMP:
                                data = model["features"][feat][a:b]
                                shape = data.shape[1:]
                                if fl == 1 and b - a == 1:
                                    hw.store_feature(feat, data[0], shape=shape)
                                    wm.store_feature(feat, data[0], shape=shape)
                                else:
                                    hw.store_feature(feat, data, shape=shape)
                                    wm.store_feature(feat, data, shape=shape)
                            else:
                                data = flavoured(model["features"][feat], feat, a, b, fl)
                                hw.store_feature(feat, data)
                                wm.store_feature(feat, data)
                            key = (feat, tuple(sorted(data)) if feat == "trace" else None)
                            appends[feat] = appends.get(feat, 0) + 1
                        elif op[0] == "log":
                            _, name, a, b = op
                            lines = model["logs"][name][a:b]
                            hw.store_log(name, lines if not (b - a == 1 and a % 2) else lines[0])
                            wm.store_log(name, lines)
                        elif op[0] == "table":
                            if op[1] in wm.tables:
                                continue
                            tin = model.get("table_inputs", {}).get(op[1])
                            if tin is not None:
                                ctx.count("tables_given_as_dict")
                                if all(np.asarray(c).dtype.kind in "iub" for c in tin.values()):
                                    ctx.count("tables_given_as_dict_all_integer")
                            hw.store_table(op[1], model["tables"][op[1]] if tin is None else tin)
                            wm.store_table(op[1], model["tables"][op[1]])
                        elif op[0] == "meta":
                            part = model["meta_parts"][op[1]]
                            hw.store_metadata(part)
                            wm.store_metadata(part)
                wm.close()
            finally:
                if h5 is not None:
                    h5.close()
            ctx.ev("no_exception")
            hist.append(["close"])
            lens = wm.feature_lengths()
            equal_len = len(set(lens.values())) == 1
            compare_quiescent(ctx, path, wm, dict(desc, calls=hist[-25:], n_calls=len(hist)),
                              equal_len)
            ctx.count("quiescent_points")
    except Exception as exc:
        import traceback
        ctx.ev("no_exception")
        ctx.violation("no_exception", dict(desc, calls=hist[-25:], exc=repr(exc),
                                           tb=traceback.format_exc()[-1500:]),
                      message=f"legal writer history raised {exc!r}")
    finally:
        writer.CHUNK_SIZE_BYTES = 1024 ** 2
        if path.exists():
            path.unlink()
    ctx.count("writer_calls", len(hist))
    ctx.count("sessions", len(sessions))
    if any(v >= 2 for v in appends.values()):
        nontrivial = True
        ctx.count("histories_with_multi_append")
    for f in ("image", "mask", "image_bg"):
        if f in model["features"] and chunk_bytes == 256 and model["n"] > 10:
            nontrivial = True
            ctx.count("nonscalar_longer_than_chunk")
            break
    if nontrivial:
        ctx.mark_nontrivial([chunk_bytes, hist])
    return hist


def prepare_model(rng, n=None, kinds=None):
    from vmon.gen import dataset as gd
    model = gd.gen_model(rng, n=n, kinds=kinds)
    if rng.random() < 0.25:
        model["features"][_TEMP] = rng.normal(size=(model["n"], 3, 2))
    if rng.random() < 0.2:
        # quantitative-phase features: float32 images and uint8 holograms
        hh, ww = int(rng.integers(3, 9)), int(rng.integers(3, 9))
        model["features"]["qpi_pha"] = rng.normal(size=(model["n"], hh, ww)).astype(np.float32)
        if rng.random() < 0.5:
            model["features"]["qpi_oah"] = rng.integers(0, 256, (model["n"], hh, ww),
                                                        dtype=np.uint8)
    if rng.random() < 0.15:
        # only features sorting after "trace" next to a trace
        tr = model["features"].get("trace")
        if tr is not None:
            model["features"] = {"trace": tr, "userdef1": rng.normal(size=model["n"])}
            model["meta"].pop("fluorescence", None)
            model["meta"] = gd.complete_meta(rng, model["features"], model["n"], None, tr)
    if rng.random() < 0.08:
        # a long log (an acquisition log of a long measurement): more lines than any block a
        # reader or writer may use, counts around the round numbers and in between
        nl = int(rng.choice([999, 1000, 1001, 1024, 1025, 1500, 2000, 2047, 2500, 4097]))
        model["logs"]["long acquisition log"] = [f"{i:05d} frame dropped" if i % 7 else
                                                 f"{i:05d} ok" for i in range(nl)]
    model["meta_parts"] = split_meta(rng, model["meta"])
    return model


def run(spec, ctx):
    import dclab
    from vmon.monitors import writer as wmon
    wmon.install(ctx)
    dclab.register_temporary_feature(_TEMP, is_scalar=False)
    for idx in ctx.case_ids():
        if spec["kind"] == "random":
            rng = ctx.rng(idx)
            model = prepare_model(rng)
            chunk_bytes = int(rng.choice(CHUNKS))
            sessions = gen_history(rng, model)
        else:
            rng = ctx.rng(idx, salt=7)
            if idx < 2 ** 10:
                n, k = 11, idx
            else:
                n, k = 12, idx - 2 ** 10
            model = prepare_model(rng, n=n, kinds={"scalar", "image", "mask", "contour", "trace"})
            model["features"].pop(_TEMP, None)
            chunk_bytes = 256
            comp = nth_composition(n, k)
            sessions = gen_history(rng, model, comp_override=comp)
            sessions = [("reset", "path", [op for s in sessions for op in s[2]])]
            ctx.count("exhaustive_compositions")
        hist = run_history(ctx, idx, rng, model, sessions, chunk_bytes)
        if idx % 150 == 0:
            ctx.sample({"n": model["n"], "chunk_bytes": chunk_bytes, "calls": hist[:20],
                        "n_calls": len(hist)})
