"""C19 end-to-end: RTDC_HTTP over a loopback range server vs RTDC_HDF5 on the same bytes."""
import functools
import json
import os

import numpy as np


def run(spec, ctx):
    import dclab
    from dclab import http_utils
    from dclab.rtdc_dataset import fmt_http, fmt_hdf5
    from vmon import boot
    from vmon.gen import dataset as gd
    from vmon.httpsrv import RangeServer
    from vmon.model import dscmp
    from vmon.httpsrv import relax_timeouts, is_transport_timeout, FakeEndpoint
    relax_timeouts()
    srv = RangeServer()
    fake = FakeEndpoint()
    orig_cls = http_utils.HTTPFile
    tmp = boot.scratch()
    try:
        for idx in ctx.case_ids():
            rng = ctx.rng(idx, salt=1)
            model = gd.gen_model(rng, hostile_logs=False)
            path = tmp / f"e2e_{idx}.rtdc"
            comp = None if rng.random() < 0.5 else {"compression": None}
            gd.write_model(path, model, compression=comp)
            internal = bool(rng.random() < 0.4)
            if internal:
                # features kept in an internal basin (rows shared between events): they are
                # part of the file and must be exposed over HTTP as they are locally
                k_ = int(rng.integers(1, 5))
                with dclab.RTDCWriter(path, mode="append") as hw:
                    hw.store_basin(basin_name="internal", basin_type="internal",
                                   basin_format="h5dataset", basin_locs=["basin_events"],
                                   basin_map=rng.integers(0, k_, model["n"]).astype(np.uint64),
                                   internal_data={"userdef3": 7e6 + np.arange(k_, dtype=float)},
                                   basin_feats=["userdef3"])
                ctx.count("e2e_files_with_internal_basin")
            blob = path.read_bytes()
            # two out of three cases use the socket-free transport (same HTTP semantics)
            ep = srv if idx % 3 == 0 else fake
            url = ep.put(f"/bucket/e2e_{idx}.rtdc", blob)
            # at most ~400 chunks per file, so the number of requests stays bounded
            cands = [c for c in [512, 1000, 4096, 2 ** 14, 2 ** 16, 2 ** 18]
                     if len(blob) / c <= 400] or [2 ** 18]
            cs = int(rng.choice(cands))
            keep = int(rng.choice([1, 2, 3, 10, 200]))
            # patch the defaults RTDC_HTTP uses so that chunk boundaries and evictions
            # are exercised by h5py's own access pattern
            fmt_http.HTTPFile = functools.partial(orig_cls, chunk_size=cs, keep_chunks=keep)
            evicted = 0
            try:
                with fmt_http.RTDC_HTTP(url) as dh, fmt_hdf5.RTDC_HDF5(path) as dl:
                    diffs = dscmp.compare_datasets(dh, dl)
                    fb_h, fb_l = sorted(dh.features_basin), sorted(dl.features_basin)
                    if fb_h != fb_l:
                        diffs.append({"features_basin_http": fb_h, "features_basin_local": fb_l})
                    for f_ in sorted(set(fb_h) & set(fb_l)):
                        if f_.startswith("basinmap"):
                            continue
                        d_ = dscmp.feature_equal(dh[f_], dl[f_], f_)
                        if d_:
                            diffs.append({"basin_feature": f_, "diff": d_})
                    if any("Timeout" in json.dumps(d, default=str) for d in diffs):
                        ctx.count("skipped_transport_timeout")
                        continue
                    ok_id = True
                    nreq = len(ep.requests)
                    evicted = len(dh._fhttp.cache) >= keep
                ctx.check("http_equals_local", not diffs,
                          lambda: {"file": gd.describe(model), "chunk_size": cs,
                                   "keep_chunks": keep, "size": len(blob), "diffs": diffs[:5]},
                          message=f"RTDC_HTTP differs from RTDC_HDF5: {diffs[:2]}")
            except Exception as exc:
                if is_transport_timeout(exc):
                    # starved loopback server: inconclusive for this case, never a violation
                    ctx.count("skipped_transport_timeout")
                    continue
                ctx.ev("http_equals_local")
                ctx.violation("http_equals_local",
                              {"file": gd.describe(model), "chunk_size": cs,
                               "keep_chunks": keep, "size": len(blob), "exc": repr(exc)},
                              message=f"opening/reading over HTTP raised {exc!r}")
            finally:
                fmt_http.HTTPFile = orig_cls
            ctx.count("e2e_files")
            ctx.count("e2e_bytes", len(blob))
            if len(blob) > 3 * cs and evicted:
                ctx.mark_nontrivial(["e2e", idx, len(blob), cs, keep])
            if idx % 5 == 0:
                ctx.sample({"kind": "e2e", "size": len(blob), "chunk_size": cs,
                            "keep_chunks": keep, "file": gd.describe(model)})
            os.unlink(path)
    finally:
        srv.close()
        fake.close()
