"""C03 - the combined event filter equals the specification of the current settings.

Monitors (they record into the shard context and never raise inside dclab)
* ``icontract.ensure`` on the real ``dclab.rtdc_dataset.filter.Filter.update``: on every normal
  return the four public arrays ``filter.all / box / polygon / invalid`` are compared with
  ``vmon.model.c03_filterspec.filter_spec`` - a stateless evaluation of the *current*
  ``config["filtering"]``, the registered polygon filters it references and ``filter.manual``.
  With an event limit: ``all`` is a subset of the qualifying events and holds exactly
  ``min(limit, #qualifying)`` of them.
* recorder on ``Filter.reset`` (feeds the executable defect models, which need the history of
  the Filter instance; the oracle itself has no memory).
* driver level: history recorder (witnesses, non-triviality), every ``apply_filter`` must have
  produced exactly one monitor evaluation, re-application without a settings change must not
  change any array, and a freshly built dataset with the final settings and manual exclusions
  must give the same four arrays (reproducibility of the limited selection, independence of
  the history).

Oracle: vmon/model/c03_filterspec.py (exact range comparison, exact integer even-odd polygon
test with on-boundary mask; no dclab code).  The polygon test is cross-checked on every newly
evaluated polygon against two independently written definitions (``oracle_selfcheck``).
"""
import copy
import weakref

import numpy as np

PROP = "C03"
LEVEL = "exploration"
RULE = ("rand: dataset of 1..300 events with 2..5 scalar features (dyadic-grid / normal floats / "
        "float32 / small integers of several dtypes, NaN and +-inf sprinkled in) and a history of "
        "1..40 operations {set / change one bound / re-set / remove a range (both keys), reversed "
        "bounds, min == max, range on an absent feature, add / edit points in place / swap axes / "
        "invert / remove a polygon filter, toggle invalid removal, toggle enable, set / clear "
        "the event limit, edit or replace manual, reset_filter, apply, apply with force}; bounds "
        "are data values (ties), their float64 neighbours, midpoints, integers, +-inf; polygon "
        "vertices on the data grid, on data points or random. enum: ALL operation sequences of "
        "length <= 2 (quick) / <= 3 (thorough, 1 884 per environment) over the 12-operation alphabet "
        "{apply, apply_force, range_set, range_rev, range_del, range_eq, poly_add_or_edit, "
        "poly_remove, poly_invert, toggle_invalid, toggle_enable, reset} in 5 environments (plain; "
        "limit + manual exclusions; integer feature + invalid removal; range and polygon already "
        "applied; float32 feature with bounds one float64 ulp inside data values), each followed "
        "by a final apply. Every history ends with apply, re-apply and a "
        "comparison with a fresh dataset. Non-trivial = >= 2 judged applies with a settings change "
        "between them; distinct by (kind, environment/sequence or full history)")
ASSUMPTIONS = [
    "half-defined ranges (only min or only max), NaN bounds, polygon filters on features the "
    "dataset does not have, polygon ids missing from the global registry and polygons with fewer "
    "than 3 vertices are never generated (outside the statement); the oracle raises Undefined "
    "for them and the evaluation is skipped and counted",
    "events lying exactly on a closed polygon edge (exact integer collinearity + bounding box) "
    "are masked out of the polygon / all comparison; so are events within 2**-48 * max|vertex x| "
    "of an exact crossing abscissa (rigorous rounding bound of the double-precision kernel, see "
    "C15); with a limit the kept count must lie between the counts obtained with the masked "
    "events excluded / included",
    "events with a non-finite coordinate are outside every polygon (selected by an inverted one)",
    "range comparison is judged on the exact real values of the stored numbers (float32 data are "
    "widened exactly); bounds are Python int/float or numpy float64/float32 scalars",
    "the scalar features of the dataset are ds.features_scalar (the driver's data plus the "
    "ancillary 'index', whose values are read from the dataset)",
    "which of the qualifying events survive an event limit is not prescribed; only subset, count "
    "and reproducibility (re-application, fresh dataset) are judged",
]
LEVEL_TEXT = ("Exhaustive over all operation sequences of length <= 3 over the stated 12-operation "
              "alphabet in 5 environments (thorough), exploration beyond: thousands of random "
              "histories of up to 40 operations. On every normal return of the real Filter.update "
              "the four filter arrays were compared with a stateless, exact evaluation of the "
              "settings in force at that moment. Not a proof for all histories/data.")
LEVEL_NOTE = ("trusted: numpy comparisons on float64, Python integer arithmetic, "
              "float.as_integer_ratio; the agreement of three independently coded crossing-parity "
              "definitions (checked against each other on the events of every polygon). "
              "points_in_poly is the shipped compiled build (no Cython available).")
TECHNIQUE = ("runtime monitoring: icontract postcondition on Filter.update against a stateless "
             "reference evaluation (exact arithmetic); exhaustive short operation histories; "
             "differential against a freshly built dataset")
WATCHDOG_S = {"quick": 300, "thorough": 3000}

MECH_D02 = "range-removed-from-settings-stays-applied"
MECH_F32 = "range-bounds-compared-in-single-precision"
MECH_ZERO = "polygon-id-zero-dropped-on-list-assignment"

K_RAND, K_ENUM, K_CHILD = 0, 1, 2
ALPHABET = ["apply", "apply_force", "range_set", "range_rev", "range_del", "range_eq",
            "poly_add_or_edit", "poly_remove", "poly_invert", "toggle_invalid",
            "toggle_enable", "reset"]
N_ENV = 5


def _n_seq(maxlen):
    return sum(len(ALPHABET) ** k for k in range(1, maxlen + 1))


def _decode_seq(i):
    """i-th sequence in length-then-lexicographic order."""
    k = 1
    while i >= len(ALPHABET) ** k:
        i -= len(ALPHABET) ** k
        k += 1
    seq = []
    for _ in range(k):
        seq.append(i % len(ALPHABET))
        i //= len(ALPHABET)
    return seq[::-1]


def _counts(tier):
    if tier == "quick":
        return {"rand": 300, "enum_len": 2}
    return {"rand": 6000, "enum_len": 3}


def plan(tier, seed):
    c = _counts(tier)
    k = 16 if tier == "quick" else 48
    shards = [{"kind": "mix", "cases": []} for _ in range(k)]
    pos = 0
    for i in range(c["rand"]):
        shards[pos % k]["cases"].append([K_RAND, i])
        pos += 1
    for i in range(_n_seq(c["enum_len"]) * N_ENV):
        shards[pos % k]["cases"].append([K_ENUM, i])
        pos += 1
    for i in range(c["rand"] // 3):
        shards[pos % k]["cases"].append([K_CHILD, i])
        pos += 1
    return shards


def min_evals(tier):
    if tier == "quick":
        return {"all_equals_spec": 2500, "box_equals_spec": 3000, "polygon_equals_spec": 3000,
                "invalid_equals_spec": 3000, "limit_subset": 300, "limit_count": 300,
                "update_observed": 3000, "reapply_same": 900, "fresh_same": 900,
                "oracle_selfcheck": 5000, "no_exception": 3000}
    return {"all_equals_spec": 60000, "box_equals_spec": 80000, "polygon_equals_spec": 80000,
            "invalid_equals_spec": 80000, "limit_subset": 8000, "limit_count": 8000,
            "update_observed": 80000, "reapply_same": 13000, "fresh_same": 13000,
            "oracle_selfcheck": 100000, "no_exception": 80000}


MIN_EVALS = min_evals("quick")


# =============================================================================== monitors
class ContractBroken(Exception):
    pass


class _St:
    ctx = None
    data = {}            # id(dataset) -> {feature: array} as handed to dclab by the driver
    history = None       # op list of the running case (for witnesses)
    desc = None          # dataset description of the running case
    n_obs = 0            # number of monitor evaluations (to pair with apply_filter calls)
    last = None          # summary of the latest monitor evaluation
    poly_memo = {}
    models = weakref.WeakKeyDictionary()   # Filter instance -> _FilterHistoryModel


def _is_num(v):
    return isinstance(v, (int, float, np.integer, np.floating)) and not isinstance(v, bool)


def _differs(a, b, native):
    """a != b; native=True: with Python/NumPy operator semantics (a Python float compared with
    a np.float32 scalar is first rounded to single precision under NumPy >= 2), else exactly."""
    from vmon.model import c03_filterspec as fs
    if native or not (_is_num(a) and _is_num(b)):
        return bool(a != b)
    return not fs.bounds_equal(a, b)


class _FilterHistoryModel:
    """Executable defect models (they predict the deviating `box` array from the history of
    settings seen by one Filter instance):

    * stale: the per-feature range mask is recomputed only for features with a changed key
      *that is present in the current settings* (or forced), so a range whose two keys were
      deleted keeps its last mask (D02);
    * native: bounds are compared with NumPy >= 2 operator semantics instead of exactly: a
      Python scalar bound is rounded to the dtype of a float32/float16 feature before the
      comparison, and `min != max` / `changed since the last update` between a np.float32
      value and a Python float are decided in single precision.

    Two caches are simulated: (stale, exact arithmetic) and (stale, native arithmetic)."""

    def __init__(self):
        self.old = {}
        self.box = {0: {}, 1: {}}          # native flag -> {feature: mask}

    def reset(self):
        self.old = {}
        for d in self.box.values():
            d.clear()

    @staticmethod
    def _mask(arr, cfg, feat, native):
        from vmon.model import c03_filterspec as fs
        n = len(arr)
        arr = np.asarray(arr)
        kmin, kmax = feat + " min", feat + " max"
        if kmin not in cfg or kmax not in cfg:
            return np.ones(n, dtype=bool)
        lo, hi = cfg[kmin], cfg[kmax]
        if not native:
            if fs.bounds_equal(lo, hi):
                return np.ones(n, dtype=bool)
            lo, hi = fs.bounds_sorted(lo, hi)
            return fs.range_mask(arr, lo, hi)
        with np.errstate(all="ignore"):
            if not (lo != hi):
                return np.ones(n, dtype=bool)
            if lo > hi:
                lo, hi = hi, lo
            return np.asarray((lo <= arr) & (arr <= hi), dtype=bool)

    def update(self, cfg, force, data):
        for native, cache in self.box.items():
            changed = [k for k in cfg if k not in self.old
                       or _differs(cfg[k], self.old[k], native)]
            feats = {k[:-4] for k in changed
                     if isinstance(k, str) and (k.endswith(" min") or k.endswith(" max"))}
            feats |= set(force or [])
            for f in feats:
                if f in data:
                    cache[f] = self._mask(data[f], cfg, f, native)
        self.old = copy.deepcopy(cfg)

    def predicted_box(self, stale, native, cfg, data, n):
        out = np.ones(n, dtype=bool)
        if stale:
            for m in self.box[native].values():
                out &= m
        else:
            for f in data:
                out &= self._mask(data[f], cfg, f, native)
        return out

    def stale_features(self, cfg, data, native=0):
        """{feature: kind} for features whose cached mask differs from the mask of the current
        settings; kind 'removed' (both keys are gone) or 'present'"""
        out = {}
        for f, m in self.box[native].items():
            if f in data and not np.array_equal(m, self._mask(data[f], cfg, f, native)):
                gone = (f + " min") not in cfg and (f + " max") not in cfg
                out[f] = "removed" if gone else "present"
        return out


def _poly_eval(px, py, pts):
    """memoised evenodd_exact + cross-check against two independent definitions"""
    from vmon.model import c03_filterspec as fs
    key = (id(px), id(py), pts.shape, pts.tobytes())
    hit = _St.poly_memo.get(key)
    if hit is not None:
        return hit[0]
    r = fs.evenodd_exact(px, py, pts)
    _St.poly_memo[key] = (r, px, py)     # keep px/py alive so that ids stay unique
    ctx = _St.ctx
    if ctx is not None:
        ctx.count(f"polygon_arith[{r['path']}]")
        ctx.count("polygons_evaluated")
        ctx.count("polygon_events_on_boundary", int(r["onb"].sum()))
        ctx.count("polygon_events_in_rounding_band", int(r["near"].sum()))
        ctx.count("polygon_events_nonfinite", int((~r["finite"]).sum()))
        ctx.count("polygon_events_classified", int(r["finite"].sum()))
        _selfcheck(ctx, px, py, pts, r)
    return r


def _selfcheck(ctx, px, py, pts, r):
    from vmon.model import c03_filterspec as fs
    from vmon.model import c15_evenodd as c15
    sel = np.flatnonzero(r["finite"])[:32]
    if sel.size == 0:
        return
    qx = np.asarray(px, dtype=np.float64)[sel]
    qy = np.asarray(py, dtype=np.float64)[sel]
    other = c15.classify_float(pts, np.column_stack([qx, qy]))
    for k, i in enumerate(sel):
        ins2, on2 = fs.evenodd_fraction(qx[k], qy[k], pts)
        gen = other["generic"][k]
        ok = (bool(r["onb"][i]) == on2 == bool(other["onb"][k])
              and (on2 or (bool(r["inside"][i]) == ins2 == bool(other["inside"][k])
                           and (gen is None or gen == ins2))))
        ctx.check("oracle_selfcheck", ok,
                  lambda: {"point": [float(qx[k]), float(qy[k])], "polygon": pts.tolist(),
                           "c03": [bool(r["inside"][i]), bool(r["onb"][i])],
                           "fraction": [ins2, on2],
                           "c15": [other["inside"][k], other["onb"][k], gen]},
                  message="the exact even-odd definitions disagree with each other")


def _polygon_registry(ids):
    """{id: axes/points/inverted} of the registered polygon filters (attribute reads only)."""
    from dclab.polygon_filter import PolygonFilter
    out = {}
    for inst in PolygonFilter.instances:
        if inst.unique_id in ids and inst.unique_id not in out:
            out[inst.unique_id] = {"axes": tuple(inst.axes),
                                   "points": np.array(inst._points, dtype=np.float64),
                                   "inverted": bool(inst.inverted)}
    return out


def _dataset_data(rtdc_ds):
    """scalar feature data of the dataset: the arrays the driver handed over, plus what only
    the dataset can tell (ancillary features such as 'index')."""
    ctx = _St.ctx
    base = _St.data.get(id(rtdc_ds))
    data = dict(base) if base is not None else {}
    for feat in rtdc_ds.features_scalar:
        if feat not in data:
            data[feat] = np.asarray(rtdc_ds[feat])
            if ctx is not None:
                ctx.count(f"feature_read_from_dataset[{feat}]")
    if base is not None:
        # only features dclab lists take part
        data = {f: a for f, a in data.items() if f in set(rtdc_ds.features_scalar)}
    return data


def _update_post(self, rtdc_ds, force):
    ctx = _St.ctx
    if ctx is None:
        return True
    try:
        _judge_update(ctx, self, rtdc_ds, force)
    except Exception as exc:     # a monitor must never disturb the monitored code
        ctx.error("monitor Filter.update", exc)
    return True


def _judge_update(ctx, flt, rtdc_ds, force):
    from vmon.model import c03_filterspec as fs
    _St.n_obs += 1
    ctx.ev("update_observed")
    cfg = copy.deepcopy(dict(rtdc_ds.config["filtering"].data))
    data = _dataset_data(rtdc_ds)
    manual = np.array(flt.manual, copy=True)
    observed = {k: np.array(getattr(flt, k), copy=True)
                for k in ("all", "box", "polygon", "invalid")}
    model = _St.models.get(flt)
    if model is None:
        # Filter created before the monitors were installed / unknown history
        model = _St.models[flt] = _FilterHistoryModel()
        ctx.count("filter_history_unknown")
    model.update(cfg, list(force or []), data)
    summary = {"observed": observed, "tags": [], "untagged": 0, "skipped": False,
               "history_dependent": set()}
    _St.last = summary
    try:
        polys = _polygon_registry(set(cfg.get("polygon filters", [])))
        spec = fs.filter_spec(data, cfg, polys, manual, poly_eval=_poly_eval)
    except fs.Undefined as exc:
        ctx.count(f"skipped_undefined[{str(exc).split(' for ')[0][:40]}]")
        summary["skipped"] = True
        return
    summary["spec"] = spec
    n = spec["n"]
    ctx.count(f"active_ranges_per_apply[{min(len(spec['ranges']), 4)}]")
    ctx.count(f"polygons_per_apply[{min(spec['n_poly'], 3)}]")
    ctx.count("events_judged", n)
    ctx.count("events_polygon_dont_care", int(spec["poly_dc"].sum()))
    if not spec["enabled"]:
        ctx.count("applies_with_filters_disabled")
    if cfg["remove invalid events"]:
        ctx.count("applies_with_invalid_removal")
    if spec["limit"]:
        ctx.count("applies_with_limit")
        if spec["limit"] < int(spec["all_lo"].sum()):
            ctx.count("applies_where_limit_cuts")
    if not manual.all():
        ctx.count("applies_with_manual_exclusions")
    stale = model.stale_features(cfg, data, 0)
    stale_native = model.stale_features(cfg, data, 1)
    summary["history_dependent"] = ({MECH_D02} if "removed" in stale.values() else set()) | \
        ({MECH_F32} if "present" in stale_native.values() else set())
    if stale:
        ctx.count("applies_with_stale_cached_range(defect_model)")
    results = fs.judge(observed, spec)
    bad = [m for m, (ok, _d) in results.items() if not ok]
    variant_fit = None
    if bad:
        pf_masks = getattr(flt, "_box_filters", None)
        if isinstance(pf_masks, dict):
            pf_masks = {f: np.array(m, copy=True) for f, m in pf_masks.items()}
        else:
            pf_masks = None
        variant_fit = _explain(model, cfg, data, n, observed, spec, pf_masks)
    for mon, (ok, detail) in results.items():
        finding = None
        if not ok and variant_fit is not None and mon in variant_fit["monitors"]:
            finding = variant_fit["finding"]
        if not ok:
            if finding:
                summary["tags"].append(finding)
            else:
                summary["untagged"] += 1
        ctx.check(mon, ok,
                  lambda: _witness(cfg, polys, manual, observed, spec, detail, force, stale,
                                   variant_fit),
                  finding=finding,
                  message=(f"{mon}: the filter arrays differ from the stateless evaluation of "
                           f"the current settings: {detail}"))


def _explain(model, cfg, data, n, observed, spec, per_feature=None):
    """Try the defect models; returns {"finding", "monitors", "variant"} for the first one that
    predicts a deviation from the spec AND reproduces the observed box array exactly (and,
    through it, the observed `all`)."""
    for stale, native in ((1, 0), (0, 1), (1, 1)):
        if stale:
            kinds = model.stale_features(cfg, data, native)
            if not kinds:
                continue
            if not native and any(k != "removed" for k in kinds.values()):
                continue                  # D02 is about ranges whose two keys are gone
            finding = MECH_D02 if "removed" in kinds.values() else MECH_F32
        else:
            finding = MECH_F32
        pbox = model.predicted_box(stale, native, cfg, data, n)
        if np.array_equal(pbox, spec["box"]):
            continue                      # this model predicts no deviation at all
        if not np.array_equal(pbox, observed["box"]):
            continue
        if per_feature is not None:
            # specificity: the model must also reproduce every per-feature mask the Filter
            # holds (internal state, read for tagging only - never by the oracle)
            ones = np.ones(n, dtype=bool)
            same = True
            for f in set(per_feature) | set(model.box[native] if stale else ()):
                if f not in data:
                    continue
                pm = (model.box[native].get(f, ones) if stale
                      else model._mask(data[f], cfg, f, native))
                if not np.array_equal(pm, per_feature.get(f, ones)):
                    same = False
                    break
            if not same:
                continue
        return _fit([stale, native], finding, pbox, observed, spec)
    return None


def _fit(variant, finding, pbox, observed, spec):
    from vmon.model import c03_filterspec as fs
    # conj = box & invalid & manual & polygon ; replace the box factor.
    manual = spec["manual"]
    rest = pbox & spec["invalid"] & manual
    spec2 = dict(spec)
    spec2["box"] = pbox
    spec2["conj_lo"] = rest & spec["polygon"]
    spec2["conj_hi"] = rest & spec["polygon_hi"]
    if spec["enabled"]:
        spec2["all_lo"], spec2["all_hi"] = spec2["conj_lo"], spec2["conj_hi"]
    res2 = fs.judge(observed, spec2)
    if all(ok for ok, _d in res2.values()):
        return {"finding": finding, "variant": list(variant),
                "monitors": {"box_equals_spec", "all_equals_spec", "limit_subset",
                             "limit_count"}}
    # the box is explained, `all` is not: tag the box only
    return {"finding": finding, "variant": list(variant), "monitors": {"box_equals_spec"}}


def _witness(cfg, polys, manual, observed, spec, detail, force, stale, variant_fit):
    return {"dataset": _St.desc, "settings": cfg, "force": list(force or []),
            "polygons": {str(k): {"axes": list(v["axes"]), "points": v["points"].tolist(),
                                  "inverted": v["inverted"]} for k, v in polys.items()},
            "manual_excluded": np.flatnonzero(~manual)[:20].tolist(),
            "detail": detail,
            "active_ranges": [[f, repr(lo), repr(hi)] for f, lo, hi in spec["ranges"]],
            "observed_sums": {k: int(v.sum()) for k, v in observed.items()},
            "expected_sums": {"box": int(spec["box"].sum()), "invalid": int(spec["invalid"].sum()),
                              "polygon": [int(spec["polygon"].sum()),
                                          int(spec["polygon_hi"].sum())],
                              "all": [int(spec["all_lo"].sum()), int(spec["all_hi"].sum())],
                              "limit": spec["limit"]},
            "defect_model": {"stale_features": stale, "fit": None if variant_fit is None else
                             {"finding": variant_fit["finding"],
                              "variant_stale_native": variant_fit["variant"]}},
            "history_tail": (_St.history or [])[-14:], "history_len": len(_St.history or [])}


def _mk_reset(orig):
    def reset(self):
        out = orig(self)
        try:
            m = _St.models.get(self)
            if m is None:
                _St.models[self] = _FilterHistoryModel()
            else:
                m.reset()
            if _St.ctx is not None:
                _St.ctx.count("filter_resets_observed")
        except Exception as exc:
            if _St.ctx is not None:
                _St.ctx.error("monitor Filter.reset", exc)
        return out
    return reset


_installed = False


def install():
    global _installed
    if _installed:
        return
    _installed = True
    import icontract
    from dclab.rtdc_dataset import filter as dfilter
    from vmon.contracts import wrap_method
    F = dfilter.Filter
    F.update = icontract.ensure(_update_post, error=ContractBroken)(F.update)
    wrap_method(F, "reset", _mk_reset)


# =============================================================================== generators
FLOAT_FEATS = ["area_um", "deform", "bright_avg", "aspect", "userdef1", "tilt"]
INT_FEATS = ["fl1_npeaks", "nevents", "userdef2"]
ABSENT_FEATS = ["volume", "fl3_max"]


def _gen_feature(rng, n, style, bad):
    if style == "grid":
        a = rng.integers(-8, 41, n) / 4.0
    elif style == "float":
        scale = float(rng.choice([1e-3, 1.0, 1e3]))
        a = rng.normal(float(rng.choice([0.0, 1.0, 50.0])) * scale, scale, n)
    elif style == "f32":
        scale = float(rng.choice([1e-2, 1.0, 1e2]))
        a = rng.normal(scale, scale, n).astype(np.float32)
    else:
        dt = [np.int64, np.uint8, np.int32, np.uint16, np.uint64][int(rng.integers(0, 5))]
        return rng.integers(0, int(rng.choice([3, 12, 200])), n).astype(dt)
    if bad:
        r = rng.random(n)
        a = a.copy()
        a[r < 0.08] = np.nan
        a[(r >= 0.08) & (r < 0.11)] = np.inf
        a[(r >= 0.11) & (r < 0.14)] = -np.inf
    return a


def gen_dataset(rng):
    u = rng.random()
    if u < 0.10:
        n = 1
    elif u < 0.55:
        n = int(rng.integers(2, 31))
    elif u < 0.9:
        n = int(rng.integers(31, 121))
    else:
        n = int(rng.integers(121, 301))
    nf = int(rng.integers(2, 6))
    names = list(rng.permutation(FLOAT_FEATS)[:nf])
    if rng.random() < 0.5:
        names[-1] = str(rng.choice(INT_FEATS))
    bad = rng.random() < 0.6
    flavour = rng.random()
    data, styles = {}, {}
    for k, f in enumerate(names):
        if f in INT_FEATS:
            st = "int"
        elif flavour < 0.45:
            st = "grid"
        elif flavour < 0.75:
            st = "float" if k else "grid"
        elif flavour < 0.88:
            st = "float"
        else:
            st = "f32" if k == 0 else str(rng.choice(["grid", "float", "f32"]))
        data[str(f)] = _gen_feature(rng, n, st, bad)
        styles[str(f)] = st
    return n, data, styles


def _finite_values(arr):
    a = np.asarray(arr)
    a = a[np.isfinite(a)] if a.dtype.kind == "f" else a
    return a


def gen_bound(rng, arr):
    fv = _finite_values(arr)
    if fv.size == 0:
        fv = np.array([0.0, 1.0])
    v = float(fv[int(rng.integers(0, fv.size))])
    w = float(fv[int(rng.integers(0, fv.size))])
    u = rng.random()
    if u < 0.30:
        return v                                             # tie with a data value
    if u < 0.45:
        return float(np.nextafter(v, np.inf if rng.random() < 0.5 else -np.inf))
    if u < 0.60:
        return (v + w) / 2
    if u < 0.80:
        lo, hi = float(fv.min()), float(fv.max())
        span = (hi - lo) or 1.0
        return float(rng.uniform(lo - 0.2 * span, hi + 0.2 * span))
    if u < 0.86:
        return float(np.inf) if rng.random() < 0.5 else float(-np.inf)
    if u < 0.94:
        return int(np.floor(v)) if abs(v) < 1e15 else v      # Python int
    if u < 0.97:
        return np.float64(v)
    return np.float32(v)


def gen_polygon_points(rng, ax, ay, styles, outline=False):
    fx, fy = _finite_values(ax), _finite_values(ay)
    if fx.size == 0:
        fx = np.array([0.0, 1.0])
    if fy.size == 0:
        fy = np.array([0.0, 1.0])
    L = int(rng.integers(3, 9))
    u = rng.random()
    if outline:
        # a traced outline with thousands of vertices (more bytes than any block a hash or a
        # copy may work in)
        L, u = int(rng.choice([4097, 5000, 6500, 9001])), 0.9
    gridlike = all(s in ("grid", "int", "index") for s in styles)
    if gridlike and u < 0.6:
        # vertices on the half grid covered by the data: ties on edges and vertices
        def pick(f):
            lo, hi = np.floor(float(f.min())) - 1, np.ceil(float(f.max())) + 1
            hi = min(hi, lo + 60)
            return lo + rng.integers(0, int((hi - lo) * 2) + 1, L) / 2.0
        pts = np.column_stack([pick(fx), pick(fy)])
    elif u < 0.8:
        # vertices on data points (finite in both) / mixed coordinates of data points
        pts = np.column_stack([fx[rng.integers(0, fx.size, L)], fy[rng.integers(0, fy.size, L)]])
        pts = pts.astype(np.float64)
        jit = rng.random(L) < 0.5
        sx = (float(fx.max()) - float(fx.min())) or 1.0
        sy = (float(fy.max()) - float(fy.min())) or 1.0
        pts[jit, 0] += rng.normal(0, 0.3 * sx, int(jit.sum()))
        pts[jit, 1] += rng.normal(0, 0.3 * sy, int(jit.sum()))
    else:
        cx, cy = float(np.median(fx)), float(np.median(fy))
        sx = (float(fx.max()) - float(fx.min())) or 1.0
        sy = (float(fy.max()) - float(fy.min())) or 1.0
        ang = np.sort(rng.uniform(0, 2 * np.pi, L))
        rad = rng.uniform(0.1, 0.8, L)
        pts = np.column_stack([cx + sx * rad * np.cos(ang), cy + sy * rad * np.sin(ang)])
    if rng.random() < 0.15 and not outline:
        pts = np.vstack([pts, pts[:1]])                      # explicit closing vertex
    return np.asarray(pts, dtype=np.float64)


# =============================================================================== the case runner
class Case:
    """One dataset + the operations on it.  Every operation is recorded in `hist`."""

    def __init__(self, ctx, n, data, styles):
        import dclab
        self.ctx = ctx
        self.dclab = dclab
        self.n = n
        self.data = data
        self.styles = dict(styles)
        self.styles["index"] = "index"
        self.ds = dclab.new_dataset(data)
        _St.data[id(self.ds)] = data
        self.cfg = self.ds.config["filtering"]
        self.hist = []
        _St.history = self.hist
        _St.desc = {"n_events": n, "features": {f: f"{styles[f]}/{np.asarray(a).dtype}"
                                                for f, a in data.items()}}
        self.polys = []             # PolygonFilter instances created by this case
        self.applies = 0
        self.applies_after_change = 0
        self.changed = False
        self.tags = set()
        self.untagged = 0
        self.feats = list(data) + ["index"]

    def arr(self, feat):
        if feat == "index":
            return np.arange(1, self.n + 1)
        return self.data[feat]

    # ---------------------------------------------------------------- settings operations
    def log(self, *op):
        self.hist.append(list(op))
        self.ctx.count(f"op[{op[0]}]")

    def set_range(self, feat, lo, hi, tag="range_set"):
        self.log(tag, feat, repr(lo), repr(hi))
        self.cfg[feat + " min"] = lo
        self.cfg[feat + " max"] = hi
        if feat not in ABSENT_FEATS:
            self.stored(feat + " min", lo)
            self.stored(feat + " max", hi)
        self.changed = True

    def set_one_bound(self, feat, which, val):
        self.log("range_change_one_bound", feat, which, repr(val))
        self.cfg[f"{feat} {which}"] = val
        self.changed = True

    def del_range(self, feat, how=0):
        present = (feat + " min") in self.cfg
        self.log("range_del", feat, "present" if present else "absent", how)
        if present:
            if how:
                self.cfg.pop(feat + " min")
                self.cfg.pop(feat + " max")
            else:
                del self.cfg[feat + " min"]
                del self.cfg[feat + " max"]
            self.changed = True

    def poly_new(self, axes, pts, inverted=False):
        pf = self.dclab.PolygonFilter(axes=tuple(axes), points=pts, inverted=bool(inverted))
        self.polys.append(pf)
        return pf

    def poly_add(self, pf, how=0):
        """how: 0 ds.polygon_filter_add, 1 assignment of a new list, 2 list.append"""
        self.log("poly_add", pf.unique_id, list(pf.axes), pf.points.tolist(), pf.inverted,
                 ["polygon_filter_add", "assign_list", "append"][how])
        want = list(self.cfg["polygon filters"]) + [pf.unique_id]
        if how == 1:
            self.cfg["polygon filters"] = list(want)
        elif how == 2:
            self.cfg["polygon filters"].append(pf.unique_id)
        else:
            self.ds.polygon_filter_add(pf)
        self.stored("polygon filters", want)
        self.changed = True

    def stored(self, key, want):
        """driver-level: the setting the operation wrote is the setting that is in force"""
        got = self.cfg[key] if key in self.cfg else None
        if _is_num(want) and _is_num(got):
            from vmon.model import c03_filterspec as fs
            ok = fs.bounds_equal(got, want)          # exact value, whatever the numeric type
        else:
            ok = got == want and type(got) is type(want)
        finding = None
        if not ok and key == "polygon filters" and isinstance(got, list) \
                and got == [i for i in want if i]:
            finding = MECH_ZERO        # defect model: list conversion skips falsy items
        self.ctx.check("setting_stored", ok,
                       lambda: {"key": key, "written": want, "read_back": got,
                                "history_tail": self.hist[-6:]},
                       finding=finding,
                       message=f"config['filtering'][{key!r}] = {want!r} reads back as {got!r}")
        if not ok:
            if finding:
                self.tags.add(finding)
            else:
                self.untagged += 1

    def poly_edit(self, pf, pts):
        self.log("poly_edit_points", pf.unique_id, np.asarray(pts).tolist())
        pf.points = np.asarray(pts, dtype=np.float64)
        self.changed = True

    def poly_swap_axes(self, pf):
        self.log("poly_swap_axes", pf.unique_id)
        pf.axes = (pf.axes[1], pf.axes[0])
        self.changed = True

    def poly_invert(self, pf):
        self.log("poly_invert", pf.unique_id, not pf.inverted)
        pf.inverted = not pf.inverted
        self.changed = True

    def poly_remove(self, uid, how=0):
        """how: 0 ds.polygon_filter_rm, 1 assignment of a new list"""
        present = uid in self.cfg["polygon filters"]
        self.log("poly_remove", uid, "present" if present else "absent",
                 ["polygon_filter_rm", "assign_list"][how])
        if present:
            if how:
                want = [i for i in self.cfg["polygon filters"] if i != uid]
                self.cfg["polygon filters"] = list(want)
                self.stored("polygon filters", want)
            else:
                self.ds.polygon_filter_rm(uid)
            self.changed = True

    def toggle(self, key):
        new = not self.cfg[key]
        self.log("toggle", key, new)
        self.cfg[key] = new
        self.stored(key, new)
        self.changed = True

    def set_limit(self, val):
        self.log("limit", val)
        self.cfg["limit events"] = val
        self.stored("limit events", val)
        self.changed = True

    def manual_edit(self, idx, val, replace=False):
        self.log("manual", [int(i) for i in idx], bool(val), "replace" if replace else "inplace")
        if replace:
            m = np.array(self.ds.filter.manual, copy=True)
            m[idx] = val
            self.ds.filter.manual = m
        else:
            self.ds.filter.manual[idx] = val
        self.changed = True

    def reset(self):
        self.log("reset_filter")
        self.ds.reset_filter()
        self.changed = True

    # ---------------------------------------------------------------- judged operations
    def apply(self, force=None, ds=None, label="apply"):
        ctx = self.ctx
        ds = self.ds if ds is None else ds
        if ds is self.ds:
            self.log(label if not force else "apply_force", *([list(force)] if force else []))
        before = _St.n_obs
        _St.last = None
        try:
            if force:
                ds.apply_filter(force=list(force))
            else:
                ds.apply_filter()
        except Exception as exc:
            ctx.ev("no_exception")
            ctx.violation("no_exception",
                          {"dataset": _St.desc, "settings": copy.deepcopy(dict(ds.config["filtering"].data)),
                           "exc": repr(exc), "history_tail": self.hist[-14:]},
                          message=f"apply_filter raised {exc!r}")
            self.untagged += 1
            return None
        ctx.ev("no_exception")
        seen = _St.n_obs - before
        ctx.check("update_observed_once", seen == 1,
                  {"monitor_evaluations": seen, "history_tail": self.hist[-6:]},
                  message=f"apply_filter led to {seen} evaluations of the Filter.update contract")
        obs = _St.last
        if obs is not None:
            self.tags.update(obs["tags"])
            self.untagged += obs["untagged"]
        if ds is self.ds:
            self.applies += 1
            if self.changed and self.applies > 1:
                self.applies_after_change += 1
            self.changed = False
        return obs

    def refused_apply(self, rng):
        """An application that the library refuses (documented ValueError: a range with only
        one bound, an unknown feature name in `force`), caught by the client, the cause
        repaired, then applied again: the settings that were pending at the refused call are
        part of the current settings."""
        ctx = self.ctx
        free = [f for f in self.feats
                if (f + " min") not in self.cfg and (f + " max") not in self.cfg]
        key = None
        if free and rng.random() < 0.6:
            f = sorted(free)[0] if rng.random() < 0.5 else str(rng.choice(free))
            key = f + (" min" if rng.random() < 0.5 else " max")
            self.cfg[key] = 1.0
            what = "half-open range"
            self.log("range_one_bound_only", key)
        else:
            what = "unknown feature in force"
        try:
            if key is None:
                self.ds.apply_filter(force=["not_a_feature"])
            else:
                self.ds.apply_filter()
            outcome = "accepted"
        except ValueError:
            outcome = "refused"
        if key is not None:
            del self.cfg[key]
        self.log("apply_refused_and_caught", what, outcome)
        ctx.count(f"refused_apply[{what}:{outcome}]")
        self.changed = True
        return self.apply(label="apply_after_refusal")

    def snapshot(self, ds=None):
        f = (self.ds if ds is None else ds).filter
        return {k: np.array(getattr(f, k), copy=True) for k in ("all", "box", "polygon", "invalid")}

    def finish(self):
        """final apply, re-apply, fresh dataset with the final settings"""
        ctx = self.ctx
        obs = self.apply()
        if obs is None:
            return
        first = self.snapshot()
        tags_before = set(obs["tags"])
        hist_dep = set(obs["history_dependent"])
        untagged_before = obs["untagged"]
        obs2 = self.apply(ds=self.ds, label="reapply")
        if obs2 is not None:
            second = self.snapshot()
            same = all(np.array_equal(first[k], second[k]) for k in first)
            ctx.check("reapply_same", same,
                      lambda: {"dataset": _St.desc, "differs": [k for k in first if not
                                                                np.array_equal(first[k], second[k])],
                               "settings": copy.deepcopy(dict(self.cfg.data)),
                               "history_tail": self.hist[-14:]},
                      message="a second apply_filter without any settings change altered the "
                              "filter arrays")
        # fresh dataset
        fresh = self.dclab.new_dataset(self.data)
        _St.data[id(fresh)] = self.data
        try:
            for k, v in dict(self.cfg.data).items():
                if k == "polygon filters":
                    # in place: assigning a list is lossy for id 0 (finding MECH_ZERO)
                    fresh.config["filtering"][k].extend(v)
                else:
                    fresh.config["filtering"][k] = copy.deepcopy(v)
            ctx.check("fresh_settings_equal",
                      dict(fresh.config["filtering"].data) == dict(self.cfg.data),
                      lambda: {"fresh": copy.deepcopy(dict(fresh.config["filtering"].data)),
                               "history": copy.deepcopy(dict(self.cfg.data))},
                      message="harness: could not reproduce the settings on a fresh dataset")
            fresh.filter.manual[:] = self.ds.filter.manual
            obs3 = self.apply(ds=fresh)
            if obs3 is not None:
                third = self.snapshot(fresh)
                differs = [k for k in first if not np.array_equal(first[k], third[k])]
                finding = None
                if "box" in differs and not ({"polygon", "invalid"} & set(differs)) \
                        and not untagged_before and not obs3["untagged"]:
                    # Only the range part differs, and both datasets are either equal to the
                    # spec or deviate from it exactly as a defect model predicts (a stale mask
                    # may coincide with the spec while the fresh dataset shows the
                    # single-precision deviation).  The history-dependent mechanism explains
                    # the difference between the two.
                    cand = hist_dep | tags_before | set(obs3["tags"])
                    if MECH_D02 in (hist_dep | tags_before):
                        finding = MECH_D02
                    elif MECH_F32 in cand:
                        finding = MECH_F32
                ctx.check("fresh_same", not differs,
                          lambda: {"dataset": _St.desc, "differs": differs,
                                   "settings": copy.deepcopy(dict(self.cfg.data)),
                                   "history_sums": {k: int(v.sum()) for k, v in first.items()},
                                   "fresh_sums": {k: int(v.sum()) for k, v in third.items()},
                                   "history_tail": self.hist[-14:], "history_len": len(self.hist)},
                          finding=finding,
                          message=f"a fresh dataset with the same settings gives different "
                                  f"filter arrays {differs}")
        finally:
            _St.data.pop(id(fresh), None)

    def close(self):
        _St.data.pop(id(self.ds), None)
        _St.poly_memo.clear()
        _St.history = None
        _St.desc = None
        self.dclab.PolygonFilter.clear_all_filters()


# ------------------------------------------------------------------------------- random histories
def run_rand(ctx, idx):
    rng = ctx.rng(idx)
    n, data, styles = gen_dataset(rng)
    c = Case(ctx, n, data, styles)
    try:
        nops = int(rng.integers(1, 41))
        ctx.count(f"history_length[{(nops - 1) // 10 * 10 + 1}-{(nops - 1) // 10 * 10 + 10}]")
        ctx.count(f"events[{'1' if n == 1 else '2-30' if n <= 30 else '31-120' if n <= 120 else '121-300'}]")
        for _ in range(nops):
            _random_op(c, rng)
        c.finish()
        if c.applies_after_change >= 1:
            ctx.mark_nontrivial(["rand", idx[1], c.hist])
        if idx[1] % 211 == 0:
            ctx.sample({"kind": "rand", "case": idx, "dataset": _St.desc, "history": c.hist[:25]})
    finally:
        c.close()


def _random_op(c, rng):
    u = rng.random()
    feats = c.feats
    ranged = sorted({k[:-4] for k in c.cfg.data if k.endswith(" min") and (k[:-4] + " max") in c.cfg})
    configured = list(c.cfg["polygon filters"])
    if u < 0.03:
        c.refused_apply(rng)
    elif u < 0.24:
        c.apply()
    elif u < 0.29:
        k = int(rng.integers(1, 3))
        pool = feats + (ABSENT_FEATS if rng.random() < 0.1 else [])
        c.apply(force=[str(f) for f in rng.choice(pool, size=min(k, len(pool)), replace=False)])
    elif u < 0.44:
        f = str(rng.choice(feats))
        lo, hi = gen_bound(rng, c.arr(f)), gen_bound(rng, c.arr(f))
        if rng.random() < 0.8 and lo > hi:
            lo, hi = hi, lo
        c.set_range(f, lo, hi, "range_set" if lo <= hi else "range_rev")
    elif u < 0.48:
        f = str(rng.choice(feats))
        lo, hi = gen_bound(rng, c.arr(f)), gen_bound(rng, c.arr(f))
        if lo < hi:
            lo, hi = hi, lo
        c.set_range(f, lo, hi, "range_rev")
    elif u < 0.52:
        f = str(rng.choice(feats))
        v = gen_bound(rng, c.arr(f))
        c.set_range(f, v, v, "range_eq")
    elif u < 0.57:
        if ranged:
            f = str(rng.choice(ranged))
            c.set_one_bound(f, "min" if rng.random() < 0.5 else "max", gen_bound(rng, c.arr(f))
                            if f in feats else 1.0)
        else:
            c.log("noop")
    elif u < 0.59:
        if ranged:                                           # re-set the identical values
            f = str(rng.choice(ranged))
            c.set_range(f, c.cfg[f + " min"], c.cfg[f + " max"], "range_reset_same")
        else:
            c.log("noop")
    elif u < 0.60:
        f = str(rng.choice(ABSENT_FEATS))
        c.set_range(f, 1.0, 2.0, "range_absent_feature")
    elif u < 0.69:
        f = str(rng.choice(ranged)) if ranged and rng.random() < 0.85 else str(rng.choice(feats))
        c.del_range(f, how=int(rng.random() < 0.3))
    elif u < 0.75:
        if len(c.polys) < 4:
            fx, fy = [str(f) for f in rng.choice(feats, size=2, replace=False)]
            outline = bool(rng.random() < 0.03)
            pts = gen_polygon_points(rng, c.arr(fx), c.arr(fy), [c.styles[fx], c.styles[fy]],
                                     outline=outline)
            if outline:
                c.ctx.count("polygons_with_thousands_of_vertices")
            pf = c.poly_new((fx, fy), pts, inverted=rng.random() < 0.3)
            c.poly_add(pf, how=int(rng.choice([0, 0, 1, 2])))
            if outline:
                # applied, then the end of the outline is redrawn (once or twice), applied again
                c.apply()
                for _ in range(int(rng.integers(1, 3))):
                    p2 = pf.points.copy()
                    k0 = len(p2) - int(rng.integers(2, 60))
                    cen = p2.mean(axis=0)
                    p2[k0:] = cen + (p2[k0:] - cen) * rng.uniform(0.2, 3.0)
                    c.poly_edit(pf, p2)
                    c.apply()
        elif c.polys:
            pf = c.polys[int(rng.integers(0, len(c.polys)))]
            c.poly_add(pf, how=int(rng.choice([0, 0, 1, 2])))     # (re-)add an existing one
    elif u < 0.80:
        if c.polys:
            pf = c.polys[int(rng.integers(0, len(c.polys)))]
            fx, fy = pf.axes
            if rng.random() < 0.2:
                c.poly_swap_axes(pf)
            elif rng.random() < 0.5 or len(pf.points) > 1000:
                pts = pf.points.copy()
                k = int(rng.integers(0, len(pts)))
                if len(pts) > 1000:
                    # the end of a long outline is redrawn
                    k0 = len(pts) - int(rng.integers(2, 60))
                    cen = pts.mean(axis=0)
                    pts[k0:] = cen + (pts[k0:] - cen) * rng.uniform(0.2, 3.0)
                    k = len(pts) - 1
                new = gen_polygon_points(rng, c.arr(fx), c.arr(fy), [c.styles[fx], c.styles[fy]])
                pts[k] = new[0]
                c.poly_edit(pf, pts)
            else:
                c.poly_edit(pf, gen_polygon_points(rng, c.arr(fx), c.arr(fy),
                                                   [c.styles[fx], c.styles[fy]]))
        else:
            c.log("noop")
    elif u < 0.84:
        if configured:
            c.poly_remove(int(rng.choice(configured)), how=int(rng.random() < 0.3))
        else:
            c.log("noop")
    elif u < 0.88:
        if c.polys:
            c.poly_invert(c.polys[int(rng.integers(0, len(c.polys)))])
        else:
            c.log("noop")
    elif u < 0.91:
        c.toggle("remove invalid events")
    elif u < 0.94:
        c.toggle("enable filters")
    elif u < 0.965:
        if c.cfg["limit events"] and rng.random() < 0.5:
            c.set_limit(0)
        else:
            c.set_limit(int(rng.choice([1, 2, 3, max(1, c.n // 2), c.n, c.n + 5, 1000])))
    elif u < 0.99:
        k = int(rng.integers(1, 6))
        idx = rng.integers(0, c.n, k)
        c.manual_edit(idx, rng.random() < 0.3, replace=rng.random() < 0.15)
    else:
        c.reset()


# ------------------------------------------------------------------------------- enumeration
def _enum_dataset(ctx, env):
    """fixed structure, values from (seed, env): 12 events, ties, NaN/inf (env 0, 1, 3), an
    integer feature (env 2) or a float32 feature (env 4)"""
    rng = ctx.rng([K_ENUM, 10 ** 6 + env], salt=1)
    n = 12
    y = rng.integers(0, 17, n) / 4.0
    if env == 2:
        x = rng.integers(0, 8, n).astype(np.int64)
        data = {"fl1_npeaks": x, "deform": y.copy()}
        data["deform"][int(rng.integers(0, n))] = np.nan
        return n, data, {"fl1_npeaks": "int", "deform": "grid"}, "fl1_npeaks", "deform"
    if env == 4:
        # single-precision feature whose values are not dyadic; the enumerated ranges use bounds
        # one float64 ulp inside two data values, which therefore lie outside the range
        x = (rng.integers(1, 40, n) / 10.0).astype(np.float32)
        return n, {"area_um": x, "deform": y}, {"area_um": "f32", "deform": "grid"}, \
            "area_um", "deform"
    x = rng.integers(0, 17, n) / 4.0
    x[int(rng.integers(0, 4))] = np.nan
    x[int(rng.integers(4, 8))] = np.inf
    y[int(rng.integers(8, 12))] = -np.inf
    return n, {"area_um": x, "deform": y}, {"area_um": "grid", "deform": "grid"}, "area_um", "deform"


def run_enum(ctx, idx):
    tier_len = 2 if ctx.tier == "quick" else 3
    nseq = _n_seq(tier_len)
    env, si = divmod(idx[1], nseq)
    seq = _decode_seq(si)
    n, data, styles, fx, fy = _enum_dataset(ctx, env)
    c = Case(ctx, n, data, styles)
    try:
        xs = np.sort(np.unique(_finite_values(data[fx]).astype(np.float64)))
        q = lambda p: float(xs[min(len(xs) - 1, int(p * len(xs)))])     # noqa: E731
        R1 = (q(0.25), q(0.75))                 # ties with data values on both bounds
        R2 = (q(0.9), q(0.1))                   # reversed, different values
        REQ = q(0.5)
        if env == 4:
            R1 = (float(np.nextafter(R1[0], np.inf)), float(np.nextafter(R1[1], -np.inf)))
            R2 = (float(np.nextafter(R2[0], -np.inf)), float(np.nextafter(R2[1], np.inf)))
        P1 = np.array([[0.5, 0.5], [3.0, 0.5], [3.0, 3.0], [0.5, 3.0]])
        P2 = np.array([[1.0, 0.0], [4.0, 2.0], [2.0, 4.0], [0.0, 2.0], [2.0, 2.0]])
        pf = None
        # environment
        if env == 1:
            c.set_limit(3)
            c.manual_edit([0, 5], False)
        elif env == 2:
            c.toggle("remove invalid events")
        elif env == 3:
            c.set_range(fx, *R1)
            pf = c.poly_new((fx, fy), P1)
            c.poly_add(pf)
            c.apply()
        c.log("--- enumerated sequence", [ALPHABET[s] for s in seq])
        state = {"edit": 0}
        for s in seq:
            op = ALPHABET[s]
            if op == "apply":
                c.apply()
            elif op == "apply_force":
                c.apply(force=[fx])
            elif op == "range_set":
                c.set_range(fx, *R1)
            elif op == "range_rev":
                c.set_range(fx, *R2, tag="range_rev")
            elif op == "range_del":
                c.del_range(fx)
            elif op == "range_eq":
                c.set_range(fx, REQ, REQ, tag="range_eq")
            elif op == "poly_add_or_edit":
                if pf is None:
                    pf = c.poly_new((fx, fy), P1)
                    c.poly_add(pf)
                elif pf.unique_id not in c.cfg["polygon filters"]:
                    c.poly_add(pf)
                else:
                    state["edit"] += 1
                    c.poly_edit(pf, P2 if state["edit"] % 2 else P1)
            elif op == "poly_remove":
                if pf is not None:
                    c.poly_remove(pf.unique_id)
                else:
                    c.log("noop")
            elif op == "poly_invert":
                if pf is None:
                    pf = c.poly_new((fx, fy), P1)        # registered, not yet configured
                c.poly_invert(pf)
            elif op == "toggle_invalid":
                c.toggle("remove invalid events")
            elif op == "toggle_enable":
                c.toggle("enable filters")
            elif op == "reset":
                c.reset()
        c.finish()
        ctx.count(f"enumerated_histories[env{env},len{len(seq)}]")
        if c.applies_after_change >= 1:
            ctx.mark_nontrivial(["enum", env, seq])
        if idx[1] % 1201 == 7:
            ctx.sample({"kind": "enum", "case": idx, "env": env, "dataset": _St.desc,
                        "history": c.hist})
    finally:
        c.close()


def _dtype_rounding_is_dont_care(ctx):
    """Integrator's decision: a range bound given as Python float is compared with
    single-precision feature data in single precision (NumPy >= 2 scalar promotion), i.e.
    the bound is rounded to the data type of the feature. Events whose membership differs
    from the exact real-number comparison *only* for that reason (the executable model
    MECH_F32 reproduces the observed arrays exactly) lie within the rounding of the bound to
    the feature's own precision; the statement's "inclusive bounds" does not decide them.
    They are counted as skipped, not as violations."""
    orig_violation, orig_check = ctx.violation, ctx.check

    def violation(monitor, witness, finding=None, message=""):
        if finding == MECH_F32:
            ctx.count("skipped_dc[bound rounded to the feature's single precision]")
            return
        return orig_violation(monitor, witness, finding=finding, message=message)

    def check(monitor, ok, witness=None, finding=None, message=""):
        if not ok and finding == MECH_F32:
            ctx.ev(monitor)
            ctx.count("skipped_dc[bound rounded to the feature's single precision]")
            return True
        return orig_check(monitor, ok, witness, finding=finding, message=message)
    ctx.violation, ctx.check = violation, check


def run_child(ctx, idx):
    """Members of a hierarchy carry their own range / polygon settings; their filter arrays
    must equal the stateless evaluation of those settings on the member's *current* events,
    whatever the ancestors selected before (the contract on Filter.update judges every member
    at every refresh)."""
    import dclab
    from dclab.polygon_filter import PolygonFilter
    rng = ctx.rng(idx, salt=5)
    n = int(rng.integers(12, 70))
    data = {"area_um": rng.uniform(10, 200, n), "deform": rng.uniform(0, 0.3, n),
            "aspect": rng.uniform(0.8, 2.0, n), "bright_avg": rng.normal(100, 20, n)}
    if rng.random() < 0.3:
        data["deform"][rng.random(n) < 0.15] = np.nan
    root = dclab.new_dataset(data)
    levels = [root, dclab.new_dataset(root)]
    if rng.random() < 0.4:
        levels.append(dclab.new_dataset(levels[-1]))
    polys = []
    same_count_reselections = 0
    member_settings = False
    try:
        levels[-1].rejuvenate()
        for step in range(int(rng.integers(5, 16))):
            r = rng.random()
            if r < 0.3:
                # an ancestor selects other events, the same number of them
                L = int(rng.integers(0, len(levels) - 1))
                m = np.asarray(levels[L].filter.manual)
                k = int(m.sum()) if 0 < int(m.sum()) < len(m) else max(1, len(m) // 2)
                new = np.zeros(len(m), dtype=bool)
                new[rng.choice(len(m), min(k, len(m)), replace=False)] = True
                levels[L].filter.manual[:] = new
                if member_settings:
                    same_count_reselections += 1
            elif r < 0.4:
                L = int(rng.integers(0, len(levels) - 1))
                lo, hi = sorted(rng.uniform(0, 210, 2))
                levels[L].config["filtering"]["area_um min"] = float(lo)
                levels[L].config["filtering"]["area_um max"] = float(hi)
            elif r < 0.65:
                # range setting of a member below the root
                L = int(rng.integers(1, len(levels)))
                f = str(rng.choice(["deform", "aspect", "bright_avg"]))
                arr = data[f][np.isfinite(data[f])]
                lo, hi = sorted(rng.choice(arr, 2)) if rng.random() < 0.5 \
                    else sorted(rng.uniform(arr.min(), arr.max(), 2))
                fc = levels[L].config["filtering"]
                if rng.random() < 0.15 and f"{f} min" in fc:
                    fc.pop(f"{f} min")
                    fc.pop(f"{f} max")
                else:
                    fc[f"{f} min"], fc[f"{f} max"] = float(lo), float(hi)
                    member_settings = True
            elif r < 0.75:
                L = int(rng.integers(1, len(levels)))
                cx, w_ = rng.uniform(0.9, 1.9), rng.uniform(0.1, 0.6)
                pf = PolygonFilter(axes=("aspect", "bright_avg"),
                                   points=[[cx - w_, -1e4], [cx + w_, -1e4], [cx + w_, 1e4],
                                           [cx - w_, 1e4]], inverted=bool(rng.random() < 0.3))
                polys.append(pf)
                levels[L].config["filtering"]["polygon filters"] = \
                    list(levels[L].config["filtering"]["polygon filters"]) + [pf.unique_id]
                member_settings = True
            else:
                levels[-1].rejuvenate()
                ctx.count("hierarchy_refreshes")
        levels[-1].rejuvenate()
        ctx.count(f"hierarchy_cases[depth {len(levels) - 1}]")
        ctx.count("same_count_reselections_above_a_member_with_settings",
                  same_count_reselections)
        if same_count_reselections:
            ctx.mark_nontrivial("h%015x" % idx[1])
    finally:
        for pf in polys:
            try:
                PolygonFilter.remove(pf.unique_id)
            except Exception:
                pass


def run(spec, ctx):
    _dtype_rounding_is_dont_care(ctx)
    _St.ctx = ctx
    install()
    for idx in ctx.case_ids():
        if idx[0] == K_RAND:
            run_rand(ctx, idx)
        elif idx[0] == K_CHILD:
            try:
                run_child(ctx, idx)
            except Exception as exc:
                ctx.raised("no_exception", f"hierarchy case {idx}", exc)
        else:
            run_enum(ctx, idx)
