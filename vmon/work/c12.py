"""C12 - statistics and density estimates are computed from exactly the filtered events.

Monitors: recording wrappers (they never raise inside dclab and hand the original result or
exception through) on

* ``dclab.statistics.get_statistics``        -> statistics.definition / .twin / .poison
* ``RTDCBase.get_kde_scatter``               -> kde_scatter.reference / .twin / .poison
* ``RTDCBase.get_kde_contour``               -> kde_contour.grid / .reference / .twin / .poison
* ``dclab.kde_contours.get_quantile_levels`` -> quantile.fraction / .twin / .poison
* ``RTDCBase.get_downsampled_scatter``       -> downsampled_scatter.twin / .poison
* ``Export.tsv``                             -> tsv.definition / .twin / .poison

Every wrapper appends a record (dataset, bound arguments, result or exception) to the call
log and evaluates the *definition / reference* oracle of its entry point on the spot
(model/c12_stats.py, model/c12_kde.py - written from the definitions, no dclab code): the
selected events are those of ``ds.filter.all`` (all events when filtering is disabled).
The driver evaluates the *metamorphic* oracles on the recorded results of three datasets:

* orig    the dataset under test with generated box / polygon / manual / invalid / limit
          filters (RTDC_Dict, some cases re-opened from an .rtdc file as RTDC_HDF5),
* twin    an RTDC_Dict holding only the selected events (same event order, same index
          values, same flow rate), no filter: every result must be equal (1e-12),
* poison  the dataset with the excluded events overwritten (nan, +-inf, +-1e300, zeros,
          negative values, in-range fakes, outliers) and the same selection installed as a
          manual filter: nothing may change.
"""
import hashlib
import copy
import inspect
import os

import numpy as np

from vmon.model import c12_kde as K
from vmon.model import c12_stats as S

PROP = "C12"
LEVEL = "exploration"
RULE = ("rand: generated dataset (1..5000 events, 2-5 scalar features drawn from 14 value "
        "shapes incl. ties, constants, negative, wide and tiny magnitudes, nan/+-inf at random "
        "positions / prefixes / everywhere), generated filter (manual mask patterns, box, "
        "polygon, remove-invalid, limit events, filtering disabled) and generated calls of "
        "every entry point (statistics methods x features, KDE type x linear/log scales x "
        "explicit positions x keyword arguments, contour accuracies, quantile sets, "
        "downsampling sizes, tsv feature lists), each run on the dataset, its twin and its "
        "poisoned copy. exh: every filter mask over the first n events (n = 1..N) of fixed "
        "templates with the complete product of entry points. Non-trivial = the filter "
        "selects a proper, non-empty subset and at least one statistic/density was compared "
        "with a defined reference; distinct by hash of (columns, selection)")
LEVEL_TEXT = ("Held on the observed executions: every result of get_statistics, get_kde_scatter, "
              "get_kde_contour, get_quantile_levels, get_downsampled_scatter and the filtered tsv "
              "export seen on the generated and the exhaustively enumerated small workloads "
              "equalled the result on a dataset holding only the selected events, did not "
              "change when the excluded events were overwritten, and equalled the definition "
              "of the statistic / the independently written reference estimator (1e-8) on the "
              "requested scale; quantile levels separated the fraction q to 1/n. Exploration "
              "of an unbounded input space plus exhaustive mask sub-spaces, not a proof.")
LEVEL_NOTE = ("trusted: numpy, scipy (histogram2d, RectBivariateSpline, gaussian_kde, interpn, "
              "percentile); ds.filter.all after apply_filter() as the definition of 'the "
              "filtered events' (filter correctness is C03); the reference models in "
              "vmon/model/c12_*.py. Which events a downsampling keeps is C16.")
TECHNIQUE = ("runtime monitoring: recording post-condition wrappers on the six entry points with "
             "definition/reference-estimator oracles; metamorphic comparison (twin dataset of the "
             "selected events, poisoned excluded events) on the recorded results; executable "
             "defect models for attribution")
ASSUMPTIONS = [
    "SD is the population standard deviation; the mode is the centre-shifted position of a "
    "most populated Freedman-Diaconis bin (any of several equally populated bins accepted); "
    "the 'Doane rule' includes dclab's documented fall-back of 5 bins and the max(5, .) floor",
    "not judged (don't-care, counted as skipped_*): '%-gated' against the twin (100 there by "
    "construction; judged by definition); references that are undefined or not finite (fewer "
    "than 3 valid events for the product kernel, fewer than 2 for gaussian_kde, zero/undefined "
    "Doane width, nearly constant axes where the skewness is rounding noise, overflowing "
    "ranges, histogram bins narrower than 1e-9 of the axis magnitude, bin/grid numbers on a "
    "rounding boundary, grids with < 2 points for the quantile claim); kde type 'none' (no "
    "estimator; twin/poison only); a singular Gaussian KDE is nan as documented; a mode whose "
    "binning has a value on a rounding boundary when it differs",
    "density tolerance 1e-8 relative to max(|reference|, peak of the reference; for the "
    "histogram spline: the histogram maximum); quantile claim with 1/n granularity, a float "
    "tolerance of 1e-9 of the density scale, and events within 1e-12 of the border of the "
    "contour grid counted in the more favourable of the two readings (inside / outside: on a "
    "log scale exp(log(v)) moves the border by an ulp)",
    "get_downsampled_scatter: requests above the number of valid points are only judged with "
    "remove_invalid=True; no zero-range / overflowing axis (D07/D08 of property C16 live in a .pyx "
    "that cannot be rebuilt); other requests are counted as skipped",
    "when dclab raises on the dataset, the twin and the poisoned copy must raise the same "
    "exception type; an exception where the reference estimator is defined and finite is a "
    "violation of '.reference'",
    "the poisoned copy always holds float64 columns (nan cannot be stored in the unsigned "
    "integer columns of an .rtdc file); the twin keeps the stored dtype",
]
MIN_EVALS = {"statistics.definition": 30000, "statistics.twin": 1000, "statistics.poison": 800,
             "kde_scatter.reference": 1500, "kde_scatter.twin": 2500, "kde_scatter.poison": 2000,
             "kde_contour.reference": 500, "kde_contour.grid": 500, "kde_contour.twin": 1200,
             "kde_contour.poison": 1000,
             "quantile.fraction": 3000, "quantile.twin": 500, "quantile.poison": 400,
             "downsampled_scatter.twin": 1000, "downsampled_scatter.definition": 800, "downsampled_scatter.poison": 800,
             "tsv.definition": 2500, "tsv.twin": 800, "tsv.poison": 600}
WATCHDOG_S = {"quick": 400, "thorough": 3000}

M_EMPTY_STATS = "statistics-empty-dataset-nan"
EXH_N = {"quick": 5, "thorough": 8}
EXH_T = {"quick": 2, "thorough": 4}


def _split(kind, total, shards, **extra):
    out = []
    per = -(-total // shards)
    for i in range(shards):
        lo, hi = i * per, min((i + 1) * per, total)
        if lo < hi:
            out.append(dict(kind=kind, cases={"start": lo, "stop": hi}, **extra))
    return out


def plan(tier, seed):
    from vmon.gen import c12_gen as G
    q = tier == "quick"
    # cost per case on one core: rand ~0.07 s, exh ~0.4 s
    shards = _split("rand", 1920 if q else 36000, 16 if q else 96)
    shards += _split("exh", G.exhaustive_count(EXH_N[tier], EXH_T[tier]), 8 if q else 32,
                     max_n=EXH_N[tier])
    return shards


# ================================================================================ monitors
class _S:
    ctx = None
    log = []
    role = "client"
    reference = True
    case_info = None
    calls = 0
    intent = {}         # id(settings dict the client keeps) -> what the client put into it


def selection(ds):
    """The selected events as the property defines them: ds.filter.all, all events when
    filtering is disabled."""
    n = len(ds)
    if not ds.config["filtering"]["enable filters"]:
        return np.ones(n, dtype=bool)
    return np.array(ds.filter.all, dtype=bool, copy=True)


def _col(ds, feat):
    return np.asarray(ds[feat])


def _wit(extra):
    d = {"role": _S.role}
    if _S.case_info:
        d.update({k: v for k, v in _S.case_info.items() if not k.startswith("_")})
    d.update(extra)
    return d


def _record(fn, ds, params):
    rec = {"fn": fn, "ds": ds, "params": params, "result": None, "exc": None, "role": _S.role}
    _S.log.append(rec)
    if len(_S.log) > 50:
        del _S.log[:-50]
    return rec


def _guard(judge, rec):
    ctx = _S.ctx
    try:
        judge(ctx, rec)
    except Exception as exc:          # a monitor must never disturb the monitored code
        ctx.error(f"monitor {rec['fn']}", exc)


def _make(fn, judge, sig_of=None, method=True):
    """Generic recording wrapper factory."""
    def maker(orig):
        sig = inspect.signature(sig_of or orig)

        def wrapper(*args, **kwargs):
            ctx = _S.ctx
            if ctx is None:
                return orig(*args, **kwargs)
            try:
                ba = sig.bind(*args, **kwargs)
                ba.apply_defaults()
                params = dict(ba.arguments)
            except TypeError:
                ctx.count("skipped_out_of_domain_call")
                return orig(*args, **kwargs)
            ds = params.pop("self", None) if method else params.get("ds")
            kk = params.get("kde_kwargs")
            if isinstance(kk, dict):
                # judged against the settings the client made (a settings dict the client
                # keeps and passes again holds what the client put into it)
                intended = _S.intent.get(id(kk))
                if intended is not None and intended[0] is kk:
                    ctx.count("calls_with_the_settings_dict_the_client_keeps")
                    params["kde_kwargs"] = copy.deepcopy(intended[1])
                else:
                    params["kde_kwargs"] = copy.deepcopy(kk)
            rec = _record(fn, ds, params)
            ctx.count(f"calls[{fn}:{_S.role}]")
            try:
                res = orig(*args, **kwargs)
            except Exception as exc:
                rec["exc"] = exc
                ctx.count(f"exceptions[{fn}:{type(exc).__name__}]")
                if judge is not None:
                    _guard(judge, rec)
                raise
            rec["result"] = res
            if judge is not None:
                _guard(judge, rec)
            return res
        wrapper.__name__ = getattr(orig, "__name__", fn)
        wrapper.__doc__ = getattr(orig, "__doc__", None)
        return wrapper
    return maker


# ------------------------------------------------------------------------------ statistics
def _judge_stats(ctx, rec):
    if rec["exc"] is not None:
        ctx.ev("statistics.definition")
        ctx.violation("statistics.definition", _wit({"params": _short(rec["params"]),
                                                     "exc": repr(rec["exc"])}),
                      message=f"get_statistics raised {rec['exc']!r}")
        return
    ds, p = rec["ds"], rec["params"]
    header, values = rec["result"]
    methods = list(S.ALL_METHODS) if p["methods"] is None else list(p["methods"])
    feats = list(ds.features_scalar) if p["features"] is None else \
        [f.lower() for f in p["features"]]
    sel = selection(ds)
    cols = {f: _col(ds, f) for f in set(feats) if f in ds}
    flow = ds.config["setup"]["flow rate"] if "flow rate" in ds.config["setup"] else None
    want = S.expected_statistics(cols, sel, flow, methods, feats)
    ok_layout = len(want) == len(values) == len(header) and \
        all(str(h).startswith(m) for h, (m, _, _) in zip(header, want))
    ctx.check("statistics.layout", ok_layout,
              lambda: _wit({"params": _short(p), "header": list(header),
                            "expected_methods": [m for m, _, _ in want]}),
              message=f"get_statistics returned {len(values)} values / {len(header)} header "
                      f"entries, the documented layout has {len(want)}")
    if not ok_layout:
        return
    nsel = int(sel.sum())
    for (m, f, spec), got, h in zip(want, values, header):
        if spec[0] == "skip":
            ctx.count(f"skipped_statistic[{spec[1]}]")
            continue
        ok = S.matches(spec, got)
        if not ok and spec[0] == "any_of_unstable":
            ctx.count("skipped_statistic[mode: value on a rounding boundary of the binning]")
            continue
        finding = None
        if not ok and len(ds) == 0 and f is None and _isnan(got):
            finding = M_EMPTY_STATS     # defect model: dataset-level method of an empty dataset
        ctx.check("statistics.definition", ok,
                  lambda: _wit({"method": m, "feature": f, "header": h, "got": _f(got),
                                "expected": spec[1], "n_events": len(ds), "n_selected": nsel,
                                "column": cols.get(f), "selected": sel}),
                  finding=finding,
                  message=f"{h!r} = {_f(got)!r}, definition on the {nsel} selected events of "
                          f"{len(ds)} gives {spec[1]!r}")
        ctx.count(f"statistic_judged[{m}]")
        if f is not None and spec[0] != "skip":
            v = S.finite_selected(cols[f], sel) if f in cols else np.zeros(0)
            ctx.count("statistic_sample[" + ("absent-feature" if f not in cols else
                                             "no-finite-value" if v.size == 0 else
                                             "1-2" if v.size < 3 else "3-40" if v.size <= 40
                                             else ">40") + "]")


def _isnan(v):
    try:
        return bool(np.isnan(v))
    except TypeError:
        return False


def _f(v):
    try:
        return float(v)
    except (TypeError, ValueError):
        return repr(v)


def _short(p):
    out = {}
    for k, v in p.items():
        if k in ("self", "ds"):
            continue
        out[k] = v
    return out


# ---------------------------------------------------------------------------- kde scatter
def _xy_selected(ds, xax, yax):
    sel = selection(ds)
    return _col(ds, xax.lower())[sel], _col(ds, yax.lower())[sel], sel


def _judge_density(ctx, mon, rec, what, got, want_fn, defect_fn):
    """Common part of the scatter / contour reference oracle."""
    p = rec["params"]
    kde = str(p["kde_type"]).lower()
    if kde == "none" or kde not in K.ESTIMATORS:
        ctx.count(f"skipped_reference[{what}: kde type '{kde}' has no estimator]")
        return None
    try:
        want = want_fn()
    except K.Undefined as und:
        ctx.count(f"skipped_reference[{what}: {und}]")
        return None
    dens = want[-1] if isinstance(want, tuple) else want
    if not K.reference_is_finite(dens):
        ctx.count(f"skipped_reference[{what}: reference not finite]")
        return None
    if rec["exc"] is not None:
        ctx.ev(mon)
        ctx.violation(mon, _wit({"params": _short(p), "exc": repr(rec["exc"])}),
                      message=f"{what} raised {rec['exc']!r} although the reference estimator "
                              f"is defined and finite for these events")
        return None
    return want


def _judge_scatter(ctx, rec):
    if not _S.reference:
        ctx.count("reference_not_repeated[kde_scatter on twin/poison]")
        return
    ds, p = rec["ds"], rec["params"]
    x, y, sel = _xy_selected(ds, p["xax"], p["yax"])
    kde = str(p["kde_type"]).lower()
    pos = p["positions"]
    if pos is not None:
        pos = [np.asarray(pos[0], dtype=np.float64), np.asarray(pos[1], dtype=np.float64)]
    if x.size == 0:
        if rec["exc"] is None:
            ctx.check("kde_scatter.reference", np.asarray(rec["result"]).size == 0,
                      lambda: _wit({"params": _short(p), "got": rec["result"]}),
                      message="get_kde_scatter on an empty selection returned a non-empty array")
        return
    want = _judge_density(ctx, "kde_scatter.reference", rec, "get_kde_scatter",
                          rec["result"],
                          lambda: K.ref_scatter(x, y, kde, p["xscale"], p["yscale"], pos,
                                                p["kde_kwargs"]), None)
    if want is None:
        return
    got = rec["result"]
    problem = K.close_density(got, want)
    finding = None
    if problem is not None and kde == "multivariate" and pos is not None:
        finding = _two_positions_explains(x, y, p["xscale"], p["yscale"], pos[0], pos[1],
                                          p["kde_kwargs"], got, _peak(want))
    elif problem is not None and kde == "multivariate" and p["xscale"] == p["yscale"] == "linear":
        pred = K.predict_unsigned_wrap_defect(x, y, p["kde_kwargs"])
        with np.errstate(all="ignore"):
            if pred is not None and np.shape(got) == pred.shape and \
                    np.allclose(np.asarray(got, dtype=np.float64), pred, rtol=1e-6, atol=0,
                                equal_nan=True):
                finding = K.M_UNSIGNED_WRAP
    ctx.check("kde_scatter.reference", problem is None,
              lambda: _wit({"params": _short(p), "n_selected": int(sel.sum()), "x_selected": x,
                            "y_selected": y, "got": got, "reference": want}),
              finding=finding,
              message=f"get_kde_scatter({kde}, {p['xscale']}/{p['yscale']}): {problem}")
    rec["finding"], rec["reference"] = finding, want
    ctx.count(f"reference_compared[scatter:{kde}:{p['xscale']}/{p['yscale']}:"
              f"{'events' if pos is None else 'positions'}]")
    if _S.case_info is not None:
        _S.case_info["_compared"] = True


def _peak(a):
    a = np.asarray(a, dtype=np.float64)
    a = a[np.isfinite(a)]
    return float(np.max(np.abs(a))) if a.size else 0.0


def _two_positions_explains(x, y, xscale, yscale, px, py, kwargs, got, scale=0.0):
    """Executable defect model of M_TWO_POSITIONS: does it reproduce the observed output?
    (`scale`: magnitude of the correct density - differences between subnormal numbers far
    below it are rounding noise of exp())"""
    xs, ys = K.scale(x, xscale), K.scale(y, yscale)
    bad = K.invalid(xs) | K.invalid(ys)
    pxs, pys = K.scale(np.ravel(px), xscale), K.scale(np.ravel(py), yscale)
    pbad = K.invalid(pxs) | K.invalid(pys)
    if int((~pbad).sum()) != 2:
        return None
    pred = K.predict_two_positions_defect(xs[~bad], ys[~bad], pxs[~pbad], pys[~pbad], kwargs)
    if pred is None:
        return None
    full = np.full(pxs.shape, np.nan)
    full[~pbad] = pred
    full = K._with_floor(full, scale)
    got = np.ravel(np.asarray(got, dtype=np.float64))
    if got.shape == full.shape and K.close_density(got, full, tol=1e-8) is None:
        return K.M_TWO_POSITIONS
    return None


# ---------------------------------------------------------------------------- kde contour
def _judge_contour(ctx, rec):
    if not _S.reference:
        ctx.count("reference_not_repeated[kde_contour on twin/poison]")
        return
    ds, p = rec["ds"], rec["params"]
    x, y, sel = _xy_selected(ds, p["xax"], p["yax"])
    kde = str(p["kde_type"]).lower()
    want = _judge_density(ctx, "kde_contour.reference", rec, "get_kde_contour", rec["result"],
                          lambda: K.ref_contour(x, y, kde, p["xscale"], p["yscale"], p["xacc"],
                                                p["yacc"], p["kde_kwargs"]), None)
    if want is None:
        return
    gx, gy, gz = rec["result"]
    wx, wy, wz = want
    ok_grid = S.same_array(gx, wx, rtol=1e-9) and S.same_array(gy, wy, rtol=1e-9)
    ctx.check("kde_contour.grid", ok_grid,
              lambda: _wit({"params": _short(p), "x_selected": x, "y_selected": y,
                            "got_shape": list(np.shape(gx)), "ref_shape": list(wx.shape),
                            "got_x": np.asarray(gx)[:, 0] if np.ndim(gx) == 2 else gx,
                            "ref_x": wx[:, 0]}),
              message=f"get_kde_contour({kde}, {p['xscale']}/{p['yscale']}): grid "
                      f"{np.shape(gx)} differs from linspace(min, max, ceil(range/acc)) "
                      f"{wx.shape} of the valid selected events")
    if not ok_grid:
        return
    problem = K.close_density(gz, wz)
    finding = None
    if problem is not None and kde == "multivariate" and wx.size == 2:
        gxs = K.scale(np.ravel(wx), "linear")
        finding = _two_positions_explains(x, y, p["xscale"], p["yscale"], gxs, np.ravel(wy),
                                          p["kde_kwargs"], gz, _peak(wz))
    ctx.check("kde_contour.reference", problem is None,
              lambda: _wit({"params": _short(p), "n_selected": int(sel.sum()), "x_selected": x,
                            "y_selected": y, "got": gz, "reference": wz}),
              finding=finding,
              message=f"get_kde_contour({kde}, {p['xscale']}/{p['yscale']}): {problem}")
    ctx.count(f"reference_compared[contour:{kde}:{p['xscale']}/{p['yscale']}:"
              f"{'doane' if not p['xacc'] else 'xacc'}/{'doane' if not p['yacc'] else 'yacc'}]")
    ctx.count("contour_grid_points[" + ("<=4" if wx.size <= 4 else "5-100" if wx.size <= 100
                                        else "101-2000" if wx.size <= 2000 else ">2000") + "]")
    if _S.case_info is not None:
        _S.case_info["_compared"] = True


# -------------------------------------------------------------------------------- quantile
def _judge_quantile(ctx, rec):
    p = rec["params"]
    if rec["exc"] is not None:
        try:
            K.quantile_claim(p["density"], p["x"], p["y"], p["xp"], p["yp"], 0.5, 0.0,
                             p["normalize"])
        except K.Undefined as und:
            ctx.count(f"skipped_quantile[{und}]")
            return
        except Exception:
            ctx.count("skipped_quantile[independent interpolation rejects the grid]")
            return
        finding = None
        if K.predict_quantile_axis_defect(p["x"], p["y"]) == type(rec["exc"]).__name__:
            finding = K.M_QUANTILE_AXIS_MAX_ZERO
        ctx.ev("quantile.fraction")
        ctx.violation("quantile.fraction", _wit({"q": p["q"], "exc": repr(rec["exc"]),
                                                 "x_axis": K.axis_1d(p["x"], 0),
                                                 "y_axis": K.axis_1d(p["y"], 1)}),
                      finding=finding,
                      message=f"get_quantile_levels raised {rec['exc']!r} on a finite density "
                              f"over a regular grid")
        return
    qs = np.atleast_1d(np.asarray(p["q"], dtype=np.float64))
    levels = np.atleast_1d(np.asarray(rec["result"], dtype=np.float64))
    if qs.shape != levels.shape:
        ctx.check("quantile.fraction", False, lambda: _wit({"q": p["q"], "levels": levels}),
                  message=f"{levels.size} levels for {qs.size} quantiles")
        return
    for q, lev in zip(qs, levels):
        try:
            problem, info = K.quantile_claim(p["density"], p["x"], p["y"], p["xp"], p["yp"],
                                             float(q), float(lev), bool(p["normalize"]))
        except K.Undefined as und:
            ctx.count(f"skipped_quantile[{und}]")
            continue
        ctx.check("quantile.fraction", problem is None,
                  lambda: _wit(dict(info, normalize=bool(p["normalize"]),
                                    x_axis=K.axis_1d(p["x"], 0), y_axis=K.axis_1d(p["y"], 1),
                                    density=np.asarray(p["density"]), xp=np.asarray(p["xp"]),
                                    yp=np.asarray(p["yp"]))),
                  message=f"get_quantile_levels: {problem}")
        ctx.count("quantile_n[" + ("1-3" if info["n"] <= 3 else "4-40" if info["n"] <= 40
                                   else ">40") + "]")


# ------------------------------------------------------------------------------------ tsv
def _tsv_path(path):
    path = str(path)
    return path if path.endswith(".tsv") else path + ".tsv"


def _judge_tsv(ctx, rec):
    ds, p = rec["ds"].rtdc_ds, rec["params"]
    if rec["exc"] is not None:
        ctx.ev("tsv.definition")
        ctx.violation("tsv.definition", _wit({"params": _short(p), "exc": repr(rec["exc"])}),
                      message=f"export.tsv raised {rec['exc']!r}")
        return
    with open(_tsv_path(p["path"]), encoding="utf-8") as fd:
        names, labels, rows, _ = S.parse_tsv(fd.read())
    rec["parsed"] = (names, labels, rows)
    sel = selection(ds) if p["filtered"] else np.ones(len(ds), dtype=bool)
    feats = sorted(set(f.lower() for f in p["features"]))
    cols = {f: _col(ds, f) for f in feats}
    wfeats, wrows = S.tsv_rows(cols, feats, sel)
    ok = names == wfeats and rows == wrows
    ctx.check("tsv.definition", ok,
              lambda: _wit({"features": p["features"], "filtered": p["filtered"],
                            "n_events": len(ds), "n_selected": int(sel.sum()),
                            "columns_written": names, "rows_written": len(rows),
                            "rows_expected": len(wrows),
                            "first_difference": next(
                                ([i, a, b] for i, (a, b) in enumerate(zip(rows, wrows))
                                 if a != b), None)}),
              message=f"export.tsv(filtered={p['filtered']}) wrote {len(rows)} rows of "
                      f"{names}, the {int(sel.sum())} selected events of {wfeats} give "
                      f"{len(wrows)} rows (equal={rows == wrows})")


_installed = []


def install():
    if _installed:
        return _installed
    from dclab import kde_contours, statistics
    from dclab.rtdc_dataset import core, export
    from vmon.contracts import wrap_function, wrap_method
    _installed.append(("get_statistics", wrap_function(
        statistics, "get_statistics", _make("get_statistics", _judge_stats, method=False))))
    _installed.append(("get_quantile_levels", wrap_function(
        kde_contours, "get_quantile_levels",
        _make("get_quantile_levels", _judge_quantile, method=False))))
    wrap_method(core.RTDCBase, "get_kde_scatter", _make("get_kde_scatter", _judge_scatter))
    wrap_method(core.RTDCBase, "get_kde_contour", _make("get_kde_contour", _judge_contour))
    wrap_method(core.RTDCBase, "get_downsampled_scatter",
                _make("get_downsampled_scatter", None))
    wrap_method(export.Export, "tsv", _make("tsv", _judge_tsv))
    return _installed


# ================================================================================ workload
class Env:
    """The three datasets of a case."""
    def __init__(self):
        self.ds = self.twin = self.poison = None
        self.sel = None
        self.idx_sel = None
        self.cols = None
        self.feats = None
        self.tmp = []


def _apply_recipe(ds, recipe):
    from dclab.polygon_filter import PolygonFilter
    cfg = ds.config["filtering"]
    cfg["enable filters"] = recipe["enable"]
    cfg["remove invalid events"] = recipe["remove_invalid_events"]
    for f, lo, hi in recipe["box"]:
        cfg[f + " min"], cfg[f + " max"] = lo, hi
    if recipe["manual"] is not None:
        ds.filter.manual[~recipe["manual"]] = False
    if recipe["polygon"] is not None:
        pf = PolygonFilter(axes=tuple(recipe["polygon"]["axes"]),
                           points=np.array(recipe["polygon"]["points"]),
                           inverted=recipe["polygon"]["inverted"])
        cfg["polygon filters"].append(pf.unique_id)
    cfg["limit events"] = recipe["limit"]
    ds.apply_filter()


def build_env(ctx, cols, feats, recipe, flow, fmt, rng, poison_style=None):
    import dclab
    from vmon import boot
    from vmon.gen import c12_gen as G
    env = Env()
    env.feats = list(feats)
    ds = dclab.new_dataset({k: v.copy() for k, v in cols.items()})
    if flow is not None:
        ds.config["setup"]["flow rate"] = flow
    if fmt == "hdf5":
        path = boot.scratch() / f"c12-{os.getpid()}-{ctx.case}.rtdc"
        ds.export.hdf5(path, list(feats), filtered=False, override=True)
        env.tmp.append(path)
        ds = dclab.new_dataset(path)
    _apply_recipe(ds, recipe)
    env.ds = ds
    env.sel = selection(ds)
    env.idx_sel = np.where(env.sel)[0]
    # the values the dataset really holds (the twin is built from what is observed)
    env.cols = {f: np.array(_col(ds, f), copy=True) for f in list(feats) + ["index"]}
    flow_obs = ds.config["setup"]["flow rate"] if "flow rate" in ds.config["setup"] else None
    twin = dclab.new_dataset({f: v[env.sel].copy() for f, v in env.cols.items()})
    if flow_obs is not None:
        twin.config["setup"]["flow rate"] = flow_obs
    twin.apply_filter()
    env.twin = twin
    if env.sel.all():
        ctx.count("poison_skipped[nothing excluded]")
    else:
        pcols, style = G.gen_poison(rng, {f: env.cols[f] for f in feats}, env.sel)
        pds = dclab.new_dataset(pcols)
        if flow_obs is not None:
            pds.config["setup"]["flow rate"] = flow_obs
        pds.filter.manual[~env.sel] = False
        pds.apply_filter()
        if not np.array_equal(selection(pds), env.sel):
            raise RuntimeError("harness: poisoned dataset has another selection")
        env.poison = pds
        ctx.count(f"poison_style[{style}]")
    return env


def close_env(env):
    from dclab.polygon_filter import PolygonFilter
    for d in (env.ds, env.twin, env.poison):
        try:
            if d is not None:
                d.close()
        except Exception:
            pass
    for p in env.tmp:
        try:
            os.unlink(p)
        except OSError:
            pass
    PolygonFilter.clear_all_filters()


def _observe(ctx, ds, role, call, reference):
    """Run `call(ds)` through the wrapped entry point and return the monitor's record."""
    from dclab.cached import Cache
    _S.role, _S.reference = role, reference
    mark = object()
    _S.log.append(mark)
    try:
        call(ds)
    except Exception:
        pass                      # recorded by the monitor
    finally:
        _S.role, _S.reference = "client", True
    i = next(k for k, r in enumerate(_S.log) if r is mark)
    recs = [r for r in _S.log[i + 1:]]
    del _S.log[i:]
    if not recs:
        raise RuntimeError("the monitored entry point was not reached through its wrapper")
    _S.calls += 1
    if _S.calls % 23 == 0:
        Cache.clear_cache()          # (costs a gc.collect(): only now and then)
        ctx.count("cache_cleared")
    # the client owns what it was handed: every second call it overwrites the returned arrays
    # in place (as a plotting routine normalising a density does); later results - of this
    # dataset, its twin or any other - must not depend on that
    rec = recs[0]
    if rec.get("exc") is None and "result" in rec and _S.calls % 2 == 0:
        rec["result"] = _detach_and_scribble(ctx, rec["result"])
    return rec


def _detach_and_scribble(ctx, res):
    if isinstance(res, (tuple, list)):
        return type(res)(_detach_and_scribble(ctx, r) for r in res)
    if isinstance(res, np.ndarray):
        keep = res.copy()
        if res.flags.writeable and res.dtype.kind == "f" and res.size:
            res[...] = -777.25
            ctx.count("returned_arrays_overwritten_by_the_client")
        return keep
    return res


def _same(a, b):
    """Equality of two recorded results to 1e-12 (nan == nan)."""
    if isinstance(a, (tuple, list)) or isinstance(b, (tuple, list)):
        if not (isinstance(a, (tuple, list)) and isinstance(b, (tuple, list))) \
                or len(a) != len(b):
            return False
        return all(_same(u, v) for u, v in zip(a, b))
    if isinstance(a, str) or isinstance(b, str):
        return a == b
    try:
        return S.same_array(np.asarray(a), np.asarray(b), rtol=1e-12)
    except (TypeError, ValueError):
        return a == b


def _relate(ctx, mon, r0, r1, what, same=_same, map0=None, wit=None, finding=None):
    """Metamorphic oracle on two records: same outcome (both raise the same exception type
    or equal results)."""
    e0, e1 = r0["exc"], r1["exc"]
    if e0 is not None or e1 is not None:
        ok = e0 is not None and e1 is not None and type(e0) is type(e1)
        if ok:
            ctx.count(f"both_raise[{r0['fn']}:{type(e0).__name__}]")
        ctx.check(mon, ok, lambda: _wit(dict(wit or {}, params=_short(r0["params"]),
                                             exc_dataset=repr(e0), exc_other=repr(e1))),
                  message=f"{r0['fn']}: the filtered dataset "
                          f"{'raised ' + repr(e0) if e0 is not None else 'returned'}, the "
                          f"{what} {'raised ' + repr(e1) if e1 is not None else 'returned'}")
        return ok
    a = map0(r0) if map0 else r0["result"]
    b = r1["result"] if map0 is None else map0(r1, other=True)
    ok = same(a, b)
    ctx.check(mon, ok, lambda: _wit(dict(wit or {}, params=_short(r0["params"]),
                                         on_filtered_dataset=a, on_other=b)),
              finding=None if ok else finding,
              message=f"{r0['fn']}: the result on the filtered dataset differs from the result "
                      f"on the {what}")
    return ok


def _run3(ctx, env, mon, call, same_twin=_same, twin_call=None, poison_call=None, map0=None,
          wit=None):
    r0 = _observe(ctx, env.ds, "orig", call, True)
    r1 = _observe(ctx, env.twin, "twin", twin_call or call, False)
    _relate(ctx, mon + ".twin", r0, r1, "dataset holding only the selected events",
            same=same_twin, map0=map0, wit=wit)
    if not env.ds.config["filtering"]["enable filters"]:
        ctx.count("twin_evaluations_with_filtering_disabled")
    r2 = None
    if env.poison is not None:
        r2 = _observe(ctx, env.poison, "poison", poison_call or call, False)
        fnd = None
        if r0.get("finding") == K.M_UNSIGNED_WRAP and r2["exc"] is None and \
                K.close_density(r2["result"], r0["reference"]) is None:
            # the poisoned copy holds floats (nan cannot be written into unsigned integers):
            # it is not affected by the unsigned wrap-around and equals the reference
            fnd = K.M_UNSIGNED_WRAP
        _relate(ctx, mon + ".poison", r0, r2, "dataset with overwritten excluded events",
                map0=map0, wit=wit, finding=fnd)
    return r0, r1, r2


# ------------------------------------------------------------------------------ operations
def op_stats(ctx, env, methods, features):
    from dclab import statistics

    def call(d):
        return statistics.get_statistics(d, methods=methods, features=features)

    twin_empty = len(env.twin) == 0

    def same_twin(a, b):
        (h0, v0), (h1, v1) = a, b
        if list(h0) != list(h1) or len(v0) != len(v1):
            return False
        for h, u, v in zip(h0, v0, v1):
            if h.startswith("%-gated"):
                ctx.count("skipped_twin[%-gated is 100 on the twin by construction]")
                continue
            if twin_empty and (h.startswith("Events") or h.startswith("Flow rate")):
                # judged (and attributed) by statistics.definition on the empty twin
                ctx.count("skipped_twin[dataset-level statistic of an empty twin]")
                continue
            if not S.close(u, v, rtol=1e-12):
                return False
        return True
    _run3(ctx, env, "statistics", call, same_twin=same_twin,
          wit={"methods": methods, "features": features})


def _kde_common(rng, env, G, big_ok):
    xax, yax = G.gen_axes(rng, env.feats)
    xscale, yscale = G.gen_scales(rng)
    # (float copies for the generators: features stored as unsigned integers wrap around)
    x = np.asarray(env.cols[xax][env.sel], dtype=np.float64)
    y = np.asarray(env.cols[yax][env.sel], dtype=np.float64)
    kde = G.gen_kde_type(rng, x.size)
    return xax, yax, xscale, yscale, x, y, kde


def _client_settings(env):
    """The (empty) KDE settings dict the client keeps for this dataset and passes to every
    call that uses the defaults."""
    kw = getattr(env, "client_kw", None)
    if kw is None:
        kw = env.client_kw = {}
        if len(_S.intent) > 64:
            _S.intent.clear()
        _S.intent[id(kw)] = (kw, {})
    return kw


def op_scatter(ctx, env, rng, G, fixed=None):
    if fixed is None:
        xax, yax, xscale, yscale, x, y, kde = _kde_common(rng, env, G, True)
        pos, poskind = G.gen_positions(rng, x, y)
        if x.size > 1200 and kde in ("gauss", "multivariate") and pos is None:
            pos, poskind = G.gen_positions(rng, x, y)
            if pos is None:
                kde = "histogram"
        kw = G.gen_kde_kwargs(rng, kde, x, y, xscale, yscale)
        if kw is None and rng.random() < 0.4:
            kw = _client_settings(env)
        if rng.random() < 0.1:
            xax, kde = xax.upper(), kde.capitalize()      # documented: case-insensitive
    else:
        xax, yax, xscale, yscale, kde, pos, poskind, kw = fixed

    def call(d):
        return d.get_kde_scatter(xax=xax, yax=yax, positions=pos, kde_type=kde, kde_kwargs=kw,
                                 xscale=xscale, yscale=yscale)
    ctx.count(f"scatter_calls[{kde.lower()}:{xscale}/{yscale}:{poskind}"
              f"{':kwargs' if kw else ''}]")
    _run3(ctx, env, "kde_scatter", call)


def op_contour(ctx, env, rng, G, fixed=None, quantiles=True):
    from dclab import kde_contours
    if fixed is None:
        xax, yax, xscale, yscale, x, y, kde = _kde_common(rng, env, G, True)
        heavy = kde in ("gauss", "multivariate") and x.size > 500
        if heavy:
            xacc, yacc = G.forced_accuracy(rng, x, y, xscale, yscale, 14)
            if xacc is None or yacc is None:
                kde = "histogram"
        else:
            xacc, yacc = G.gen_accuracy(rng, x, y, xscale, yscale, 45)
        kw = G.gen_kde_kwargs(rng, kde, x, y, xscale, yscale)
        if kw is None and rng.random() < 0.4:
            kw = _client_settings(env)
        qs, qkind = G.gen_quantiles(rng)
        normalize = bool(rng.random() < 0.6)
    else:
        xax, yax, xscale, yscale, kde, xacc, yacc, kw, qs, qkind, normalize = fixed

    def call(d):
        return d.get_kde_contour(xax=xax, yax=yax, xacc=xacc, yacc=yacc, kde_type=kde,
                                 kde_kwargs=kw, xscale=xscale, yscale=yscale)
    ctx.count(f"contour_calls[{kde}:{xscale}/{yscale}:"
              f"{'doane' if not xacc else 'xacc'}/{'doane' if not yacc else 'yacc'}]")
    r0, r1, r2 = _run3(ctx, env, "kde_contour", call)
    if not quantiles or r0["exc"] is not None or kde == "none":
        return
    gx, gy, gz = r0["result"]
    if np.ndim(gz) != 2 or min(np.shape(gz)) < 2 or not np.all(np.isfinite(gz)):
        ctx.count("skipped_quantile[contour without a finite >=2x2 density]")
        return
    # the quantile levels of the contour just computed, for the selected events of each dataset
    style = int(rng.integers(0, 2))

    def qcall_for(rec):
        def qcall(d):
            X, Y, Z = rec["result"]
            s = selection(d)
            xp, yp = _col(d, xax.lower())[s], _col(d, yax.lower())[s]
            if style:
                X, Y = X[:, 0], Y[0, :]                   # 1-d axes are documented too
            return kde_contours.get_quantile_levels(density=Z, x=X, y=Y, xp=xp, yp=yp, q=qs,
                                                    normalize=normalize)
        return qcall
    ctx.count(f"quantile_calls[{qkind}:{'normalized' if normalize else 'absolute'}:"
              f"{'1d' if style else '2d'}-axes]")
    ok1 = r1 is not None and r1["exc"] is None
    ok2 = r2 is not None and r2["exc"] is None
    q0 = _observe(ctx, env.ds, "orig", qcall_for(r0), True)
    if ok1:
        q1 = _observe(ctx, env.twin, "twin", qcall_for(r1), False)
        _relate(ctx, "quantile.twin", q0, q1, "dataset holding only the selected events")
    if ok2:
        q2 = _observe(ctx, env.poison, "poison", qcall_for(r2), False)
        _relate(ctx, "quantile.poison", q0, q2, "dataset with overwritten excluded events")


def _downsample_ok(x, y, xscale, yscale, req, rinv=False):
    """None when the call is in the judged domain, else the reason for skipping (inputs of
    the C16 defects D07 / D08 and of their overflow variant)."""
    xs, ys = K.scale(x, xscale), K.scale(y, yscale)
    ok = ~(K.invalid(xs) | K.invalid(ys))
    nv = int(ok.sum())
    if req > nv and not rinv:
        return "request exceeds the number of valid points (D07 domain, C16)"
    if nv:
        with np.errstate(all="ignore"):
            for v in (xs[ok], ys[ok]):
                r = float(v.max() - v.min())
                if not np.isfinite(r):
                    return "overflowing axis range (C16)"
                if r == 0:
                    return "zero-range axis (D08 domain, C16)"
    return None


def _eqnan(a, b):
    a, b = np.asarray(a, dtype=np.float64), np.asarray(b, dtype=np.float64)
    return a.shape == b.shape and bool(np.array_equal(a, b, equal_nan=True))


def op_downsample(ctx, env, rng, G, fixed=None):
    if fixed is None:
        xax, yax = G.gen_axes(rng, env.feats)
        xscale, yscale = G.gen_scales(rng)
        x, y = env.cols[xax][env.sel], env.cols[yax][env.sel]
        xs, ys = K.scale(x, xscale), K.scale(y, yscale)
        nv = int((~(K.invalid(xs) | K.invalid(ys))).sum())
        req = G.gen_downsample(rng, x.size, nv)
        rinv = bool(rng.random() < 0.5)
        ret_mask = bool(rng.random() < 0.7)
    else:
        xax, yax, xscale, yscale, req, rinv, ret_mask = fixed
        x, y = env.cols[xax][env.sel], env.cols[yax][env.sel]
    why = _downsample_ok(x, y, xscale, yscale, req, rinv)
    if why is not None:
        ctx.count(f"skipped_downsample[{why}]")
        return

    def call(d):
        return d.get_downsampled_scatter(xax=xax, yax=yax, downsample=req, xscale=xscale,
                                         yscale=yscale, remove_invalid=rinv, ret_mask=ret_mask)
    n = len(env.ds)

    def map0(rec, other=False):
        res = rec["result"]
        if not ret_mask:
            return res
        xr, yr, mask = res
        if other and rec["role"] == "twin":
            full = np.zeros(n, dtype=bool)             # the twin's mask in dataset indices
            full[env.idx_sel[np.asarray(mask, dtype=bool)]] = True
            mask = full
        return xr, yr, np.asarray(mask, dtype=bool)
    ctx.count(f"downsample_calls[{xscale}/{yscale}:"
              f"{'0' if req == 0 else 'all-valid' if why is None and req >= x.size else 'some'}"
              f"{':remove_invalid' if rinv else ''}{':mask' if ret_mask else ''}]")
    r0, _r1, _r2 = _run3(ctx, env, "downsampled_scatter", call, map0=map0)
    # definition: the points returned are selected events; with remove_invalid only events
    # that are valid on the chosen scale, all of them when nothing has to be removed
    if r0["exc"] is None:
        res = r0["result"]
        xr, yr = np.asarray(res[0]), np.asarray(res[1])
        xs_, ys_ = K.scale(x, xscale), K.scale(y, yscale)
        valid = ~(K.invalid(xs_) | K.invalid(ys_))
        nv_ = int(valid.sum())
        problems = []
        if xr.shape != yr.shape:
            problems.append("x and y of different length")
        else:
            if rinv:
                bad = K.invalid(K.scale(xr, xscale)) | K.invalid(K.scale(yr, yscale))
                if bad.any():
                    problems.append(f"{int(bad.sum())} returned points are invalid on the "
                                    f"{xscale}/{yscale} scale although remove_invalid=True")
                want = nv_ if (req == 0 or req >= nv_) else req
                if xr.size != want:
                    problems.append(f"{xr.size} points returned, {want} expected "
                                    f"(request {req}, {nv_} valid of {x.size} selected)")
            elif req == 0 and xr.size != x.size:
                problems.append(f"{xr.size} points returned without downsampling, "
                                f"{x.size} selected")
            if ret_mask and len(res) == 3 and not problems:
                mk = np.asarray(res[2], dtype=bool)
                if mk.shape != (n,) or (mk & ~env.sel).any():
                    problems.append("mask marks events that are not selected")
                elif not (_eqnan(env.cols[xax][mk], xr) and _eqnan(env.cols[yax][mk], yr)):
                    problems.append("returned points are not the events marked by the mask")
        ctx.check("downsampled_scatter.definition", not problems,
                  lambda: {"xax": xax, "yax": yax, "xscale": xscale, "yscale": yscale,
                           "downsample": req, "remove_invalid": rinv, "ret_mask": ret_mask,
                           "n_events": n, "n_selected": int(x.size), "n_valid": nv_,
                           "problems": problems},
                  message="; ".join(problems))


def op_tsv(ctx, env, feats, filtered, tag):
    from vmon import boot
    base = boot.scratch()

    def mk(role):
        path = base / f"c12-{os.getpid()}-{ctx.case}-{tag}-{role}.tsv"
        env.tmp.append(path)

        def call(d):
            return d.export.tsv(path, feats, filtered=filtered, override=True)
        return call

    def map0(rec, other=False):
        return rec.get("parsed")
    if filtered:
        twin_call = mk("twin")
    else:
        # the unfiltered export of the dataset has no counterpart on the twin
        twin_call = None
    r0 = _observe(ctx, env.ds, "orig", mk("orig"), True)
    if twin_call is not None:
        r1 = _observe(ctx, env.twin, "twin", twin_call, False)
        _relate(ctx, "tsv.twin", r0, r1, "dataset holding only the selected events",
                map0=map0, same=lambda a, b: a is not None and a == b)
    if env.poison is not None and filtered:
        r2 = _observe(ctx, env.poison, "poison", mk("poison"), False)
        _relate(ctx, "tsv.poison", r0, r2, "dataset with overwritten excluded events",
                map0=map0, same=lambda a, b: a is not None and a == b)
    ctx.count(f"tsv_calls[{'filtered' if filtered else 'unfiltered'}]")


# ----------------------------------------------------------------------------------- cases
def _case_digest(cols, sel):
    h = hashlib.sha1()
    for f in sorted(cols):
        h.update(f.encode())
        h.update(np.ascontiguousarray(cols[f]).tobytes())
    h.update(np.ascontiguousarray(sel).tobytes())
    return h.hexdigest()[:16]


def _size_class(k):
    return ("0" if k == 0 else "1-2" if k < 3 else "3-5" if k < 6 else "6-40" if k <= 40 else
            "41-400" if k <= 400 else "401-1500" if k <= 1500 else ">1500")


def _refilter_phase(ctx, env, rng, G, feats):
    """History on ONE dataset instance: results were computed, now the filter changes and the
    same analyses are asked again. The inline oracles (definitions / reference estimators)
    judge every call against the selection that is current at call time, so a result that
    still reflects the previous filter is flagged."""
    from dclab import statistics
    from vmon import boot
    ds = env.ds
    for rep in range(2):
        man = ds.filter.manual
        flip = rng.random(len(man)) < rng.uniform(0.1, 0.6)
        man[flip] = ~man[flip]
        if rng.random() < 0.3:
            f = feats[int(rng.integers(0, len(feats)))]
            col = env.cols[f][np.isfinite(env.cols[f].astype(float))]
            if col.size:
                lo, hi = np.sort(rng.choice(col, 2))
                ds.config["filtering"][f + " min"] = float(lo)
                ds.config["filtering"][f + " max"] = float(hi)
        ds.apply_filter()
        ctx.count("refilter_on_same_instance")
        methods, features = G.gen_stat_args(rng, feats)
        _observe(ctx, ds, "orig",
                 lambda d: statistics.get_statistics(d, methods=methods, features=features), True)
        if len(feats) >= 2:
            kde = str(rng.choice(["histogram", "gauss", "multivariate"]))
            kw = _client_settings(env) if rng.random() < 0.6 else None
            _observe(ctx, ds, "orig",
                     lambda d: d.get_kde_scatter(xax=feats[0], yax=feats[1], kde_type=kde,
                                                 kde_kwargs=kw), True)
            if rng.random() < 0.4:
                _observe(ctx, ds, "orig",
                         lambda d: d.get_kde_contour(xax=feats[0], yax=feats[1], kde_type=kde,
                                                     kde_kwargs=kw), True)
        path = boot.scratch() / f"c12-{os.getpid()}-{ctx.case}-refilter.tsv"
        env.tmp.append(path)
        tf = G.gen_tsv_features(rng, feats)
        _observe(ctx, ds, "orig",
                 lambda d: d.export.tsv(path, tf, filtered=True, override=True), True)


def run_rand(ctx):
    from vmon.gen import c12_gen as G
    thorough = ctx.tier == "thorough"
    for idx in ctx.case_ids():
        rng = ctx.rng(idx, salt=1)
        n = G.gen_n(rng, big=thorough or idx % 24 == 0)
        feats, cols, shapes = G.gen_columns(rng, n, fl_pair=idx % 48 == 7)
        recipe = G.gen_recipe(rng, feats, cols, n)
        flow = float(rng.choice([0.04, 0.16, 0.32])) if rng.random() < 0.7 else None
        # (.rtdc files store the fluorescence maxima as unsigned integers)
        fmt = "hdf5" if rng.random() < (0.5 if feats[:2] == ["fl1_max", "fl2_max"] else 0.12) \
            or idx % 48 == 7 else "dict"
        _S.case_info = {"case": idx, "n": n, "features": feats, "shapes": shapes, "format": fmt,
                        "filter": {k: v for k, v in recipe.items() if k != "manual"}}
        env = None
        _S.calls = 0
        try:
            env = build_env(ctx, cols, feats, recipe, flow, fmt, rng)
            nsel = int(env.sel.sum())
            _S.case_info["n_selected"] = nsel
            ctx.count(f"case_events[{_size_class(n)}]")
            ctx.count(f"case_selected[{_size_class(nsel)}]")
            ctx.count(f"case_format[{fmt}]")
            ctx.count(f"case_mask[{recipe['manual_kind']}]")
            ctx.count("case_filter[" + "+".join(
                [k for k, on in (("manual", recipe["manual"] is not None),
                                 ("box", recipe["box"]), ("polygon", recipe["polygon"]),
                                 ("invalid", recipe["remove_invalid_events"]),
                                 ("limit", recipe["limit"]),
                                 ("disabled", not recipe["enable"])) if on] or ["none"]) + "]")
            for s in shapes.values():
                ctx.count(f"column_shape[{s.split('/')[0]}]")
                ctx.count(f"column_invalid[{s.split('/')[1]}]")
            # ---- the analyses
            for _ in range(1 + int(rng.random() < 0.3)):
                methods, features = G.gen_stat_args(rng, feats)
                op_stats(ctx, env, methods, features)
            big = nsel > 1500
            for _ in range(1 if big else 2):
                op_scatter(ctx, env, rng, G)
            if idx % 48 == 7 and not big:
                # the fluorescence pair as it is stored in the file, events as positions
                op_scatter(ctx, env, rng, G,
                           fixed=("fl1_max", "fl2_max", "linear", "linear",
                                  ("multivariate", "gauss", "histogram")[(idx // 48) % 3],
                                  None, "events", None))
            for _ in range(1 + int(not big and rng.random() < 0.4)):
                op_contour(ctx, env, rng, G)
            for _ in range(1 + int(rng.random() < 0.5)):
                op_downsample(ctx, env, rng, G)
            op_tsv(ctx, env, G.gen_tsv_features(rng, feats), True, "f")
            if rng.random() < 0.25:
                op_tsv(ctx, env, G.gen_tsv_features(rng, feats), False, "u")
            if 0 < nsel < n and _S.case_info.get("_compared"):
                ctx.mark_nontrivial(_case_digest(env.cols, env.sel))
            if n >= 2 and not big and rng.random() < 0.4:
                _refilter_phase(ctx, env, rng, G, feats)
            if idx % 61 == 0:
                ctx.sample({"kind": "rand", "case": idx, "n": n, "n_selected": nsel,
                            "format": fmt, "shapes": shapes,
                            "filter": {k: v for k, v in recipe.items() if k != "manual"},
                            "mask": recipe["manual_kind"]})
        except Exception as exc:
            ctx.error(f"rand case {idx}", exc)
        finally:
            if env is not None:
                close_env(env)
            _S.case_info = None


def run_exh(ctx, spec):
    """Every filter mask over the first n events of fixed templates x the complete product of
    entry points (all KDE types x all scale combinations, positions, contours, quantiles,
    downsampling sizes, tsv)."""
    from vmon.gen import c12_gen as G
    max_n = spec["max_n"]
    for idx in ctx.case_ids():
        t, n, mask = G.exhaustive_case(idx, max_n)
        name, xv, yv = G.EXH_TEMPLATES[t]
        cols = {"area_um": np.array(xv[:n], dtype=np.float64),
                "deform": np.array(yv[:n], dtype=np.float64)}
        feats = ["area_um", "deform"]
        recipe = {"enable": True, "remove_invalid_events": False, "box": [], "polygon": None,
                  "manual": mask if not mask.all() else None, "manual_kind": "enumerated",
                  "limit": 0}
        rng = ctx.rng(idx, salt=2)
        _S.case_info = {"case": idx, "template": name, "n": n, "mask": mask.astype(int).tolist()}
        env = None
        _S.calls = idx % 23
        try:
            env = build_env(ctx, cols, feats, recipe, 0.04, "dict", rng)
            nsel = int(env.sel.sum())
            ctx.count(f"exh_cases[{name}:n={n}]")
            op_stats(ctx, env, None, None)
            x, y = env.cols["area_um"][env.sel], env.cols["deform"][env.sel]
            pos3 = [np.array([xv[0], xv[1] + 0.5, xv[2]]), np.array([yv[2], yv[0], yv[1] + 0.1])]
            pos2 = [np.array([xv[0], xv[1] + 0.5]), np.array([yv[2], yv[0]])]
            for kde in G.KDE_TYPES:
                for xs, ys in G.SCALES:
                    op_scatter(ctx, env, rng, G,
                               fixed=("area_um", "deform", xs, ys, kde, None, "events", None))
                if kde != "none":
                    op_scatter(ctx, env, rng, G, fixed=("area_um", "deform", "linear", "linear",
                                                        kde, pos3, "3-points/list", None))
                    op_scatter(ctx, env, rng, G, fixed=("deform", "area_um", "linear", "linear",
                                                        kde, [pos2[1], pos2[0]],
                                                        "2-points/list", None))
                    for xs, ys in (("linear", "linear"), ("log", "log")):
                        op_contour(ctx, env, rng, G,
                                   fixed=("area_um", "deform", xs, ys, kde, None, None, None,
                                          [0.5, 0.9], "pair", True))
            ex, ey = x[np.isfinite(x) & np.isfinite(y)], y[np.isfinite(x) & np.isfinite(y)]
            nv = ex.size
            for req in sorted({0, 1, max(1, nv - 1), nv}):
                for rinv in (False, True):
                    op_downsample(ctx, env, rng, G, fixed=("area_um", "deform", "linear",
                                                           "linear", req, rinv, True))
            op_tsv(ctx, env, ["deform", "area_um"], True, "f")
            if 0 < nsel < n and _S.case_info.get("_compared"):
                ctx.mark_nontrivial(_case_digest(env.cols, env.sel))
            if idx % 97 == 0:
                ctx.sample({"kind": "exh", "template": name, "n": n,
                            "mask": mask.astype(int).tolist()})
        except Exception as exc:
            ctx.error(f"exh case {idx}", exc)
        finally:
            if env is not None:
                close_env(env)
            _S.case_info = None


def run(spec, ctx):
    _S.ctx = ctx
    _S.log = []
    for name, sites in install():
        ctx.count(f"rebound_sites[{name}]", len(sites))
    if spec["kind"] == "rand":
        run_rand(ctx)
    elif spec["kind"] == "exh":
        run_exh(ctx, spec)
    else:
        raise ValueError(spec["kind"])
