"""C11 - metadata values are type-normalised and survive storage unchanged.

Monitors
* ``setitem_contract``: icontract post-condition (+ exceptional-exit recorder) on the real
  ``ConfigurationDict.__setitem__``.  It judges *every* assignment dclab performs (driver
  calls, ``update``, constructors, ``load_from_file``, ``parse_config`` while a file is
  opened, ...) against the frozen MetaTable and the independent converters.
* driver round trips over the complete product keys x representations x routes:
  item assignment / update / Configuration.update / Configuration(cfg=) / ConfigurationDict
  constructor / section assignment / configuration text (tostring+save -> load, and
  hand-written lines) / RTDCWriter.store_metadata -> HDF5 attributes -> new_dataset /
  Export.hdf5 / dclab.cli.compress.
* ``seq_state``: random assignment histories on one Configuration compared with a model dict
  after every step (state leaks, junk entries, order dependence).
"""
import math
import os
import warnings

import numpy as np

from vmon.model import c11_metatable as mt

PROP = "C11"
LEVEL = "exploration"
RULE = ("complete product of the frozen key space (108 table keys; online_filter '<feat> min|max|"
        "soft limit' and filtering '<feat> min|max' over all 114 scalar features + 2 ml_score_??? "
        "names; '<f1>,<f2> soft limit|polygon points' over 12x12 frozen features; 12 user keys; "
        "43 unknown/malformed keys and sections; 3 keys with undocumented suffix) x 75 value "
        "representations x all setting/storage routes (item assignment, update, "
        "Configuration.update, Configuration(cfg=), ConfigurationDict(section, dict), section "
        "assignment, text save/tostring->load, hand-written text line, RTDCWriter.store_metadata"
        "->HDF5 attributes->new_dataset, Export.hdf5 from file and from memory, dclab.cli."
        "compress); a case (section, key, representation) is non-trivial when the reference "
        "conversion changes the type or value of the input or refuses it; distinct by hash of "
        "(section, key, representation name). The seed only changes mixed-case spellings and the "
        "assignment histories. Thorough adds all 114x114 feature pairs (assignment/update), one "
        "file per (key, representation) for 175 keys and 20x more histories")
LEVEL_TEXT = ("Held on the observed executions: for every key of the frozen table, every value "
              "representation and every route the stored value equals the independent reference "
              "conversion, has the documented class, is idempotent and reachable under any "
              "spelling of the key, refused inputs are not stored, and values read back from "
              "text / .rtdc / export / dclab-compress equal the normalised originals. The product "
              "is finite and enumerated completely; keys added to dclab after the snapshot are "
              "ignored, not flagged.")
LEVEL_NOTE = ("trusted: numpy/h5py, the frozen MetaTable snapshot, the reference converters. Not "
              "judged (recorded as dc[...] counters): bytes on item assignment, non-string input "
              "to lower-case-string keys, numpy containers for integer lists, size-1 arrays as "
              "scalars, numeric text for bool-or-float keys, text form of tuples as input, arrays "
              "that are not 2-d for polygon points, bool / 0-d arrays for range limits, "
              "undocumented online_filter suffixes, non-string keys outside the user section, "
              "untyped (user / filtering range) values on the text route (documented as "
              "heuristic), text-unsafe strings, integers beyond 2**53, None handed directly to "
              "the writer, user values HDF5 cannot carry, the fmt_tdms section in files, "
              "filtering defaults re-created by Configuration.copy().")
TECHNIQUE = ("runtime monitoring: icontract post-condition on ConfigurationDict.__setitem__ + "
             "exhaustive differential round trips against a frozen type table")
ASSUMPTIONS = [
    "the frozen MetaTable is the documented key/type table of dclab 0.62.7; keys added later "
    "are ignored",
    "float text serialisation is compared at the 12 decimals the text format writes",
    "experiment:event count and setup:software version are rewritten by the writer as "
    "documented (rectify_metadata, version branding) and are compared against those rules",
]
MIN_EVALS = {"setitem_contract": 20000, "section_assign": 1000, "h5_attribute": 2000,
             "stored_equals_ref": 5000, "documented_class": 5000,
             "rejected_not_stored": 2000, "rejected_with_warning": 500,
             "case_insensitive": 5000, "idempotent": 3000, "text_roundtrip": 2000,
             "text_setting": 1000, "file_roundtrip": 2000, "export_roundtrip": 2000,
             "compress_roundtrip": 1000, "writer_rejects": 500, "seq_state": 1000, "registry_history": 800, "rewrite_roundtrip": 500}
WATCHDOG_S = {"quick": 400, "thorough": 3000}
NSHARD = 16
N_EVENTS = 7


def exhaustive(tier):
    return True


# ------------------------------------------------------------------------ frozen spaces
PAIR_FEATS = ["area_um", "deform", "aspect", "bright_avg", "fl1_max", "size_x", "size_y",
              "time", "userdef0", "basinmap3", "ml_score_abc", "volume"]
EXTRA_FEATS = ["ml_score_abc", "ml_score_0z9"]
USER_KEYS = ["inlet", "n_channels", "RBC", "Project Name", "x", "día-1", "key.with.dots",
             "key/with/slash", "area_um min", "channel width", "a:b", "42"]
DC_KEYS = [("online_filter", "area_um foo"), ("online_filter", "area_um"),
           ("online_filter", "area_um polygon points")]


def build_keys():
    """The frozen key space: list of (section, key, group)."""
    keys = []
    for sec, key, _typ in mt.all_fixed_keys():
        keys.append((sec, key, "fixed"))
    feats = list(mt.SCALAR_FEATURES) + EXTRA_FEATS
    for f in feats:
        for suf in ("min", "max", mt.SOFT):
            keys.append(("online_filter", f"{f} {suf}", "of_single"))
    for f1 in PAIR_FEATS:
        for f2 in PAIR_FEATS:
            for suf in (mt.SOFT, mt.POLY):
                keys.append(("online_filter", f"{f1},{f2} {suf}", "of_pair"))
    for f in feats:
        for suf in ("min", "max"):
            keys.append(("filtering", f"{f} {suf}", "filt_range"))
    for k in USER_KEYS:
        keys.append(("user", k, "user"))
    # unknown / malformed keys
    for sec in mt.TABLE:
        keys.append((sec, "peter", "invalid"))
        keys.append((sec, "date" if sec != "experiment" else "channel width", "invalid"))
    for k in ("peter min", "image max", "area_um mean", "limit events auto"):
        keys.append(("filtering", k, "invalid"))
    for k in ("peter min", "peter soft limit", "peter,deform soft limit",
              "area_um,peter polygon points", "area_um,deform,aspect soft limit",
              "area_um,deform,aspect polygon points", "image max", "area_um,deform min",
              "ml_score_ABC_ max"):
        keys.append(("online_filter", k, "invalid"))
    for k in ("", "   ", 5, (1, 2)):
        keys.append(("user", k, "invalid"))
    for sec, k in (("peter", "key"), ("plotting", "contour color"),
                   ("analysis", "regression model"), ("peter", "channel width")):
        keys.append((sec, k, "invalid_section"))
    for sec, k in DC_KEYS:
        keys.append((sec, k, "dc"))
    return keys


def build_reprs():
    """Frozen list of value representations: (name, zero-argument factory)."""
    r = []

    def add(name, fac):
        r.append((name, fac))

    for name, s in [("s_plain", "peter"), ("s_mixed", "MiXed Case-7"), ("s_empty", ""),
                    ("s_0", "0"), ("s_1", "1"), ("s_7", "7"), ("s_neg", "-3"), ("s_2p7", "2.7"),
                    ("s_1e3", "1e3"), ("s_0p5", "0.5"), ("s_nan", "nan"), ("s_inf", "inf"),
                    ("s_True", "True"), ("s_False", "False"), ("s_true", "true"),
                    ("s_FALSE", "FALSE"), ("s_list", "1, 2, 3"), ("s_blist", "[4, 5]"),
                    ("s_elist", "[]"), ("s_zlist", "0, 1"), ("s_tuple", "(1.5, 2.5)")]:
        add(name, (lambda s=s: s))
    for name, v in [("i_0", 0), ("i_1", 1), ("i_7", 7), ("i_neg", -3), ("i_big", 2 ** 40),
                    ("f_0", 0.0), ("f_1", 1.0), ("f_2p7", 2.7), ("f_neg", -0.5),
                    ("f_tiny", 1e-15), ("f_frac", 1234567.125), ("f_13dec", 0.1234567890123),
                    ("f_nan", math.nan), ("f_inf", math.inf), ("b_T", True), ("b_F", False),
                    ("none", None), ("by_plain", b"peter"), ("by_7", b"7"), ("by_True", b"True")]:
        add(name, (lambda v=v: v))
    add("np_i64", lambda: np.int64(7))
    add("np_i32_0", lambda: np.int32(0))
    add("np_u8", lambda: np.uint8(200))
    add("np_f64", lambda: np.float64(2.7))
    add("np_f32", lambda: np.float32(0.5))
    add("np_bT", lambda: np.bool_(True))
    add("np_bF", lambda: np.bool_(False))
    add("np_str", lambda: np.str_("npstr"))
    add("a0_i", lambda: np.array(7))
    add("a0_f", lambda: np.array(2.5))
    add("a0_b", lambda: np.array(True))
    add("a1_f2", lambda: np.array([1.5, 2.5]))
    add("a1_i2", lambda: np.array([3, 4]))
    add("a1_i3", lambda: np.array([1, 2, 3]))
    add("a1_one", lambda: np.array([4]))
    add("a1_empty", lambda: np.array([]))
    add("a2_f", lambda: np.array([[1., 2.], [3., 4.], [5., 6.5]]))
    add("a2_i", lambda: np.array([[1, 2], [3, 4]]))
    add("a2_row", lambda: np.array([[1.25, 2.0]]))
    # traced outlines: more elements than any print / line / block threshold
    add("a2_f_501", lambda: np.column_stack([np.cos(np.linspace(0, 6.28, 501)) * 100 + 150,
                                            np.sin(np.linspace(0, 6.28, 501)) * 0.1 + 0.2]))
    add("a2_f_3000", lambda: np.column_stack([np.linspace(20, 300, 3000),
                                             np.linspace(0.0, 0.3, 3000) ** 2]))
    add("l_i3", lambda: [1, 2, 3])
    add("l_z", lambda: [0, 1])
    add("l_f2", lambda: [1.5, 2.5])
    add("l_empty", lambda: [])
    add("l_s2", lambda: ["1", "2"])
    add("l_str", lambda: ["a", "b"])
    add("l_2d", lambda: [[1, 2], [3, 4], [5, 6]])
    add("l_b", lambda: [True, False])
    add("l_ragged", lambda: [[1, 2], [3]])
    add("l_f7", lambda: [2.7, -3.2])
    add("t_f2", lambda: (1.5, 2.5))
    add("t_i2", lambda: (3, 4))
    add("t_i3", lambda: (1, 2, 3))
    add("t_empty", lambda: ())
    add("t_2d", lambda: ((0.5, 1.5), (2.5, 3.5), (4.5, 5.0)))
    return r


KEYS = build_keys()
REPRS = build_reprs()
REPR_NAMES = [n for n, _ in REPRS]

#: file batches: group name -> predicate on (sec, key, group)
FILE_GROUPS = (
    [("sec:" + s, s) for s in mt.METADATA_SECTIONS if s != "online_filter"]
    + [("of_fixed_single", "online_filter"), ("of_pair", "online_filter"), ("user", "user"),
       ("analysis", None), ("invalid", None)])


def file_group_keys(gname):
    out = []
    for sec, key, grp in KEYS:
        if gname.startswith("sec:"):
            if grp == "fixed" and sec == gname[4:]:
                out.append((sec, key))
        elif gname == "of_fixed_single":
            if sec == "online_filter" and grp in ("fixed", "of_single"):
                out.append((sec, key))
        elif gname == "of_pair":
            if grp == "of_pair":
                out.append((sec, key))
        elif gname == "user":
            if grp == "user":
                out.append((sec, key))
        elif gname == "analysis":
            if sec in mt.ANALYSIS_SECTIONS and grp in ("fixed",):
                out.append((sec, key))
        elif gname == "invalid":
            if grp in ("invalid", "invalid_section") and isinstance(key, str):
                out.append((sec, key))
    return out


FILE_BATCHES = [(g, r) for g, _ in FILE_GROUPS for r in range(len(REPRS))]
#: keys that get one file per (key, representation) in the thorough tier
SINGLE_KEYS = ([(s, k) for s, k, g in KEYS if g == "fixed" and s in mt.METADATA_SECTIONS]
               + [(s, k) for s, k, g in KEYS if g == "user"]
               + [(s, k) for i, (s, k, g) in enumerate(KEYS)
                  if g in ("of_single", "of_pair") and i % 9 == 0])
FULL_FEATS = list(mt.SCALAR_FEATURES)


def _stride(n, k=NSHARD):
    return [{"start": i, "stop": n, "step": k} for i in range(k) if i < n]


def plan(tier, seed):
    shards = []
    for c in _stride(len(KEYS)):
        shards.append({"kind": "mem", "cases": c})
    for c in _stride(len(FILE_BATCHES)):
        shards.append({"kind": "file", "cases": c})
    nseq = 320 if tier == "quick" else 6400
    for c in _stride(nseq):
        shards.append({"kind": "seq", "cases": c})
    for c in _stride(160 if tier == "quick" else 3200):
        shards.append({"kind": "registry", "cases": c})
    for c in _stride(160 if tier == "quick" else 3200):
        shards.append({"kind": "rewrite", "cases": c})
    if tier == "thorough":
        for c in _stride(len(FULL_FEATS) ** 2):
            shards.append({"kind": "mempairs", "cases": c})
        for c in _stride(len(SINGLE_KEYS), 2 * NSHARD):
            shards.append({"kind": "filesingle", "cases": c})
    return shards


# ------------------------------------------------------------------------ small helpers
class _State:
    ctx = None
    route = "-"          # route label of the driver step in progress (for witnesses)
    mute = False         # set while the driver builds a scaffold object that is not under test
    depth = 0


def spell(key, mode, rng=None):
    if not isinstance(key, str):
        return key
    if mode == 0:
        return key
    if mode == 1:
        return key.upper()
    if rng is None:
        return key.title()
    flips = rng.random(len(key)) < 0.5
    return "".join(c.upper() if f else c for c, f in zip(key, flips))


def show(v):
    """JSON-able, type-revealing description of a value."""
    from vmon.ctx import jsonable
    return {"type": type(v).__name__, "value": jsonable(v)}


def same_type_equal(a, b):
    return type(a) is type(b) and mt.values_equal(a, b)


# ------------------------------------------------------------------------ defect models
FBOF_MSG = "could not be converted to bool or float"


def dm_fboolorfloat_raises(v):
    """Executable model of the defective bool-or-float converter: which inputs does it
    refuse although they denote a bool or a number?  (isinstance test against the builtin
    int/float only; numpy bools/ints/float32 and 0-d arrays fall through)."""
    try:
        if isinstance(v, (str, bool)) or v == 0:
            return False
    except Exception:
        return False
    return not isinstance(v, (int, float))


def dm_fintlist(v):
    """Model of the defective integer-list converter: falsy items are dropped."""
    if not isinstance(v, (list, tuple)):
        return None
    out = []
    for it in v:
        if it:
            o = mt.convert("fint", it)
            if o.kind != "ok":
                return None
            out.append(o.value)
    return out


def dm_text_of(v):
    """What Configuration.tostring writes for a value."""
    if isinstance(v, list):
        return "[" + ", ".join(dm_text_of(i) for i in v) + "]"
    if isinstance(v, float):
        return "{:.12f}".format(v)
    return "{}".format(v)


def classify(route, sec, key, typ, value, ref, obs_kind, obs):
    """Return the mechanism key of a known defect whose model predicts exactly the observed
    behaviour for this input, else None.
    obs_kind: "stored" (obs = stored value), "raised" (obs = exception), "absent"."""
    if typ == "fboolorfloat" and obs_kind == "raised" and isinstance(obs, ValueError) \
            and ref is not None and ref.kind == "ok" \
            and mt.kind_of(value) in ("npbool", "npint", "npfloat", "ndarray0") \
            and FBOF_MSG in str(obs) and dm_fboolorfloat_raises(value):
        return "fboolorfloat-rejects-numpy-scalars"
    if typ == "fintlist" and obs_kind == "stored" and ref is not None \
            and isinstance(obs, list) and obs != ref.value:
        # the converter may have run once (assignment) or twice (constructors, loaders)
        cands = [dm_fintlist(value), dm_fintlist(ref.value)]
        if cands[0] is not None:
            cands.append(dm_fintlist(cands[0]))
        if any(c is not None and c == obs for c in cands):
            return "fintlist-drops-falsy-items"
    if typ == "number" and obs_kind == "stored" and not mt.doc_class_ok("number", obs) \
            and value is not None and not (isinstance(value, str) and value == ""):
        # model: range limits are stored without any conversion (HDF5 turns lists into arrays);
        # None and empty strings are refused before the conversion step, also by the defect
        if obs is value or (obs is not _MISSING and mt.values_equal(obs, value)):
            return "online-filter-range-stored-unconverted"
    if sec == "online_filter" and obs_kind == "raised" and isinstance(obs, ValueError) \
            and "too many values to unpack" in str(obs) and isinstance(key, str):
        head = key.lower().split(" ", 1)[0]
        if head.count(",") >= 2 and (key.lower().endswith(mt.SOFT)
                                     or key.lower().endswith(mt.POLY)):
            return "online-filter-key-with-three-features-raises"
    return None


def classify_text(sec, key, typ, stored, obs_kind, obs):
    """Defects of the text route (tostring -> load_from_file)."""
    if typ in ("f1dfloatduple", "f2dfloatarray") and obs_kind == "raised" \
            and isinstance(obs, ValueError):
        msg = str(obs)
        if typ == "f1dfloatduple" and "not 1 dimensional" in msg:
            return "config-text-sequence-not-parseable"
        if typ == "f2dfloatarray" and "could not convert string to float" in msg:
            return "config-text-sequence-not-parseable"
    if typ == "fboolorfloat" and obs_kind == "stored" and isinstance(stored, float) \
            and not isinstance(stored, bool) and obs is True and stored != 0:
        # model: text of a number goes through the boolean branch: bool(float(text))
        return "fboolorfloat-text-number-read-as-bool"
    if typ == "number" and obs_kind == "stored" and isinstance(obs, str) \
            and obs == dm_text_of(stored):
        return "online-filter-range-stored-unconverted"
    if typ == "fintlist" and obs_kind == "stored" and isinstance(stored, list) \
            and isinstance(obs, list) and obs != stored and obs == dm_fintlist(stored):
        return "fintlist-drops-falsy-items"
    return None


def dm_software_version(raw, version):
    """Model of store_metadata's branding step, which runs on the unconverted value:
    falsy values are taken as "no previous version", other non-strings crash in .split()."""
    if isinstance(raw, (str, bytes)) or raw is _MISSING:
        return None
    try:
        truth = bool(raw)
    except ValueError:
        return ("raised", ValueError, "truth value of an")
    if not truth:
        return ("stored", mt.brand("", version))
    return ("raised", AttributeError, "has no attribute 'split'")


def classify_readback(sec, key, typ, expected, raw, got):
    """Wrong value read back from a file (got may be _MISSING)."""
    if (sec, key) == ("setup", "software version"):
        pred = dm_software_version(raw, release())
        if pred and pred[0] == "stored" and got == pred[1]:
            return "writer-brands-unconverted-software-version"
    if typ == "number" and got is not _MISSING and not mt.doc_class_ok("number", got) \
            and mt.values_equal(got, writer_value(raw)):
        return "online-filter-range-stored-unconverted"
    return None


def classify_file(sec, key, typ, stored, obs_kind, obs, raw=None):
    """Defects that only show when a file is written or re-opened."""
    if (sec, key) == ("setup", "software version") and obs_kind == "raised":
        pred = dm_software_version(raw, release())
        if pred and pred[0] == "raised" and isinstance(obs, pred[1]) and pred[2] in str(obs):
            return "writer-brands-unconverted-software-version"
    if obs_kind == "raised" and isinstance(obs, ValueError):
        if typ == "fboolorfloat" and FBOF_MSG in str(obs) and stored is True:
            # True is stored as numpy.bool_ in the attribute; model refuses numpy.bool_(True)
            return "fboolorfloat-rejects-numpy-scalars"
        if sec == "user" and isinstance(key, str) and ":" in key \
                and "too many values to unpack" in str(obs):
            return "user-key-with-colon-unreadable"
    return None


# ------------------------------------------------------------------------ the hook (M)
_installed = False
_MISSING = object()


def _snapshot(self, key):
    k = mt.lower_key(key)
    try:
        return self.data.get(k, _MISSING)
    except TypeError:
        return _MISSING


def _judge_setitem(self, key, value, prev, exc):
    """Contract of ConfigurationDict.__setitem__ (normal and exceptional exit)."""
    ctx = _State.ctx
    if ctx is None:
        return True
    sec = self.section
    k = mt.lower_key(key)
    try:
        cur = self.data.get(k, _MISSING)
    except TypeError:
        cur = _MISSING
    unchanged = cur is prev
    route = _State.route

    def wit(**kw):
        d = {"route": route, "section": sec, "key": show(key), "value": show(value),
             "entry_before": "<absent>" if prev is _MISSING else show(prev),
             "entry_after": "<absent>" if cur is _MISSING else show(cur)}
        d.update(kw)
        return d

    if not sec:
        # section-less dictionary: no validation, only None is refused, keys are lower-case
        ctx.ev("setitem_contract")
        if exc is not None:
            ctx.violation("setitem_contract", wit(exc=repr(exc)),
                          message=f"section-less dict raised {exc!r}")
        elif value is None:
            if not unchanged:
                ctx.violation("setitem_contract", wit(), message="None was stored")
        elif cur is not value:
            ctx.violation("setitem_contract", wit(),
                          message="section-less dict did not store the value under the "
                                  "lower-case key")
        return True
    st, typ, out = mt.normalise(sec, key, value)
    if out.kind == "dc":
        ctx.count(f"hook_dc[{out.why}]")
        return True
    ctx.ev("setitem_contract")
    ctx.count(f"hook_outcome[{out.kind}{'/raised' if exc is not None else ''}]")
    if out.kind == "reject":
        if not unchanged:
            ctx.violation(
                "setitem_contract", wit(reference=f"refuse: {out.why}"),
                finding=classify(route, sec, key, typ, value, None, "stored", cur),
                message=f"[{sec}]:{key!r} = {value!r} must not be stored ({out.why}) "
                        f"but the entry became {cur!r}")
        return True
    # reference accepts
    if exc is not None:
        if out.alt_reject and unchanged:
            return True
        ctx.violation(
            "setitem_contract", wit(reference=show(out.value), exc=repr(exc)),
            finding=classify(route, sec, key, typ, value, out, "raised", exc),
            message=f"[{sec}]:{key!r} = {value!r} raised {exc!r}; documented conversion "
                    f"({typ}) gives {out.value!r}")
        return True
    if cur is _MISSING or (unchanged and prev is not value
                           and not mt.values_equal(cur, out.value)):
        if out.alt_reject:
            return True
        ctx.violation(
            "setitem_contract", wit(reference=show(out.value)),
            finding=classify(route, sec, key, typ, value, out, "absent", None),
            message=f"[{sec}]:{key!r} = {value!r} was not stored; documented conversion "
                    f"({typ}) gives {out.value!r}")
        return True
    if not (mt.values_equal(cur, out.value) and mt.doc_class_ok(typ, cur)):
        ctx.violation(
            "setitem_contract", wit(reference=show(out.value), documented_type=typ),
            finding=classify(route, sec, key, typ, value, out, "stored", cur),
            message=f"[{sec}]:{key!r} = {value!r} stored {cur!r} ({type(cur).__name__}); "
                    f"documented conversion ({typ}) gives {out.value!r}")
    return True


def _post_setitem(self, key, value, OLD):
    try:
        return _judge_setitem(self, key, value, OLD.prev, None)
    except Exception as exc:  # a monitor must never disturb dclab
        if _State.ctx is not None:
            _State.ctx.error("setitem_contract", exc)
        return True


def install():
    global _installed
    if _installed:
        return
    _installed = True
    import functools
    import icontract
    from dclab.rtdc_dataset import config as dconfig
    orig = dconfig.ConfigurationDict.__dict__["__setitem__"]
    contracted = icontract.snapshot(lambda self, key: _snapshot(self, key), name="prev")(
        icontract.ensure(_post_setitem)(orig))

    @functools.wraps(orig)
    def __setitem__(self, key, value):
        if _State.mute:
            return orig(self, key, value)
        prev = _snapshot(self, key)
        try:
            return contracted(self, key, value)
        except Exception as exc:
            try:
                _judge_setitem(self, key, value, prev, exc)
            except Exception as exc2:
                if _State.ctx is not None:
                    _State.ctx.error("setitem_contract", exc2)
            raise

    __setitem__.__vmon_wrapped__ = orig
    dconfig.ConfigurationDict.__setitem__ = __setitem__


# ------------------------------------------------------------------------ in-memory routes
class Caught:
    def __init__(self):
        self.exc = None
        self.result = None
        self.warnings = []


def attempt(func):
    """Run func() recording warnings and an exception."""
    c = Caught()
    with warnings.catch_warnings(record=True) as w:
        warnings.simplefilter("always")
        try:
            c.result = func()
        except Exception as exc:
            c.exc = exc
            c.result = None
    c.warnings = [x.category.__name__ for x in w]
    return c


def fresh_cfg():
    """A default Configuration as scaffold; its five default entries are judged by the hook
    in the constructor route, not again for every scaffold."""
    from dclab.rtdc_dataset import config as dconfig
    _State.mute = True
    try:
        return dconfig.Configuration()
    finally:
        _State.mute = False


def get_section(cfg, sec):
    """The section dict without creating it as a side effect of looking."""
    try:
        if sec in cfg:
            return cfg[sec]
    except Exception:
        pass
    return None


def lookup(sd, key):
    if sd is None:
        return _MISSING
    try:
        data = sd.data if hasattr(sd, "data") else sd
        return data.get(mt.lower_key(key), _MISSING)
    except TypeError:
        return _MISSING


_defaults = {}


def default_entry(sec, key):
    """Entry a fresh Configuration() holds for (sec, key) before anything is set."""
    if not _defaults:
        from dclab.rtdc_dataset import config as dconfig
        cfg = fresh_cfg()
        for s in cfg.keys():
            for k, v in cfg[s].data.items():
                _defaults[(s, k)] = v
        _defaults[None] = None
    try:
        return _defaults.get((sec, mt.lower_key(key)), _MISSING)
    except TypeError:
        return _MISSING


def judge_route(ctx, route, sec, key, skey, rname, value, typ, out, sd, c, need_warning=True,
                prev=_MISSING):
    """Judge the state of section dict `sd` after `value` was set for `skey` via `route`;
    `prev` is the entry that existed before (defaults of a fresh Configuration)."""
    cur = lookup(sd, key)
    if prev is not _MISSING and out.kind == "reject" and cur is not _MISSING \
            and same_type_equal(cur, prev):
        # refused: the default entry is still there, unchanged
        cur = _MISSING

    def wit(**kw):
        d = {"route": route, "section": sec, "key": show(key), "spelled": show(skey),
             "repr": rname, "value": show(value), "documented_type": typ,
             "observed": "<absent>" if cur is _MISSING else show(cur),
             "exc": repr(c.exc) if c.exc is not None else None, "warnings": c.warnings[:4]}
        d.update(kw)
        return d

    ctx.count(f"route[{route}]")
    if out.kind == "dc":
        ctx.count(f"dc[{out.why}]")
        return cur
    if out.kind == "reject":
        ctx.check("rejected_not_stored", cur is _MISSING,
                  lambda: wit(reference=f"refuse: {out.why}"),
                  finding=classify(route, sec, key, typ, value, None, "stored", cur),
                  message=f"{route}: [{sec}]:{skey!r} = {value!r} must be refused "
                          f"({out.why}) but {cur!r} is stored")
        if need_warning and (typ is None or value is None
                             or (isinstance(value, str) and value == "")):
            # unknown key, None, empty string: "rejected with a warning"
            ok = c.exc is None and len(c.warnings) > 0
            ctx.check("rejected_with_warning", ok,
                      lambda: wit(reference=f"refuse with a warning: {out.why}"),
                      finding=(classify(route, sec, key, typ, value, None, "raised", c.exc)
                               if c.exc is not None else None),
                      message=f"{route}: [{sec}]:{skey!r} = {value!r} ({out.why}) "
                              f"exc={c.exc!r} warnings={c.warnings[:3]}")
        elif c.exc is not None:
            ctx.count("refused_by_exception")
        return cur
    # reference accepts
    if c.exc is not None:
        ctx.ev("stored_equals_ref")
        if not (out.alt_reject and cur is _MISSING):
            ctx.violation("stored_equals_ref", wit(reference=show(out.value)),
                          finding=classify(route, sec, key, typ, value, out, "raised", c.exc),
                          message=f"{route}: [{sec}]:{skey!r} = {value!r} raised {c.exc!r}; "
                                  f"documented conversion ({typ}) gives {out.value!r}")
        return cur
    if cur is _MISSING:
        ctx.check("stored_equals_ref", out.alt_reject, lambda: wit(reference=show(out.value)),
                  finding=classify(route, sec, key, typ, value, out, "absent", None),
                  message=f"{route}: [{sec}]:{skey!r} = {value!r} not stored; documented "
                          f"conversion ({typ}) gives {out.value!r}")
        return cur
    eq = mt.values_equal(cur, out.value)
    ctx.check("stored_equals_ref", eq, lambda: wit(reference=show(out.value)),
              finding=classify(route, sec, key, typ, value, out, "stored", cur),
              message=f"{route}: [{sec}]:{skey!r} = {value!r} stored {cur!r}; documented "
                      f"conversion ({typ}) gives {out.value!r}")
    ctx.check("documented_class", mt.doc_class_ok(typ, cur),
              lambda: wit(reference=show(out.value)),
              finding=classify(route, sec, key, typ, value, out, "stored", cur),
              message=f"{route}: [{sec}]:{skey!r} = {value!r} stored {cur!r} of class "
                      f"{type(cur).__name__}, documented type {typ}")
    return cur


def check_access(ctx, sd, sec, key, rng, cur, rname):
    """Case-insensitive access: every spelling reaches the same entry."""
    if not isinstance(key, str) or cur is _MISSING:
        return
    bad = []
    for mode in (0, 1, 2):
        sk = spell(key, mode, rng)
        try:
            if sd[sk] is not cur:
                bad.append([sk, "getitem returns another object"])
            if sk not in sd:
                bad.append([sk, "not in"])
            if sd.get(sk, _MISSING) is not cur:
                bad.append([sk, "get"])
        except Exception as exc:
            bad.append([sk, repr(exc)])
    ctx.check("case_insensitive", not bad,
              lambda: {"section": sec, "key": key, "repr": rname, "failures": bad[:6],
                       "dict_type": type(sd).__name__},
              finding=("section-assignment-replaces-validating-dict"
                       if type(sd) is dict else None),
              message=f"[{sec}]:{key!r} not reachable under all spellings: {bad[:3]}")


def check_idempotent(ctx, sd, sec, key, typ, cur, rname):
    """conv(stored) == stored, for the reference and for dclab."""
    if cur is _MISSING or typ is None:
        return
    o2 = mt.convert(typ, cur)
    if o2.kind == "dc":
        ctx.count(f"dc[{o2.why}]")
        return
    before = cur
    c = attempt(lambda: sd.__setitem__(key, cur))
    after = lookup(sd, key)
    ok = (c.exc is None and after is not _MISSING and same_type_equal(after, before)
          and o2.kind == "ok" and mt.values_equal(o2.value, before))
    ctx.check("idempotent", ok,
              lambda: {"section": sec, "key": key, "repr": rname, "stored": show(before),
                       "after_reassigning_it": "<absent>" if after is _MISSING else show(after),
                       "exc": repr(c.exc), "reference_on_stored": repr(o2)},
              finding=classify("idempotent", sec, key, typ, before, o2 if o2.kind == "ok"
                               else None, "raised" if c.exc is not None else "stored",
                               c.exc if c.exc is not None else after),
              message=f"[{sec}]:{key!r}: re-assigning the stored value {before!r} gives "
                      f"{after!r} exc={c.exc!r}")


def text_path():
    from vmon import boot
    return boot.scratch() / f"c11_{os.getpid()}.cfg"


def run_text_roundtrip(ctx, cfg, sec, key, typ, stored, rname):
    """tostring/save -> load_from_file -> Configuration(files=[...])."""
    from dclab.rtdc_dataset import config as dconfig
    if typ in ("any",):
        ctx.count("text_untyped_not_judged")
        return
    if not mt.text_safe(stored) or (isinstance(key, str) and not mt.text_safe(key)):
        ctx.count("text_unsafe_string_not_judged")
        return
    path = text_path()
    _State.route = "text_roundtrip"
    c = attempt(lambda: (cfg.save(path), dconfig.Configuration(files=[path]))[1])
    txt = None
    if c.exc is None:
        try:
            txt = cfg.tostring()
            if path.read_text() != txt:
                ctx.violation("text_roundtrip", {"section": sec, "key": key},
                              message="save() wrote something else than tostring()")
        except Exception as exc:
            c.exc = exc
    ctx.ev("text_roundtrip")
    wit = {"section": sec, "key": key, "repr": rname, "documented_type": typ,
           "stored": show(stored)}
    if c.exc is not None:
        ctx.violation("text_roundtrip", dict(wit, exc=repr(c.exc)),
                      finding=classify_text(sec, key, typ, stored, "raised", c.exc),
                      message=f"text round trip of [{sec}]:{key!r} = {stored!r} raised "
                              f"{c.exc!r}")
        return
    got = lookup(get_section(c.result, sec), key)
    ok = got is not _MISSING and mt.values_equal(got, stored, atol=1e-12) \
        and mt.doc_class_ok(typ, got)
    if not ok:
        line = [ln for ln in (txt or "").splitlines() if ln.lower().startswith(str(key))]
        ctx.violation("text_roundtrip",
                      dict(wit, read_back="<absent>" if got is _MISSING else show(got),
                           text_line=line[:2]),
                      finding=classify_text(sec, key, typ, stored,
                                            "absent" if got is _MISSING else "stored", got),
                      message=f"text round trip of [{sec}]:{key!r}: {stored!r} came back as "
                              f"{'nothing' if got is _MISSING else repr(got)}")


def run_text_setting(ctx, sec, key, skey, rname, value, typ, out):
    """A hand-written configuration file line `key = value` as a setting route."""
    from dclab.rtdc_dataset import config as dconfig
    if not (isinstance(value, str) and type(value) is str and isinstance(key, str)):
        return
    if value and not mt.text_safe(value):
        return
    if not mt.text_safe(key) or "=" in key or key != key.strip():
        ctx.count("text_unsafe_key_not_judged")
        return
    if typ == "any":
        ctx.count("text_untyped_not_judged")
        return
    path = text_path()
    # the section header is spelled like the keys: lower case / upper case / mixed
    hdr = spell(sec, (len(str(skey)) + len(str(value))) % 3)
    ctx.count(f"text_setting_header_spelling[{'lower' if hdr == sec else 'other'}]")
    path.write_text(f"# written by the C11 check\n[{hdr}]\n{skey} = {value}\n")
    _State.route = "text_setting"
    c = attempt(lambda: dconfig.Configuration(files=[path]))
    ctx.ev("text_setting")
    sd = get_section(c.result, sec) if c.exc is None else None
    if c.exc is not None and out.kind == "ok" and not out.alt_reject:
        ctx.violation("text_setting", {"section": sec, "key": key, "line": f"{skey} = {value}",
                                       "exc": repr(c.exc), "reference": show(out.value)},
                      finding=(classify("text_setting", sec, key, typ, value, out, "raised",
                                        c.exc)
                               or classify_text(sec, key, typ, value, "raised", c.exc)),
                      message=f"loading '{skey} = {value}' in [{sec}] raised {c.exc!r}")
        return
    if c.exc is not None:
        ctx.count("text_setting_refused_by_exception")
        return
    # the text loader drops empty values silently and guesses unknown keys: only the final
    # state is judged (no warning demanded for empty values: the line is simply skipped)
    judge_route(ctx, "text_setting", sec, key, skey, rname, value, typ, out, sd, c,
                need_warning=(value != ""), prev=default_entry(sec, key))


def run_mem_key(ctx, sec, key, group, rng, routes_full=True):
    from dclab.rtdc_dataset import config as dconfig
    unknown_section = group == "invalid_section"
    for ri, (rname, fac) in enumerate(REPRS):
        value = fac()
        st, typ, out = mt.normalise(sec, key, value)
        skey = spell(key, ri % 3, rng)
        if out.kind != "dc" and (out.kind == "reject" or not same_type_equal(out.value, value)):
            ctx.mark_nontrivial(["k", sec, repr(key), rname])
        ctx.count(f"outcome[{out.kind}]")
        if typ is not None:
            ctx.count(f"type[{typ}]")

        if not routes_full:
            # extension space (thorough): assignment and update on a bare section dict
            sd = dconfig.ConfigurationDict(sec)
            _State.route = "assign"
            c = attempt(lambda: sd.__setitem__(skey, fac()))
            cur = judge_route(ctx, "assign", sec, key, skey, rname, value, typ, out, sd, c)
            if out.kind == "ok" and cur is not _MISSING:
                check_access(ctx, sd, sec, key, rng, cur, rname)
                check_idempotent(ctx, sd, sec, key, typ, cur, rname)
            sd = dconfig.ConfigurationDict(sec)
            _State.route = "update"
            c = attempt(lambda: sd.update({skey: fac()}))
            judge_route(ctx, "update", sec, key, skey, rname, value, typ, out, sd, c)
            continue
        # ---- route: item assignment
        if not unknown_section:
            cfg = fresh_cfg()
            _State.route = "assign"
            c = attempt(lambda: cfg[sec].__setitem__(skey, fac()))
            sd = get_section(cfg, sec)
            cur = judge_route(ctx, "assign", sec, key, skey, rname, value, typ, out, sd, c,
                              prev=default_entry(sec, key))
            if out.kind == "ok" and cur is not _MISSING:
                check_access(ctx, sd, sec, key, rng, cur, rname)
                run_text_roundtrip(ctx, cfg, sec, key, typ, cur, rname)
                check_idempotent(ctx, sd, sec, key, typ, cur, rname)
        # ---- the client keeps using the object it assigned: the stored entry is the
        # converted value, it must not follow later in-place changes of the client's array
        kept = fac()
        if not unknown_section and out.kind == "ok" and typ == "f2dfloatarray" \
                and isinstance(kept, np.ndarray) and kept.size and kept.dtype.kind in "fiu" \
                and kept.flags.writeable:
            for how in ("assign", "update", "ctor"):
                _State.route = "kept_" + how
                if how == "assign":
                    cfg2 = fresh_cfg()
                    c2 = attempt(lambda: cfg2[sec].__setitem__(skey, kept))
                elif how == "update":
                    cfg2 = fresh_cfg()
                    c2 = attempt(lambda: cfg2.update({sec: {skey: kept}}))
                else:
                    c2 = attempt(lambda: dconfig.Configuration(cfg={sec: {skey: kept}}))
                    cfg2 = c2.result
                if c2.exc is not None:
                    continue
                before = lookup(get_section(cfg2, sec), key)
                if before is _MISSING:
                    continue
                before = np.array(before, copy=True)
                saved = kept.copy()
                kept[...] = kept * 2 + 1
                after = lookup(get_section(cfg2, sec), key)
                ctx.check("stored_value_independent_of_client_object",
                          after is not _MISSING and mt.values_equal(after, before),
                          lambda: {"section": sec, "key": show(key), "route": how,
                                   "representation": rname, "stored_before": show(before),
                                   "stored_after_client_changed_its_array": show(after)},
                          message=f"[{sec}] {key!r}: the stored value changed when the client "
                                  f"modified the array it had assigned ({how})")
                kept[...] = saved
        # ---- route: section.update / Configuration.update / constructors
        if not unknown_section:
            cfg = fresh_cfg()
            _State.route = "update"
            c = attempt(lambda: cfg[sec].update({skey: fac()}))
            judge_route(ctx, "update", sec, key, skey, rname, value, typ, out,
                        get_section(cfg, sec), c, prev=default_entry(sec, key))
        cfg = fresh_cfg()
        _State.route = "cfg_update"
        c = attempt(lambda: cfg.update({sec: {skey: fac()}}))
        judge_route(ctx, "cfg_update", sec, key, skey, rname, value, typ, out,
                    get_section(cfg, sec), c, prev=default_entry(sec, key))
        _State.route = "ctor"
        c = attempt(lambda: dconfig.Configuration(cfg={sec: {skey: fac()}}))
        if c.exc is None:
            sd = get_section(c.result, sec)
            cur = judge_route(ctx, "ctor", sec, key, skey, rname, value, typ, out, sd, c,
                              prev=default_entry(sec, key))
            if out.kind == "ok" and cur is not _MISSING and ri % 5 == 0:
                check_access(ctx, sd, sec, key, rng, cur, rname)
        else:
            judge_route(ctx, "ctor", sec, key, skey, rname, value, typ, out, None, c)
        _State.route = "dict_ctor"
        c = attempt(lambda: dconfig.ConfigurationDict(sec, {skey: fac()}))
        judge_route(ctx, "dict_ctor", sec, key, skey, rname, value, typ, out,
                    c.result if c.exc is None else None, c)
        # ---- route: hand-written configuration text
        run_text_setting(ctx, sec, key, skey, rname, value, typ, out)
        # ---- route: section assignment (documented for the user section)
        if group in ("user", "fixed") or (group == "invalid" and sec == "user"):
            cfg = fresh_cfg()
            _State.route = "section_assign"
            c = attempt(lambda: cfg.__setitem__(sec, {skey: fac()}))
            sd = get_section(cfg, sec)
            data = sd if isinstance(sd, dict) else getattr(sd, "data", None)
            ctx.ev("section_assign")
            plain = type(sd) is dict
            cur = lookup(sd, key)
            if out.kind == "dc":
                pass
            elif out.kind == "reject":
                # the entry must not appear under any spelling (an unchanged default is fine)
                lk = mt.lower_key(key)
                hits = [k for k in (data or {}) if mt.lower_key(k) == lk]
                dflt = default_entry(sec, key)
                stored_any = any(dflt is _MISSING or not same_type_equal(data[k], dflt)
                                 for k in hits)
                if stored_any:
                    ctx.violation(
                        "section_assign",
                        {"section": sec, "key": show(key), "value": show(value),
                         "section_object": type(sd).__name__, "content": show(dict(data))},
                        finding=("section-assignment-replaces-validating-dict" if plain
                                 else None),
                        message=f"cfg[{sec!r}] = {{{skey!r}: {value!r}}} must refuse the "
                                f"entry ({out.why}); section is now {dict(data)!r}")
            else:
                ok = (cur is not _MISSING and mt.values_equal(cur, out.value)
                      and mt.doc_class_ok(typ, cur))
                if not ok:
                    ctx.violation(
                        "section_assign",
                        {"section": sec, "key": show(key), "spelled": show(skey),
                         "value": show(value), "reference": show(out.value),
                         "section_object": type(sd).__name__,
                         "content": show(dict(data)) if data is not None else None},
                        finding=("section-assignment-replaces-validating-dict" if plain
                                 else None),
                        message=f"cfg[{sec!r}] = {{{skey!r}: {value!r}}}: entry "
                                f"{'absent' if cur is _MISSING else repr(cur)}, documented "
                                f"conversion gives {out.value!r}")
                elif ri % 7 == 0:
                    check_access(ctx, sd, sec, key, rng, cur, rname)
    _State.route = "-"


# ------------------------------------------------------------------------ file routes
def release():
    from vmon import boot
    return boot.release_version()[0]


def writer_value(value):
    """The writer decodes bytes before converting."""
    if isinstance(value, bytes):
        try:
            return value.decode("utf-8")
        except UnicodeDecodeError:
            return value
    return value


def h5_storable(v):
    """Values the user section can carry into an HDF5 attribute and back by value."""
    k = mt.kind_of(v)
    if k in ("bool", "int", "float", "npbool", "npint", "npfloat"):
        return True
    if k == "str":
        return len(v) > 0 and type(v) is str      # h5py has no path for numpy.str_
    if k in ("list", "tuple") or k.startswith("ndarray"):
        try:
            arr = np.array(v)
        except ValueError:
            return False
        return arr.dtype.kind in "biuf" or (arr.dtype.kind == "U" and arr.size > 0)
    return False


def expected_in_file(sec, key, typ, norm, n_events):
    """The documented rewriting the writer applies on top of the normalised value."""
    if (sec, key) == ("experiment", "event count"):
        return n_events
    if (sec, key) == ("setup", "software version"):
        return mt.brand(norm, release())
    return norm


def compare_config(ctx, monitor, route, cfg, expect, extra=None, meta=None, alt=()):
    """expect: list of (sec, key, typ, value).  Judge every entry of a re-opened config.
    For (sec, key) in `alt` an absent entry is acceptable as well."""
    nbad = 0
    for sec, key, typ, val in expect:
        got = lookup(get_section(cfg, sec), key)
        ok = got is not _MISSING and mt.values_equal(got, val) and mt.doc_class_ok(typ, got)
        if got is _MISSING and (sec, key) in alt:
            ok = True
        ctx.ev(monitor)
        if not ok:
            raw = (meta or {}).get(sec, {}).get(key, _MISSING)
            ctx.violation(
                monitor,
                dict({"route": route, "section": sec, "key": key, "documented_type": typ,
                      "written": show(raw), "expected": show(val),
                      "read_back": "<absent>" if got is _MISSING else show(got)},
                     **(extra or {})),
                finding=classify_readback(sec, key, typ, val, raw, got),
                message=f"{route}: [{sec}]:{key!r} written as {raw!r}: expected {val!r}, "
                        f"read back {'nothing' if got is _MISSING else repr(got)}")
        nbad += not ok
    return nbad


def file_chain(ctx, tag, meta, expect, rname, localise=None, alt=()):
    """writer -> reopen -> export -> reopen -> compress -> reopen for one metadata dict.
    expect: list of (sec, key, typ, normalised value).  Returns False if the writer or the
    first reopen failed; with `localise` set that failure is not recorded here (the caller
    repeats the chain with one file per key)."""
    import dclab
    import h5py
    from dclab import RTDCWriter
    from dclab import cli as dcli
    from vmon import boot
    tmp = boot.scratch()
    base = f"c11_{os.getpid()}_{tag}"
    p1, p2, p3, p4 = (tmp / f"{base}_{s}.rtdc" for s in ("w", "e", "c", "d"))
    for p in (p1, p2, p3, p4):
        if p.exists():
            p.unlink()
    deform = np.linspace(0.01, 0.02, N_EVENTS)
    exp_file = [(s, k, t, expected_in_file(s, k, t, v, N_EVENTS)) for s, k, t, v in expect]
    extra = {"repr": rname}
    try:
        # ---- writer
        _State.route = "writer"
        try:
            with RTDCWriter(p1) as hw:
                hw.store_metadata(meta)
                hw.store_feature("deform", deform)
                # one fluorescence channel is recorded: metadata the user stored (e.g. the
                # channel count of the set-up) are completed by the writer, never replaced
                hw.store_feature("fl1_max", np.arange(1, N_EVENTS + 1))
        except Exception as exc:
            if localise is None:
                ctx.ev("file_roundtrip")
                s, k, t, v = expect[0] if expect else (None, None, None, None)
                raw = meta.get(s, {}).get(k)
                ctx.violation("file_roundtrip",
                              {"route": "writer", "meta": show(meta), "exc": repr(exc)},
                              finding=(classify("writer", s, k, t, raw, mt.Outcome("ok", v),
                                                "raised", exc)
                                       or classify_file(s, k, t, v, "raised", exc, raw=raw)),
                              message=f"store_metadata({meta!r}) raised {exc!r}")
            return False
        # ---- raw attributes
        with h5py.File(p1, "r") as h5:
            attrs = dict(h5.attrs)
        for s, k, t, v in exp_file:
            name = [a for a in attrs if a.lower() == f"{s}:{k}".lower()]
            got = attrs[name[0]] if name else _MISSING
            if isinstance(got, bytes):
                got = got.decode("utf-8")
            ctx.ev("h5_attribute")
            if got is _MISSING and (s, k) in alt:
                continue
            if got is _MISSING or not mt.values_equal(got, v):
                raw = meta.get(s, {}).get(k, _MISSING)
                ctx.violation(
                    "h5_attribute",
                    dict(extra, section=s, key=k, written=show(raw), expected=show(v),
                         attribute="<absent>" if got is _MISSING else show(got)),
                    finding=classify_readback(s, k, t, v, raw, got),
                    message=f"HDF5 attribute {s}:{k} (written as {raw!r}) is "
                            f"{'absent' if got is _MISSING else repr(got)}, expected {v!r}")
        # ---- reopen
        _State.route = "reopen"
        try:
            ds = dclab.new_dataset(p1)
        except Exception as exc:
            if localise is None:
                ctx.ev("file_roundtrip")
                s, k, t, v = expect[0] if expect else (None, None, None, None)
                ctx.violation("file_roundtrip",
                              {"route": "reopen", "meta": show(meta), "exc": repr(exc)},
                              finding=classify_file(s, k, t, v, "raised", exc),
                              message=f"file written from {meta!r} cannot be opened: {exc!r}")
            return False
        with ds:
            compare_config(ctx, "file_roundtrip", "writer->reopen", ds.config,
                           exp_file, extra, meta=meta, alt=alt)
            # ---- export of the re-opened dataset
            _State.route = "export"
            try:
                # a filtered export first (it gives the *exported file* a new run identifier);
                # the source's metadata and a later export are not affected by it
                ds.export.hdf5(p2, features=["deform"], filtered=True, override=True)
                compare_config(ctx, "export_roundtrip", "source after a filtered export",
                               ds.config, exp_file, extra, meta=meta, alt=alt)
                ds.export.hdf5(p2, features=["deform"], filtered=False, override=True)
                with dclab.new_dataset(p2) as d2:
                    compare_config(ctx, "export_roundtrip", "file->export->reopen",
                                   d2.config, exp_file, extra, meta=meta, alt=alt)
            except Exception as exc:
                ctx.ev("export_roundtrip")
                ctx.violation("export_roundtrip", dict(extra, meta=show(meta), exc=repr(exc)),
                              message=f"export of a dataset holding {meta!r} failed: {exc!r}")
        # ---- dclab-compress
        _State.route = "compress"
        try:
            dcli.compress(path_in=p1, path_out=p3)
            with dclab.new_dataset(p3) as d3:
                compare_config(ctx, "compress_roundtrip", "file->compress->reopen",
                               d3.config, exp_file, extra, meta=meta, alt=alt)
            with h5py.File(p3, "r") as h5:
                attrs3 = dict(h5.attrs)
            same = set(attrs) == set(attrs3) and all(
                mt.values_equal(attrs[a], attrs3[a]) for a in attrs)
            ctx.check("compress_roundtrip", same,
                      lambda: dict(extra, only_in=sorted(set(attrs) ^ set(attrs3))[:6]),
                      message="dclab-compress changed the HDF5 metadata attributes")
        except Exception as exc:
            ctx.ev("compress_roundtrip")
            ctx.violation("compress_roundtrip", dict(extra, meta=show(meta), exc=repr(exc)),
                          message=f"dclab-compress of a file holding {meta!r} failed: {exc!r}")
        # ---- export of an in-memory dataset whose config was set by update()
        _State.route = "export_dict"
        try:
            d0 = dclab.new_dataset({"deform": deform, "area_um": deform * 1000})
            exp_dict = []
            for s, k, t, v in exp_file:
                if isinstance(meta[s][k], bytes):
                    ctx.count("dc[bytes are undocumented on assignment]")
                else:
                    exp_dict.append((s, k, t, v))
                    d0.config[s][k] = meta[s][k]
            d0.export.hdf5(p4, features=["deform"], filtered=False)
            with dclab.new_dataset(p4) as d4:
                compare_config(ctx, "export_roundtrip", "dict->export->reopen",
                               d4.config, exp_dict, extra, meta=meta, alt=alt)
        except Exception as exc:
            ctx.ev("export_roundtrip")
            s, k, t, v = expect[0] if expect else (None, None, None, None)
            ctx.violation("export_roundtrip", dict(extra, meta=show(meta), exc=repr(exc)),
                          finding=(classify_file(s, k, t, v, "raised", exc,
                                                 raw=meta.get(s, {}).get(k))
                                   if len(expect) == 1 else None),
                          message=f"export of an in-memory dataset holding {meta!r} "
                                  f"failed: {exc!r}")
    finally:
        _State.route = "-"
        for p in (p1, p2, p3, p4):
            try:
                p.unlink()
            except OSError:
                pass
    return True


def writer_reject(ctx, sec, key, rname, value, why, typ):
    """The writer must refuse (or at least not make visible) what the reference refuses."""
    import h5py
    from dclab import RTDCWriter
    from dclab.rtdc_dataset import fmt_hdf5
    _State.route = "writer_reject"
    with h5py.File(f"c11-mem-{os.getpid()}", "w", driver="core", backing_store=False) as h5:
        hw = RTDCWriter(h5)
        c = attempt(lambda: hw.store_metadata({sec: {key: value}}))
        name = f"{sec}:{key}"
        visible = _MISSING
        if name in h5.attrs:
            try:
                cfg = fmt_hdf5.RTDC_HDF5.parse_config(h5)
                visible = lookup(get_section(cfg, sec), key)
            except Exception:
                visible = _MISSING
        if (sec, key) == ("setup", "software version") and visible == mt.brand("", release()):
            # the writer always brands the file, with or without a previous version
            visible = _MISSING
        ctx.check("writer_rejects", visible is _MISSING,
                  lambda: {"section": sec, "key": show(key), "repr": rname,
                           "value": show(value), "reference": f"refuse: {why}",
                           "visible_after_reading": show(visible), "exc": repr(c.exc)},
                  finding=classify("writer", sec, key, typ, writer_value(value), None, "stored",
                                   visible),
                  message=f"store_metadata [{sec}]:{key!r} = {value!r} must be refused "
                          f"({why}) but reads back as {visible!r}")
        if c.exc is not None:
            ctx.count("writer_refused_by_exception")
        else:
            ctx.count("writer_refused_on_reading")
    _State.route = "-"


def writer_outcome(sec, key, value):
    """Reference outcome on the writer route (bytes are decoded, only measurement metadata
    sections and the user section may be written, user values are written as they are)."""
    v = writer_value(value)
    st, typ, out = mt.normalise(sec, key, v)
    if v is None and st == "known":
        # the statement speaks about None assigned to a configuration, not about None handed
        # to the writer directly (a configuration can never hold None)
        return st, typ, mt.Outcome("dc", why="None handed directly to the writer"), v
    if sec == "user":
        if out.kind == "ok" and not h5_storable(v):
            return st, typ, mt.Outcome("dc", why="user value HDF5 cannot carry (user's "
                                                  "responsibility as documented)"), v
        return st, typ, out, v
    if sec == "fmt_tdms":
        return st, typ, mt.Outcome("dc", why="fmt_tdms is dropped by the writer as "
                                             "documented"), v
    if sec not in mt.METADATA_SECTIONS:
        return st, typ, mt.Outcome("reject", why="section is not measurement metadata"), v
    return st, typ, out, v


def run_file_batch(ctx, gname, ri):
    rname, fac = REPRS[ri]
    keys = file_group_keys(gname)
    meta, expect, singles, alt = {}, [], [], set()
    for sec, key in keys:
        value = fac()
        st, typ, out, v = writer_outcome(sec, key, value)
        ctx.count(f"writer_outcome[{out.kind}]")
        if out.kind == "dc":
            ctx.count(f"dc[{out.why}]")
            continue
        if out.kind == "reject":
            writer_reject(ctx, sec, key, rname, value, out.why, typ)
            continue
        if sec == "user" and ":" in key:
            # judged on its own file
            singles.append((sec, key, typ, value, out))
            continue
        if out.alt_reject:
            alt.add((sec, key))
        meta.setdefault(sec, {})[key] = value
        expect.append((sec, key, typ, out.value))
    if meta:
        ctx.count("files_batch")
        ok = file_chain(ctx, f"b{ri}", meta, expect, rname, localise=True, alt=alt)
        if not ok:
            # localise: one file per key
            ctx.count("batches_localised")
            for sec, key, typ, val in expect:
                file_chain(ctx, f"s{ri}", {sec: {key: meta[sec][key]}},
                           [(sec, key, typ, val)], rname, alt=alt)
        if ok and ri % 4 == 0:
            ctx.mark_nontrivial(["file", gname, rname])
    for sec, key, typ, value, out in singles:
        ctx.count("files_single")
        file_chain(ctx, f"x{ri}", {sec: {key: value}}, [(sec, key, typ, out.value)], rname)


def run_file_single(ctx, sec, key):
    for ri, (rname, fac) in enumerate(REPRS):
        value = fac()
        st, typ, out, v = writer_outcome(sec, key, value)
        if out.kind == "dc":
            ctx.count(f"dc[{out.why}]")
        elif out.kind == "reject":
            writer_reject(ctx, sec, key, rname, value, out.why, typ)
        else:
            ctx.count("files_single")
            if file_chain(ctx, "t", {sec: {key: value}}, [(sec, key, typ, out.value)], rname,
                          alt={(sec, key)} if out.alt_reject else ()):
                ctx.mark_nontrivial(["file1", sec, key, rname])


# ------------------------------------------------------------------------ histories
def run_seq(ctx, idx):
    """Random assignment history on one Configuration, compared with a model dict."""
    from dclab.rtdc_dataset import config as dconfig
    rng = ctx.rng(idx)
    pool = [(s, k, g) for s, k, g in KEYS if g != "invalid_section" and g != "dc"]
    cfg = dconfig.Configuration()
    model = {}
    for sec in list(cfg.keys()):
        model[sec] = dict(cfg[sec].data)
    n_ops = int(rng.integers(20, 60 if ctx.tier == "quick" else 120))
    # few keys, many collisions
    sub = [pool[int(i)] for i in rng.integers(0, len(pool), size=8)]
    hist = []
    for step in range(n_ops):
        sec, key, grp = sub[int(rng.integers(0, len(sub)))]
        ri = int(rng.integers(0, len(REPRS)))
        rname, fac = REPRS[ri]
        value = fac()
        st, typ, out = mt.normalise(sec, key, value)
        skey = spell(key, int(rng.integers(0, 3)), rng)
        op = ["assign", "update", "cfg_update", "setdefault", "delete", "pop"][
            int(rng.choice(6, p=[0.4, 0.2, 0.15, 0.1, 0.1, 0.05]))]
        if out.kind == "dc" and op in ("assign", "update", "cfg_update", "setdefault"):
            ctx.count("seq_dc_skipped")
            continue
        msec = model.setdefault(sec, {})
        lk = mt.lower_key(key)
        try:
            hash(lk)
        except TypeError:
            continue
        hist.append([op, sec, repr(skey), rname])
        _State.route = f"seq:{op}"
        expect_change = None
        if op in ("assign", "update", "cfg_update"):
            if op == "assign":
                c = attempt(lambda: cfg[sec].__setitem__(skey, value))
            elif op == "update":
                c = attempt(lambda: cfg[sec].update({skey: value}))
            else:
                c = attempt(lambda: cfg.update({sec: {skey: value}}))
            if out.kind == "ok":
                expect_change = out
        elif op == "setdefault":
            c = attempt(lambda: cfg[sec].setdefault(skey, value))
            if lk not in msec and out.kind == "ok":
                expect_change = out
        elif op == "delete":
            c = attempt(lambda: cfg[sec].__delitem__(skey))
            if lk in msec:
                del msec[lk]
            elif c.exc is None:
                ctx.violation("seq_state", {"history": hist[-8:]},
                              message="deleting an absent key did not raise")
            c.exc = None
        else:
            c = attempt(lambda: cfg[sec].pop(skey, None))
            msec.pop(lk, None)
        finding = None
        actual = dict(cfg[sec].data) if sec in cfg else {}
        if expect_change is not None:
            cur = actual.get(lk, _MISSING)
            if expect_change.alt_reject and (cur is _MISSING or c.exc is not None):
                pass
            else:
                msec[lk] = expect_change.value
            if c.exc is not None:
                finding = classify("seq", sec, key, typ, value, out, "raised", c.exc)
            elif cur is not _MISSING:
                finding = classify("seq", sec, key, typ, value, out, "stored", cur)
        elif out.kind == "reject" and op not in ("delete", "pop") and c.exc is not None:
            finding = classify("seq", sec, key, typ, value, None, "raised", c.exc)
            c.exc = None
        elif out.kind == "reject" and op not in ("delete", "pop"):
            cur = actual.get(lk, _MISSING)
            if cur is not _MISSING:
                finding = classify("seq", sec, key, typ, value, None, "stored", cur)
        # compare the whole configuration with the model
        diffs = []
        if expect_change is not None and c.exc is not None:
            diffs.append([sec, repr(lk), f"raised {c.exc!r}"])
        for s in set(model) | set(cfg.keys()):
            a = dict(cfg[s].data) if s in cfg else {}
            m = model.get(s, {})
            for k in set(a) | set(m):
                if k not in a or k not in m or not mt.values_equal(a[k], m[k]):
                    diffs.append([s, repr(k), f"actual={a.get(k, '<absent>')!r}",
                                  f"model={m.get(k, '<absent>')!r}"])
        ctx.check("seq_state", not diffs,
                  lambda: {"history": hist[-10:], "value": show(value), "diffs": diffs[:6],
                           "reference": repr(out)},
                  finding=finding,
                  message=f"after {op} [{sec}]:{skey!r} = {value!r} the configuration "
                          f"differs from the model: {diffs[:2]}")
        if diffs:
            # resynchronise the model and go on
            model = {s: dict(cfg[s].data) for s in cfg.keys()}
    # a copy is an equal configuration
    _State.route = "seq:copy"
    c = attempt(lambda: cfg.copy())
    cdiffs, findings = [], set()
    if c.exc is None:
        for s in set(c.result.keys()) | set(cfg.keys()):
            a = dict(cfg[s].data) if s in cfg else {}
            b = dict(c.result[s].data) if s in c.result else {}
            for k in set(a) | set(b):
                if k not in a and k in b and same_type_equal(b[k], default_entry(s, k)):
                    # a deleted mandatory default is re-created by the constructor
                    ctx.count("copy_recreated_default_not_judged")
                    continue
                if k not in a or k not in b or not same_type_equal(a[k], b[k]):
                    cdiffs.append([s, repr(k), f"original={a.get(k, '<absent>')!r}",
                                   f"copy={b.get(k, '<absent>')!r}"])
                    st, typ = mt.key_status(s, k)
                    if k in a and k in b and st == "known":
                        findings.add(classify("seq:copy", s, k, typ, a[k],
                                              mt.Outcome("ok", a[k]), "stored", b[k]))
                    else:
                        findings.add(None)
    ctx.check("seq_state", c.exc is None and not cdiffs,
              lambda: {"history": hist[-10:], "exc": repr(c.exc), "diffs": cdiffs[:6]},
              finding=(findings.pop() if len(findings) == 1 else None),
              message=f"Configuration.copy() differs from the original (exc={c.exc!r}): "
                      f"{cdiffs[:3]}")
    ctx.count("seq_ops", len(hist))
    if len(hist) >= 10:
        ctx.mark_nontrivial(["seq", hist])
    if idx % 97 == 0:
        ctx.sample({"kind": "seq", "history": hist[:8]})
    _State.route = "-"


# ------------------------------------------------------------------- registry histories
def run_registry(ctx, idx):
    """Histories that change the feature registry between two uses of the same pattern key.

    Whether "<feature> soft limit", "<f1>,<f2> polygon points" or a "filtering" range is a
    known key depends on the features registered *now* (temporary and plug-in features come
    and go at run time), not on what was registered when the key was first seen."""
    import h5py
    import dclab
    from dclab import RTDCWriter
    from dclab.rtdc_dataset import config as dconfig, feat_temp, fmt_hdf5
    rng = ctx.rng(idx, salt=77)
    feats = [f"vm{idx}x", f"vm{idx}y"]
    keyspace = []
    for f in feats:
        keyspace += [("online_filter", f"{f} min", 1.5), ("online_filter", f"{f} max", 2.5),
                     ("online_filter", f"{f} {mt.SOFT}", "True"),
                     ("online_filter", f"area_um,{f} {mt.POLY}", [[0, 1], [2, 3], [4, 5.5]]),
                     ("online_filter", f"{f},deform {mt.SOFT}", "False"),
                     ("filtering", f"{f} min", 0.25), ("filtering", f"{f} max", 7.0)]
    keyspace.append(("online_filter", f"{feats[0]},{feats[1]} {mt.POLY}", [[0, 0], [1, 0], [1, 1]]))
    keys = [keyspace[int(i)] for i in rng.choice(len(keyspace), size=4, replace=False)]
    hist = []
    flips = 0
    seen = {}       # key -> set of statuses it was used under
    mt.REGISTERED.clear()
    try:
        for step in range(int(rng.integers(8, 24))):
            r = rng.random()
            if r < 0.3:
                f = feats[int(rng.integers(0, 2))]
                if f in mt.REGISTERED:
                    feat_temp.deregister_temporary_feature(f)
                    mt.REGISTERED.discard(f)
                    hist.append(["deregister", f])
                else:
                    dclab.register_temporary_feature(f)
                    mt.REGISTERED.add(f)
                    hist.append(["register", f])
                flips += 1
                continue
            sec, key, value = keys[int(rng.integers(0, len(keys)))]
            st, typ, out = mt.normalise(sec, key, value)
            known = st == "known"
            seen.setdefault((sec, key), set()).add(known)
            route = ["assign", "update", "cfg_update", "construct", "file", "writer"][
                int(rng.choice(6, p=[0.3, 0.15, 0.1, 0.15, 0.15, 0.15]))]
            if sec == "filtering" and route in ("file", "writer"):
                route = "assign"
            hist.append([route, sec, key, "known" if known else "unknown"])
            _State.route = f"registry:{route}"

            def wit(**kw):
                d = {"history": hist[-10:], "registered_now": sorted(mt.REGISTERED),
                     "section": sec, "key": key, "value": show(value),
                     "reference": "known key: store converted" if known else "unknown key: "
                     "warn, do not store"}
                d.update(kw)
                return d
            stored = _MISSING
            warned = None
            exc = None
            if route in ("assign", "update", "cfg_update", "construct"):
                if route == "construct":
                    c = attempt(lambda: dconfig.Configuration(cfg={sec: {key: value}}))
                    cfg = c.result
                else:
                    cfg = fresh_cfg()
                    if route == "assign":
                        c = attempt(lambda: cfg[sec].__setitem__(key, value))
                    elif route == "update":
                        c = attempt(lambda: cfg[sec].update({key: value}))
                    else:
                        c = attempt(lambda: cfg.update({sec: {key: value}}))
                exc = c.exc
                warned = "UnknownConfigurationKeyWarning" in c.warnings
                if cfg is not None:
                    stored = lookup(get_section(cfg, sec), key)
            elif route == "file":
                # an .rtdc file that carries the key is opened now
                with h5py.File(f"c11-reg-{os.getpid()}", "w", driver="core",
                               backing_store=False) as h5:
                    h5.attrs[f"{sec}:{key}"] = (np.asarray(value, dtype=float)
                                                if isinstance(value, list) else value)
                    c = attempt(lambda: fmt_hdf5.RTDC_HDF5.parse_config(h5))
                    exc = c.exc
                    warned = "UnknownConfigurationKeyWarning" in c.warnings
                    if c.result is not None:
                        stored = lookup(get_section(c.result, sec), key)
            else:
                with h5py.File(f"c11-reg-{os.getpid()}", "w", driver="core",
                               backing_store=False) as h5:
                    hw = RTDCWriter(h5)
                    c = attempt(lambda: hw.store_metadata({sec: {key: value}}))
                    if known:
                        exc = c.exc
                    if f"{sec}:{key}" in h5.attrs:
                        c2 = attempt(lambda: fmt_hdf5.RTDC_HDF5.parse_config(h5))
                        if c2.result is not None:
                            stored = lookup(get_section(c2.result, sec), key)
            if known:
                ok = exc is None and stored is not _MISSING and mt.values_equal(stored, out.value)
                msg = (f"[{sec}]:{key!r} is a known key now (feature registered) but was "
                       f"{'refused' if stored is _MISSING else 'stored as %r' % (stored,)} "
                       f"via {route} (exc={exc!r})")
            else:
                ok = stored is _MISSING and (warned is None or warned or exc is not None)
                msg = (f"[{sec}]:{key!r} is an unknown key now (feature not registered) but "
                       f"{'was stored' if stored is not _MISSING else 'no warning was given'} "
                       f"via {route}")
            ctx.check("registry_history", ok,
                      lambda: wit(stored="<absent>" if stored is _MISSING else show(stored),
                                  warned=warned, exc=repr(exc)),
                      message=msg)
            ctx.count(f"registry_route[{route}:{'known' if known else 'unknown'}]")
    finally:
        for f in list(mt.REGISTERED):
            feat_temp.deregister_temporary_feature(f)
        mt.REGISTERED.clear()
        _State.route = "-"
    both = sum(1 for v in seen.values() if len(v) == 2)
    ctx.count("registry_keys_used_under_both_statuses", both)
    ctx.count("registry_changes", flips)
    if both:
        ctx.mark_nontrivial(["registry", hist])
    if idx % 53 == 0:
        ctx.sample({"kind": "registry", "history": hist[:10]})


# ------------------------------------------------------------------- rewrite histories
def run_rewrite(ctx, idx):
    """A key that is already stored in the file (by dclab in an earlier session, or by other
    software with another HDF5 type) is written again through RTDCWriter.store_metadata: what
    is read back is the normalised *new* value."""
    import h5py
    from dclab import RTDCWriter
    from dclab.rtdc_dataset import fmt_hdf5
    from vmon import boot
    rng = ctx.rng(idx, salt=91)
    # (section, key, values of different types that are all acceptable for the key)
    pool = [
        ("setup", "channel width", [20, 20.5, "30", np.float32(25.5), np.int64(40)]),
        ("imaging", "pixel size", [1, 0.34, "0.26", np.float64(0.5)]),
        ("setup", "flow rate", [1, 0.04, "0.16"]),
        ("imaging", "frame rate", [2000, 2000.5, "3000"]),
        ("experiment", "sample", ["abc", "a much longer sample name äöü", "x"]),
        ("setup", "medium", ["water", "CellCarrierB", "other medium with a long name"]),
        ("experiment", "run index", [1, 70000, "3", np.int64(2 ** 40)]),
        ("user", "threshold", [1, 1.5, True, "text", np.float32(0.25)]),
        ("user", "enabled", [True, 0.25, 3, "yes"]),
        ("user", "weights", [[1, 2, 3], [0.5, 1.5, 2.5], np.arange(3), np.linspace(0, 1, 3),
                             [True, False, True]]),
        ("online_filter", "area_um min", [50, 50.5, np.int32(7), np.float64(2.25)]),
        ("online_filter", "deform max", [1, 0.5]),
        ("online_filter", "area_um,deform soft limit", [True, False, "False", 1]),
    ]
    tmp = boot.scratch()
    path = tmp / f"c11_rw_{os.getpid()}_{idx}.rtdc"
    if path.exists():
        path.unlink()
    chosen = [pool[int(i)] for i in rng.choice(len(pool), size=int(rng.integers(2, 6)),
                                               replace=False)]
    hist = []
    try:
        with RTDCWriter(path, mode="reset") as hw:
            hw.store_metadata({"experiment": {"sample": "initial", "run index": 1},
                               "setup": {"channel width": 20.0}})
            hw.store_feature("deform", np.linspace(0.01, 0.02, N_EVENTS))
        current = {}
        for rnd in range(int(rng.integers(2, 5))):
            foreign = rnd == 0 and rng.random() < 0.5
            meta = {}
            for sec, key, vals in chosen:
                v = vals[int(rng.integers(0, len(vals)))]
                meta.setdefault(sec, {})[key] = v
            if foreign:
                # other software: plain h5py attributes (numpy integer where dclab stores a
                # float, fixed-width byte strings, ...)
                with h5py.File(path, "a") as h5:
                    for sec, kv in meta.items():
                        for key, v in kv.items():
                            if isinstance(v, str) and sec != "online_filter":
                                h5.attrs[f"{sec}:{key}"] = np.bytes_(v.encode("utf-8"))
                            else:
                                h5.attrs[f"{sec}:{key}"] = v
                hist.append(["raw h5py attributes", show(meta)])
                ctx.count("rewrite_rounds[raw h5py]")
                continue
            _State.route = "rewrite"
            mode = str(rng.choice(["append", "replace"]))
            c = attempt(lambda: _store(path, mode, meta))
            hist.append([f"store_metadata ({mode})", show(meta)])
            ctx.count("rewrite_rounds[store_metadata]")
            if c.exc is not None:
                ctx.ev("rewrite_roundtrip")
                ctx.violation("rewrite_roundtrip", {"history": hist[-4:], "exc": repr(c.exc)},
                              message=f"store_metadata on an existing file raised {c.exc!r}")
                break
            expect = []
            for sec, kv in meta.items():
                for key, v in kv.items():
                    st, typ, out, _v = writer_outcome(sec, key, v)
                    if out.kind == "ok":
                        current[(sec, key)] = (typ, expected_in_file(sec, key, typ, out.value,
                                                                     N_EVENTS))
                    elif out.kind == "dc":
                        current.pop((sec, key), None)
            expect = [(s_, k_, t_, v_) for (s_, k_), (t_, v_) in current.items()]
            with h5py.File(path, "r") as h5:
                cfg = fmt_hdf5.RTDC_HDF5.parse_config(h5)
            compare_config(ctx, "rewrite_roundtrip", "store_metadata on a file that already "
                           "holds the key", cfg, expect, extra={"history": hist[-4:]}, meta=meta)
        if len(hist) >= 2:
            ctx.mark_nontrivial(["rewrite", hist])
        if idx % 41 == 0:
            ctx.sample({"kind": "rewrite", "history": hist[:4]})
    finally:
        _State.route = "-"
        if path.exists():
            path.unlink()


def _store(path, mode, meta):
    from dclab import RTDCWriter
    with RTDCWriter(path, mode=mode) as hw:
        hw.store_metadata(meta)


# ------------------------------------------------------------------------ entry point
def run(spec, ctx):
    _State.ctx = ctx
    install()
    kind = spec["kind"]
    if kind == "mem":
        for idx in ctx.case_ids():
            sec, key, grp = KEYS[idx]
            run_mem_key(ctx, sec, key, grp, ctx.rng(idx))
            ctx.count(f"keys[{grp}]")
            if idx % 211 == 0:
                ctx.sample({"kind": "mem", "section": sec, "key": repr(key), "group": grp,
                            "representations": len(REPRS)})
    elif kind == "mempairs":
        n = len(FULL_FEATS)
        for idx in ctx.case_ids():
            f1, f2 = FULL_FEATS[idx // n], FULL_FEATS[idx % n]
            for suf in (mt.SOFT, mt.POLY):
                run_mem_key(ctx, "online_filter", f"{f1},{f2} {suf}", "of_pair_full",
                            ctx.rng(idx), routes_full=False)
            ctx.count("keys[of_pair_full]", 2)
    elif kind == "file":
        for idx in ctx.case_ids():
            gname, ri = FILE_BATCHES[idx]
            run_file_batch(ctx, gname, ri)
    elif kind == "filesingle":
        for idx in ctx.case_ids():
            sec, key = SINGLE_KEYS[idx]
            run_file_single(ctx, sec, key)
    elif kind == "seq":
        for idx in ctx.case_ids():
            run_seq(ctx, idx)
    elif kind == "registry":
        for idx in ctx.case_ids():
            run_registry(ctx, idx)
    elif kind == "rewrite":
        for idx in ctx.case_ids():
            run_rewrite(ctx, idx)
    else:
        raise ValueError(kind)
