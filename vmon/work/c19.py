"""C19 - remote range-cached access returns the bytes and data of the resource.

Monitors
* icontract class invariant on the real HTTPFile: len(cache) <= keep_chunks after
  every public call (recording, never raising).
* client-boundary recorder around read/seek/tell feeding a BytesIO-style model:
  read(n) == blob[pos:pos+n] for the modelled position, tell() == modelled position
  for every in-bounds operation.
* end-to-end: generated .rtdc files served by a loopback range server and opened as
  RTDC_HTTP (with small chunk sizes / capacities patched in) must expose the same
  features, metadata, logs and tables as RTDC_HDF5 on the same bytes.
"""
import io
import os

import numpy as np

PROP = "C19"
LEVEL = "exploration"
RULE = ("seq: random resource (size k*c+{-1,0,1}, 1 byte, <1 chunk), chunk size, capacity and "
        "a sequence of <=300 seek/tell/read ops on the real HTTPFile over a fake requests "
        "session (every third case: 2-3 file objects with their own chunk size / capacity on the "
        "same resource, operations interleaved); non-trivial = sequence with >=1 cache eviction and >=1 read spanning >=2 "
        "chunks, distinct by hash of (size, chunk, capacity, ops). e2e: generated .rtdc file "
        "served over loopback HTTP; non-trivial = file larger than 3 chunks with evictions")
ASSUMPTIONS = [
    "the transport follows RFC 9110 range semantics (206 / 416 with an error body / an "
    "invalid range-spec is ignored and answered 200 with the full body)",
    "read() without size / negative sizes are logged, not judged; the position after a "
    "read that runs past the end of the resource is not judged",
]
LEVEL_TEXT = ("Held on the observed executions: every byte string returned by the real HTTPFile "
              "over thousands of generated seek/tell/read sequences equals the served blob at the "
              "modelled position, the chunk-count invariant is evaluated after every public call, "
              "and generated .rtdc files served over loopback HTTP compare equal to the local file. "
              "Exploration, not proof: the space of sequences is unbounded.")
LEVEL_NOTE = ("trusted: the fake session / loopback server implement RFC 9110 range semantics; "
              "numpy/h5py; the BytesIO-style position model. Not judged: read() without size, "
              "position after an over-read.")
TECHNIQUE = ("runtime monitoring: class invariant + client-boundary history checked against a "
             "byte-blob reference model; differential RTDC_HTTP vs RTDC_HDF5")
MIN_EVALS = {"read_bytes": 500, "cache_bound": 2000, "position": 500, "http_equals_local": 10}
WATCHDOG_S = {"quick": 300, "thorough": 3000}

CHUNKS = [1, 2, 3, 4, 5, 7, 8, 16, 31, 64, 100, 1000, 4096, 2 ** 18]
KEEPS = [1, 2, 3, 10, 200]


def plan(tier, seed):
    n_seq = 400 if tier == "quick" else 24000
    n_e2e = 48 if tier == "quick" else 640
    shards = []
    k = 16
    per = n_seq // k
    for i in range(k):
        shards.append({"kind": "seq", "cases": {"start": i * per, "stop": (i + 1) * per}})
    per = n_e2e // k
    for i in range(k):
        shards.append({"kind": "e2e", "cases": {"start": i * per, "stop": (i + 1) * per}})
    n_red = 16 if tier == "quick" else 320
    for i in range(2):
        shards.append({"kind": "redirect",
                       "cases": {"start": i * n_red // 2, "stop": (i + 1) * n_red // 2}})
    return shards


# --------------------------------------------------------------------------- monitors
class _State:
    ctx = None


def _cache_bound(self):
    ctx = _State.ctx
    if ctx is not None and hasattr(self, "cache") and hasattr(self, "_keep_chunks"):
        n = len(self.cache)
        ctx.ev("cache_bound")
        if n > self._keep_chunks:
            ctx.violation("cache_bound", {"chunks_held": n, "keep_chunks": self._keep_chunks,
                                          "chunk_size": self._chunk_size,
                                          "keys": sorted(int(k) for k in self.cache)},
                          message=f"{n} chunks held > keep_chunks={self._keep_chunks}")
    return True


_installed = False


def install():
    global _installed
    if _installed:
        return
    _installed = True
    from dclab import http_utils
    from vmon.contracts import class_invariant
    # icontract.invariant cannot decorate this class (io.IOBase slot wrappers have no
    # signature), so the hand-written equivalent is used.
    class_invariant(http_utils.HTTPFile, _cache_bound, skip=("close",))


def model_readline(blob, pos, limit):
    """io.BytesIO semantics: up to and including the next newline, at most `limit` bytes when
    limit >= 0, empty at or beyond the end."""
    if pos >= len(blob):
        return b""
    j = blob.find(b"\n", pos)
    end = len(blob) if j < 0 else j + 1
    if limit is not None and limit >= 0:
        end = min(end, pos + limit)
    return blob[pos:end]


def gen_ops(rng, size, cs, n_ops, blob=None, p_line=0.0):
    ops = []
    pos = 0
    for _ in range(n_ops):
        r = rng.random()
        if blob is not None and rng.random() < p_line:
            # line-wise access (io.IOBase API of the file object)
            q = rng.random()
            limit = None if q < 0.5 else (-1 if q < 0.6 else int(rng.integers(0, 2 * cs + 2)))
            if limit in (None, -1) and len(model_readline(blob, pos, None)) > 600:
                limit = int(rng.integers(1, 300))       # (keeps byte-wise fallbacks cheap)
            ops.append(("readline", limit))
            pos = min(pos + len(model_readline(blob, pos, limit)), max(size, pos))
            continue
        if r < 0.30:
            # seek
            w = rng.integers(0, 3)
            kind = rng.random()
            if kind < 0.4:
                tgt = int(rng.integers(0, size + 1))
            elif kind < 0.8:
                # near a chunk boundary
                b = int(rng.integers(0, size // cs + 2)) * cs + int(rng.integers(-2, 3))
                tgt = min(max(b, 0), size)
            elif kind < 0.9:
                tgt = size
            elif kind < 0.97:
                tgt = 0
            else:
                tgt = size + int(rng.integers(1, 2 * cs + 2))  # beyond the end
            if w == 0:
                ops.append(("seek", tgt, os.SEEK_SET))
            elif w == 1:
                ops.append(("seek", tgt - pos, os.SEEK_CUR))
            else:
                ops.append(("seek", tgt - size, os.SEEK_END))
            pos = tgt
        elif r < 0.40:
            ops.append(("tell",))
        else:
            kind = rng.random()
            left = max(size - pos, 0)
            if kind < 0.25:
                n = int(rng.integers(0, 4))
            elif kind < 0.45:
                # end exactly on a chunk boundary
                n = (cs - pos % cs) + cs * int(rng.integers(0, 3))
            elif kind < 0.65:
                n = int(rng.integers(1, 4 * cs + 2))
            elif kind < 0.75:
                n = left  # reach the end exactly
            elif kind < 0.80:
                n = left + int(rng.integers(1, 2 * cs + 2))  # run past the end
            elif kind < 0.85:
                n = 0
            else:
                n = int(rng.integers(1, max(2, left + 1)))
            ops.append(("read", int(n)))
            pos = min(pos + n, max(size, pos))
    return ops


class _Reader:
    """One real HTTPFile with its BytesIO-style model position."""

    def __init__(self, ctx, url, blob, ses, cs, keep, ops, tag):
        from dclab import http_utils
        self.ctx, self.blob, self.size, self.cs, self.keep = ctx, blob, len(blob), cs, keep
        self.ops = list(ops)
        self.hf = http_utils.HTTPFile(url, chunk_size=cs, keep_chunks=keep)
        self.hf.session = ses
        self.mpos = 0
        self.evictions = 0
        self.spanning = 0
        self.hist = []
        self.desc = {"size": self.size, "chunk_size": cs, "keep_chunks": keep, "reader": tag}
        self.dead = False

    def step(self, extra):
        """Apply the next operation; -> False when this reader is finished."""
        if self.dead or not self.ops:
            return False
        ctx, hf, size, cs, blob = self.ctx, self.hf, self.size, self.cs, self.blob
        op = self.ops.pop(0)
        hist = self.hist
        desc = dict(self.desc, **extra)
        keys_before = set(hf.cache)
        hist.append(list(op))
        mpos = self.mpos
        try:
            if op[0] == "seek":
                hf.seek(op[1], op[2])
                mpos = {os.SEEK_SET: op[1], os.SEEK_CUR: mpos + op[1],
                        os.SEEK_END: size + op[1]}[op[2]]
                got = hf.tell()
                ctx.check("position", got == mpos,
                          lambda: dict(desc, ops=hist[-12:], expected_pos=mpos, got_pos=got),
                          message=f"tell()={got} after seek, model says {mpos}")
                mpos = got
            elif op[0] == "tell":
                got = hf.tell()
                ctx.check("position", got == mpos,
                          lambda: dict(desc, ops=hist[-12:], expected_pos=mpos, got_pos=got),
                          message=f"tell()={got}, model says {mpos}")
                mpos = got
            elif op[0] == "readline":
                limit = op[1]
                data = hf.readline() if limit is None else hf.readline(limit)
                exp = model_readline(blob, mpos, limit)
                p0 = mpos
                ctx.check("read_bytes", bytes(data) == exp,
                          lambda: dict(desc, ops=hist[-12:], pos=p0, limit=limit,
                                       expected=exp[:80], got=bytes(data)[:80],
                                       expected_len=len(exp), got_len=len(data)),
                          message=f"readline({'' if limit is None else limit}) at pos {p0} of "
                                  f"{size} returned {len(data)} bytes, a file holding the "
                                  f"resource returns {len(exp)}")
                ctx.count("line_reads")
                got = hf.tell()
                ctx.check("position", got == p0 + len(exp),
                          lambda: dict(desc, ops=hist[-12:], expected_pos=p0 + len(exp),
                                       got_pos=got),
                          message=f"tell()={got} after readline at {p0}")
                mpos = got
            else:
                n = op[1]
                data = hf.read(n)
                exp = blob[mpos:mpos + n]
                ok = bytes(data) == exp
                p0 = mpos
                ctx.check("read_bytes", ok,
                          lambda: dict(desc, ops=hist[-12:], pos=p0, n=n,
                                       expected_len=len(exp), got_len=len(data),
                                       first_diff=next((i for i, (a, b) in
                                                        enumerate(zip(data, exp)) if a != b),
                                                       None)),
                          message=f"read({n}) at pos {mpos} of {size} returned {len(data)} "
                                  f"bytes, expected {len(exp)} (equal={ok})")
                if n > 0 and mpos // cs != (mpos + n - 1) // cs and mpos + n <= size:
                    self.spanning += 1
                got = hf.tell()
                if mpos + n <= size:
                    ctx.check("position", got == p0 + n,
                              lambda: dict(desc, ops=hist[-12:], expected_pos=p0 + n,
                                           got_pos=got),
                              message=f"tell()={got} after in-bounds read({n}) at {p0}")
                else:
                    ctx.count("overread_position_not_judged")
                mpos = got
        except Exception as exc:
            ctx.ev("no_exception")
            ctx.violation("no_exception", dict(desc, ops=hist[-12:], exc=repr(exc)),
                          message=f"{op} raised {exc!r}")
            self.dead = True
            return False
        else:
            ctx.ev("no_exception")
        self.mpos = mpos
        self.evictions += len(keys_before - set(hf.cache))
        return True


def run_seq(ctx, idx):
    from vmon.httpsrv import FakeSession
    rng = ctx.rng(idx)
    cs = int(rng.choice(CHUNKS))
    if cs >= 4096:
        k = int(rng.integers(0, 4))
    else:
        k = int(rng.integers(0, 12))
    shape = rng.random()
    if shape < 0.1:
        size = 1
    elif shape < 0.2:
        size = max(1, int(rng.integers(1, cs + 1)) - 1) or 1
    else:
        size = max(1, k * cs + int(rng.integers(-1, 2)))
    keep = int(rng.choice(KEEPS))
    blob = rng.bytes(size)
    p_line = 0.0
    if idx % 4 == 1:
        # a text-like resource read line by line as well: short lines, blank lines, lines
        # spanning chunks, newlines on both sides of chunk boundaries
        alphabet = np.frombuffer(b"\n\nab cd\r", dtype=np.uint8)
        arr = alphabet[rng.integers(0, len(alphabet), size)].copy()
        if rng.random() < 0.5:
            arr[rng.random(size) < 0.9] = ord("x")                  # mostly long lines
        for b in range(0, size, cs):
            q = rng.random()
            if q < 0.3:
                arr[b] = 10                                          # first byte of a chunk
            elif q < 0.5 and b:
                arr[b - 1] = 10                                      # last byte of a chunk
        blob = arr.tobytes()
        p_line = 0.35
        ctx.count("text_like_resources")
    url = f"http://fake.invalid/res{idx}.bin"
    n_ops = int(rng.integers(5, 300 if ctx.tier == "thorough" else 120))
    ops = gen_ops(rng, size, cs, n_ops, blob, p_line)
    ses = FakeSession({url: blob})
    readers = [_Reader(ctx, url, blob, ses, cs, keep, ops, 0)]
    # every third case: several file objects for the same resource live in one process, each
    # with its own chunk size and capacity, operations interleaved (what a dataset plus the
    # basins referring to the same URL do); each must behave as if it were alone
    n_readers = 1
    if idx % 3 == 2:
        n_readers = int(rng.integers(2, 4))
        for t in range(1, n_readers):
            small = [c for c in CHUNKS if size / c <= 64] or [cs]
            cs2 = int(rng.choice(small)) if rng.random() < 0.8 else cs
            keep2 = int(rng.choice(KEEPS))
            ops2 = gen_ops(rng, size, cs2, int(rng.integers(5, n_ops + 1)), blob, p_line)
            readers.append(_Reader(ctx, url, blob, ses, cs2, keep2, ops2, t))
        ctx.count("cases_with_several_file_objects")
    extra = {"file_objects": [(r.cs, r.keep) for r in readers]} if n_readers > 1 else {}
    alive = list(readers)
    while alive:
        r = alive[int(rng.integers(0, len(alive)))] if len(alive) > 1 else alive[0]
        if not r.step(extra):
            alive.remove(r)
    evictions = sum(r.evictions for r in readers)
    spanning = sum(r.spanning for r in readers)
    ctx.count("ops", sum(len(r.hist) for r in readers))
    ctx.count("evictions", evictions)
    ctx.count("reads_spanning_chunks", spanning)
    ctx.count("http_requests", len(ses.requests))
    if evictions and spanning:
        ctx.mark_nontrivial(["seq", size, [(r.cs, r.keep) for r in readers], ops])
    if idx % 97 == 0:
        ctx.sample(dict(readers[0].desc, kind="seq", ops=readers[0].hist[:15],
                        evictions=evictions, file_objects=n_readers))


def run_redirect(ctx, idx):
    """A download link (temporary redirect) whose target object is replaced between two
    openings in the same process: every new file object serves the object now behind it."""
    from dclab import http_utils
    from vmon.httpsrv import RangeServer, relax_timeouts, is_transport_timeout
    relax_timeouts()
    rng = ctx.rng(idx, salt=7)
    srv = RangeServer()
    try:
        cs = int(rng.choice([64, 100, 1000, 4096]))
        blobs = [rng.bytes(int(rng.integers(1, 6)) * cs + int(rng.integers(-1, 2)))
                 for _ in range(3)]
        for v, b in enumerate(blobs):
            srv.put(f"/v{v}/data.bin", b)
        url = srv.redirect("/latest/data.bin", "/v0/data.bin")
        for v, blob in enumerate(blobs):
            srv.redirect("/latest/data.bin", f"/v{v}/data.bin")
            try:
                hf = http_utils.HTTPFile(url, chunk_size=cs,
                                         keep_chunks=int(rng.choice(KEEPS)))
                n = len(blob)
                ok_len = len(hf) == n if hasattr(hf, "__len__") else True
                a = int(rng.integers(0, n))
                hf.seek(a)
                part = hf.read(int(rng.integers(1, n - a + 1)))
                hf.seek(0)
                whole = hf.read(n)
            except Exception as exc:
                if is_transport_timeout(exc):
                    ctx.count("skipped_transport_timeout")
                    return
                raise
            ok = bytes(whole) == blob and bytes(part) == blob[a:a + len(part)]
            ctx.check("read_bytes", ok,
                      lambda: {"link": "/latest/data.bin", "now_points_to": f"/v{v}",
                               "size_now": n, "got_len": len(whole), "chunk_size": cs,
                               "equals_an_earlier_object": [bytes(whole) == b for b in blobs]},
                      message=f"the download link now points to object v{v}, a new file object "
                              f"returned {len(whole)} bytes that are not those of v{v}")
        ctx.count("redirect_histories")
        ctx.mark_nontrivial(["redirect", idx])
    finally:
        srv.close()


def run(spec, ctx):
    _State.ctx = ctx
    install()
    if spec["kind"] == "redirect":
        for idx in ctx.case_ids():
            run_redirect(ctx, idx)
        return
    if spec["kind"] == "seq":
        for idx in ctx.case_ids():
            run_seq(ctx, idx)
    else:
        from . import c19_e2e
        c19_e2e.run(spec, ctx)
