"""C19 - remote range-cached access returns the bytes and data of the resource.

Monitors
* icontract class invariant on the real HTTPFile: len(cache) <= keep_chunks after
  every public call (recording, never raising).
* client-boundary recorder around read/seek/tell feeding a BytesIO-style model:
  read(n) == blob[pos:pos+n] for the modelled position, tell() == modelled position
  for every in-bounds operation.
* end-to-end: generated .rtdc files served by a loopback range server and opened as
  RTDC_HTTP (with small chunk sizes / capacities patched in) must expose the same
  features, metadata, logs and tables as RTDC_HDF5 on the same bytes.
"""
import io
import os

import numpy as np

PROP = "C19"
LEVEL = "exploration"
RULE = ("seq: random resource (size k*c+{-1,0,1}, 1 byte, <1 chunk), chunk size, capacity and "
        "a sequence of <=300 seek/tell/read ops on the real HTTPFile over a fake requests "
        "session; non-trivial = sequence with >=1 cache eviction and >=1 read spanning >=2 "
        "chunks, distinct by hash of (size, chunk, capacity, ops). e2e: generated .rtdc file "
        "served over loopback HTTP; non-trivial = file larger than 3 chunks with evictions")
ASSUMPTIONS = [
    "the transport follows RFC 9110 range semantics (206 / 416 with an error body / an "
    "invalid range-spec is ignored and answered 200 with the full body)",
    "read() without size / negative sizes are logged, not judged; the position after a "
    "read that runs past the end of the resource is not judged",
]
LEVEL_TEXT = ("Held on the observed executions: every byte string returned by the real HTTPFile "
              "over thousands of generated seek/tell/read sequences equals the served blob at the "
              "modelled position, the chunk-count invariant is evaluated after every public call, "
              "and generated .rtdc files served over loopback HTTP compare equal to the local file. "
              "Exploration, not proof: the space of sequences is unbounded.")
LEVEL_NOTE = ("trusted: the fake session / loopback server implement RFC 9110 range semantics; "
              "numpy/h5py; the BytesIO-style position model. Not judged: read() without size, "
              "position after an over-read.")
TECHNIQUE = ("runtime monitoring: class invariant + client-boundary history checked against a "
             "byte-blob reference model; differential RTDC_HTTP vs RTDC_HDF5")
MIN_EVALS = {"read_bytes": 500, "cache_bound": 2000, "position": 500, "http_equals_local": 10}
WATCHDOG_S = {"quick": 300, "thorough": 3000}

CHUNKS = [1, 2, 3, 4, 5, 7, 8, 16, 31, 64, 100, 1000, 4096, 2 ** 18]
KEEPS = [1, 2, 3, 10, 200]


def plan(tier, seed):
    n_seq = 400 if tier == "quick" else 24000
    n_e2e = 48 if tier == "quick" else 640
    shards = []
    k = 16
    per = n_seq // k
    for i in range(k):
        shards.append({"kind": "seq", "cases": {"start": i * per, "stop": (i + 1) * per}})
    per = n_e2e // k
    for i in range(k):
        shards.append({"kind": "e2e", "cases": {"start": i * per, "stop": (i + 1) * per}})
    return shards


# --------------------------------------------------------------------------- monitors
class _State:
    ctx = None


def _cache_bound(self):
    ctx = _State.ctx
    if ctx is not None and hasattr(self, "cache") and hasattr(self, "_keep_chunks"):
        n = len(self.cache)
        ctx.ev("cache_bound")
        if n > self._keep_chunks:
            ctx.violation("cache_bound", {"chunks_held": n, "keep_chunks": self._keep_chunks,
                                          "chunk_size": self._chunk_size,
                                          "keys": sorted(int(k) for k in self.cache)},
                          message=f"{n} chunks held > keep_chunks={self._keep_chunks}")
    return True


_installed = False


def install():
    global _installed
    if _installed:
        return
    _installed = True
    from dclab import http_utils
    from vmon.contracts import class_invariant
    # icontract.invariant cannot decorate this class (io.IOBase slot wrappers have no
    # signature), so the hand-written equivalent is used.
    class_invariant(http_utils.HTTPFile, _cache_bound, skip=("close",))


def gen_ops(rng, size, cs, n_ops):
    ops = []
    pos = 0
    for _ in range(n_ops):
        r = rng.random()
        if r < 0.30:
            # seek
            w = rng.integers(0, 3)
            kind = rng.random()
            if kind < 0.4:
                tgt = int(rng.integers(0, size + 1))
            elif kind < 0.8:
                # near a chunk boundary
                b = int(rng.integers(0, size // cs + 2)) * cs + int(rng.integers(-2, 3))
                tgt = min(max(b, 0), size)
            elif kind < 0.9:
                tgt = size
            elif kind < 0.97:
                tgt = 0
            else:
                tgt = size + int(rng.integers(1, 2 * cs + 2))  # beyond the end
            if w == 0:
                ops.append(("seek", tgt, os.SEEK_SET))
            elif w == 1:
                ops.append(("seek", tgt - pos, os.SEEK_CUR))
            else:
                ops.append(("seek", tgt - size, os.SEEK_END))
            pos = tgt
        elif r < 0.40:
            ops.append(("tell",))
        else:
            kind = rng.random()
            left = max(size - pos, 0)
            if kind < 0.25:
                n = int(rng.integers(0, 4))
            elif kind < 0.45:
                # end exactly on a chunk boundary
                n = (cs - pos % cs) + cs * int(rng.integers(0, 3))
            elif kind < 0.65:
                n = int(rng.integers(1, 4 * cs + 2))
            elif kind < 0.75:
                n = left  # reach the end exactly
            elif kind < 0.80:
                n = left + int(rng.integers(1, 2 * cs + 2))  # run past the end
            elif kind < 0.85:
                n = 0
            else:
                n = int(rng.integers(1, max(2, left + 1)))
            ops.append(("read", int(n)))
            pos = min(pos + n, max(size, pos))
    return ops


def run_seq(ctx, idx):
    from dclab import http_utils
    from vmon.httpsrv import FakeSession
    rng = ctx.rng(idx)
    cs = int(rng.choice(CHUNKS))
    if cs >= 4096:
        k = int(rng.integers(0, 4))
    else:
        k = int(rng.integers(0, 12))
    shape = rng.random()
    if shape < 0.1:
        size = 1
    elif shape < 0.2:
        size = max(1, int(rng.integers(1, cs + 1)) - 1) or 1
    else:
        size = max(1, k * cs + int(rng.integers(-1, 2)))
    keep = int(rng.choice(KEEPS))
    blob = rng.bytes(size)
    url = f"http://fake.invalid/res{idx}.bin"
    n_ops = int(rng.integers(5, 300 if ctx.tier == "thorough" else 120))
    ops = gen_ops(rng, size, cs, n_ops)
    hf = http_utils.HTTPFile(url, chunk_size=cs, keep_chunks=keep)
    ses = FakeSession({url: blob})
    hf.session = ses
    mpos = 0
    evictions = 0
    spanning = 0
    desc = {"size": size, "chunk_size": cs, "keep_chunks": keep}
    hist = []
    for op in ops:
        keys_before = set(hf.cache)
        hist.append(list(op))
        try:
            if op[0] == "seek":
                hf.seek(op[1], op[2])
                mpos = {os.SEEK_SET: op[1], os.SEEK_CUR: mpos + op[1],
                        os.SEEK_END: size + op[1]}[op[2]]
                got = hf.tell()
                ctx.check("position", got == mpos,
                          lambda: dict(desc, ops=hist[-12:], expected_pos=mpos, got_pos=got),
                          message=f"tell()={got} after seek, model says {mpos}")
                mpos = got
            elif op[0] == "tell":
                got = hf.tell()
                ctx.check("position", got == mpos,
                          lambda: dict(desc, ops=hist[-12:], expected_pos=mpos, got_pos=got),
                          message=f"tell()={got}, model says {mpos}")
                mpos = got
            else:
                n = op[1]
                data = hf.read(n)
                exp = blob[mpos:mpos + n]
                ok = bytes(data) == exp
                ctx.check("read_bytes", ok,
                          lambda: dict(desc, ops=hist[-12:], pos=mpos, n=n,
                                       expected_len=len(exp), got_len=len(data),
                                       first_diff=next((i for i, (a, b) in
                                                        enumerate(zip(data, exp)) if a != b),
                                                       None)),
                          message=f"read({n}) at pos {mpos} of {size} returned {len(data)} "
                                  f"bytes, expected {len(exp)} (equal={ok})")
                if n > 0 and mpos // cs != (mpos + n - 1) // cs and mpos + n <= size:
                    spanning += 1
                got = hf.tell()
                if mpos + n <= size:
                    ctx.check("position", got == mpos + n,
                              lambda: dict(desc, ops=hist[-12:], expected_pos=mpos + n,
                                           got_pos=got),
                              message=f"tell()={got} after in-bounds read({n}) at {mpos}")
                else:
                    ctx.count("overread_position_not_judged")
                mpos = got
        except Exception as exc:
            ctx.ev("no_exception")
            ctx.violation("no_exception", dict(desc, ops=hist[-12:], exc=repr(exc)),
                          message=f"{op} raised {exc!r}")
            break
        else:
            ctx.ev("no_exception")
        evictions += len(keys_before - set(hf.cache))
    ctx.count("ops", len(hist))
    ctx.count("evictions", evictions)
    ctx.count("reads_spanning_chunks", spanning)
    ctx.count("http_requests", len(ses.requests))
    if evictions and spanning:
        ctx.mark_nontrivial(["seq", size, cs, keep, ops])
    if idx % 97 == 0:
        ctx.sample(dict(desc, kind="seq", ops=hist[:15], evictions=evictions))


def run(spec, ctx):
    _State.ctx = ctx
    install()
    if spec["kind"] == "seq":
        for idx in ctx.case_ids():
            run_seq(ctx, idx)
    else:
        from . import c19_e2e
        c19_e2e.run(spec, ctx)
