"""C07 - basin-provided features equal the origin's data for the mapped events.

Monitors
* provenance-tagged origin data (every value encodes origin file id and event number), so a
  wrong source file or a wrong index is visible in the value itself;
* driver oracle: an independent composition of index maps (numpy flatnonzero / fancy indexing
  in root coordinates) predicts, for every file of a chain, which origin event each of its
  events is; every feature offered by the file (stored or through basins) is read with
  integer (incl. negative), slice, boolean-mask, index-array and whole-array access;
* recording wrapper on the real BasinProxyFeature.__getitem__ (result must equal the wrapped
  feature indexed by basinmap, then by the index) - also active in split/condense workloads.
"""
import shutil

import numpy as np

PROP = "C07"
LEVEL = "exploration"
RULE = ("chain case: origin file with tagged features (scalar, image, mask, contour, trace) -> "
        "1-4 successive exports with basins=True (filtered or not, from the file or from a "
        "hierarchy child of depth 1-2, with random feature subsets incl. none), every file of the "
        "chain opened and all offered features compared with origin[f][composed map]; explicit "
        "case: referrer written with RTDCWriter.store_basin and a mapping array (subset, superset "
        "with repeats, permutation, identity, crossing chunk boundaries; one or two mapped basins; "
        "internal basin; stored feature shadowing a basin feature); relocation case: the directory "
        "holding referrer and origin is moved. Non-trivial = chain depth >= 2 or a map with "
        "repeats/permutation; distinct by hash of the case description")
LEVEL_TEXT = ("Held on the observed executions: every feature a referrer offers through basins "
              "equals the origin's data at the independently composed event map under all access "
              "patterns, stored features take precedence, relocated pairs stay connected. "
              "Exploration over inputs x export histories.")
LEVEL_NOTE = ("trusted: numpy index composition as the map model, the tagged-data encoding, h5py. "
              "Don't-care: exports with basins=False; identifier mismatches (C14)")
TECHNIQUE = ("runtime monitoring: provenance-tagged data + independently composed index-map model "
             "as oracle over generated export histories; recording wrapper on BasinProxyFeature")
ASSUMPTIONS = ["referrers are produced by dclab's own export / writer (store_basin); one variant "
               "rewrites a definition without the 'mapping' key (documented to mean 'same')"]
MIN_EVALS = {"c07.feature_equals_origin": 1500, "c07.proxy_getitem": 300,
             "c07.available": 300}
WATCHDOG_S = {"quick": 400, "thorough": 3000}

H, W, S = 5, 6, 7


def plan(tier, seed):
    n = 192 if tier == "quick" else 4800
    k = 16
    per = n // k
    return [{"kind": "basin", "cases": {"start": i * per, "stop": (i + 1) * per}}
            for i in range(k)]


# ------------------------------------------------------------------- tagged origin data
def tagged(fid, n):
    idx = np.arange(n)
    img = np.zeros((n, H, W), dtype=np.uint8)
    img[:] = ((idx * 7 + fid * 31) % 251)[:, None, None]
    img[:, 0, 0] = idx % 256
    img[:, 0, 1] = idx // 256
    mask = np.zeros((n, H, W), dtype=bool)
    for i in range(n):
        mask[i, 1 + i % 3, 1 + (i // 3) % 4] = True
        mask[i, 0, 0] = bool(i % 2)
    return {
        "deform": fid * 1e6 + idx + 0.25,
        "area_um": fid * 1e6 + idx + 0.5,
        "userdef1": -(fid * 1e6 + idx),
        "image": img,
        "mask": mask,
        "contour": [np.array([[i, fid]] * (4 + i % 5) + [[i % 7, i % 3]]) for i in range(n)],
        "trace": {"fl1_raw": (np.arange(S)[None, :] + idx[:, None]).astype(np.int16),
                  "fl2_median": (idx[:, None] * 2 - np.arange(S)[None, :]).astype(np.int16)},
    }


def index_feature(data, idx):
    if isinstance(data, dict):
        return {k: v[idx] for k, v in data.items()}
    if isinstance(data, list):
        return [data[int(i)] for i in idx]
    return data[idx]


# ------------------------------------------------------------------------------ oracle
def compare_access(ctx, ds, feat, exp, rng, case):
    """Read ds[feat] with every access pattern and compare with exp (origin data already
    restricted to the expected origin events)."""
    from vmon.model import dscmp
    n = len(ds)

    def bad(what, d):
        ctx.check("c07.feature_equals_origin", False,
                  dict(case, feature=feat, access=what, diff=d),
                  message=f"{feat} via {what} differs from origin[{feat}][map]: {d}")

    def good():
        ctx.ev("c07.feature_equals_origin")
    try:
        obj = ds[feat]
        if feat == "trace":
            for t in exp:
                whole = np.asarray(obj[t][:])
                if not dscmp.arr_equal(whole, exp[t]):
                    return bad(f"trace[{t}][:]", dscmp.first_diff(whole, exp[t]))
                good()
                i = int(rng.integers(0, n))
                if not dscmp.arr_equal(np.asarray(obj[t][i]), exp[t][i]):
                    return bad(f"trace[{t}][{i}]", None)
                good()
                a, b = sorted(int(x) for x in rng.integers(0, n + 1, 2))
                if not dscmp.arr_equal(np.asarray(obj[t][a:b]), exp[t][a:b]):
                    return bad(f"trace[{t}][{a}:{b}]", None)
                good()
            return
        if feat == "contour":
            for i in {0, n - 1, int(rng.integers(0, n)), -1, -n}:
                if not dscmp.arr_equal(np.asarray(obj[i]), exp[i]):
                    return bad(f"contour[{i}]", None)
                good()
            a, b = sorted(int(x) for x in rng.integers(0, n + 1, 2))
            got = obj[a:b]
            if len(got) != b - a or any(not dscmp.arr_equal(np.asarray(g), e)
                                        for g, e in zip(got, exp[a:b])):
                return bad(f"contour[{a}:{b}]", {"len": len(got)})
            good()
            # boolean masks and index arrays: a container may refuse them, but what it
            # returns must be the selected contours in order
            m = rng.random(n) < 0.5
            ia = rng.integers(0, n, int(rng.integers(1, n + 2)))
            for what, sel, want in (("[bool mask]", m, [exp[k] for k in np.flatnonzero(m)]),
                                    ("[bool list]", [bool(v) for v in m],
                                     [exp[k] for k in np.flatnonzero(m)]),
                                    ("[index array]", ia, [exp[int(k)] for k in ia])):
                try:
                    got = obj[sel]
                    got = list(got)
                except (TypeError, IndexError, ValueError, NotImplementedError, KeyError) as exc:
                    ctx.count(f"contour_access_refused[{what}:{type(exc).__name__}]")
                    continue
                if len(got) != len(want) or any(not dscmp.arr_equal(np.asarray(g), e)
                                                for g, e in zip(got, want)):
                    return bad(f"contour{what}", {"len": len(got), "expected_len": len(want)})
                good()
            cnt = 0
            for g in obj:
                if cnt >= n or not dscmp.arr_equal(np.asarray(g), exp[cnt]):
                    return bad("iteration", {"at": cnt})
                cnt += 1
            if cnt != n:
                return bad("iteration", {"count": cnt, "expected": n})
            good()
            return
        e = np.asarray(exp)
        whole = np.asarray(obj[:])
        if not dscmp.arr_equal(whole, e):
            return bad("[:]", dscmp.first_diff(whole, e))
        good()
        if len(obj) != n:
            return bad("len", {"len": len(obj), "expected": n})
        good()
        for i in {0, n - 1, int(rng.integers(0, n)), -1, -n}:
            if not dscmp.arr_equal(np.asarray(obj[i]), e[i]):
                return bad(f"[{i}]", {"got": repr(np.asarray(obj[i]).ravel()[:3]),
                                      "expected": repr(e[i].ravel()[:3])})
            good()
        a, b = sorted(int(x) for x in rng.integers(0, n + 1, 2))
        if not dscmp.arr_equal(np.asarray(obj[a:b]), e[a:b]):
            return bad(f"[{a}:{b}]", None)
        good()
        if e.ndim == 1:
            m = rng.random(n) < 0.5
            if not dscmp.arr_equal(np.asarray(obj[m]), e[m]):
                return bad("[bool mask]", None)
            good()
            ia = rng.integers(0, n, int(rng.integers(1, n + 2)))
            if not dscmp.arr_equal(np.asarray(obj[ia]), e[ia]):
                return bad("[index array]", None)
            good()
            arr = np.asarray(obj)
            if not dscmp.arr_equal(arr, e):
                return bad("np.asarray", None)
            good()
            if tuple(obj.shape) != e.shape:
                return bad("shape", {"shape": list(obj.shape), "expected": list(e.shape)})
            good()
        else:
            ia = np.sort(rng.choice(n, min(n, int(rng.integers(1, 4))), replace=False))
            if not dscmp.arr_equal(np.asarray(obj[ia]), e[ia]):
                return bad("[sorted index array]", None)
            good()
            m = rng.random(n) < 0.5
            try:
                got_m = np.asarray(obj[m])
            except (TypeError, IndexError, ValueError, NotImplementedError) as exc:
                ctx.count(f"nonscalar_mask_access_refused[{type(exc).__name__}]")
            else:
                if not dscmp.arr_equal(got_m, e[m]):
                    return bad("[bool mask]", {"len": len(got_m), "expected": int(m.sum())})
                good()
            if tuple(obj.shape) != e.shape:
                return bad("shape", {"shape": list(obj.shape), "expected": list(e.shape)})
            good()
    except BaseException as exc:
        import traceback
        bad("exception", {"exc": repr(exc), "tb": traceback.format_exc()[-900:]})


def check_file(ctx, path, origin, root_idx, stored_override, rng, case, expect_feats):
    """Open `path`; every feature of `expect_feats` must be offered and equal the origin at
    root_idx (or the deliberately different stored data)."""
    import dclab
    with dclab.new_dataset(path) as ds:
        ok_len = len(ds) == len(root_idx)
        ctx.check("c07.len", ok_len, lambda: dict(case, len=len(ds), expected=len(root_idx)),
                  message=f"len(referrer)={len(ds)}, expected {len(root_idx)}")
        if not ok_len:
            return
        # what the client did with the freshly opened referrer before the judged reads, and
        # the order in which the features are visited, vary from case to case (DESIGN 7.5)
        from vmon.gen.touch import client_touch
        pre = int(rng.integers(0, 5))
        if pre == 1:
            ds.features
        elif pre == 2:
            ds.features_loaded
        elif pre == 3:
            client_touch(rng, ds, list(expect_feats), ctx, p=0.5)
        ctx.count(f"referrer_first_use[{pre}]")
        expect_feats = [expect_feats[k] for k in rng.permutation(len(expect_feats))]
        for f in expect_feats:
            avail = f in ds
            ctx.check("c07.available", avail, lambda: dict(case, feature=f,
                                                           features_basin=ds.features_basin,
                                                           innate=ds.features_innate),
                      message=f"feature {f} of the origin is not offered by the referrer")
            if not avail:
                continue
            if f in stored_override:
                exp = stored_override[f]
            else:
                exp = index_feature(origin[f], root_idx)
            compare_access(ctx, ds, f, exp, rng, case)


# ------------------------------------------------------------------------------- cases
ALL = ["deform", "area_um", "userdef1", "image", "mask", "contour", "trace"]


def write_origin(path, fid, n, rng, rid):
    import dclab
    from vmon.gen import dataset as gd
    data = tagged(fid, n)
    meta = gd.complete_meta(rng, {}, n, (H, W), data["trace"])
    meta["experiment"]["run identifier"] = rid
    model = {"n": n, "features": data, "meta": meta, "logs": {}, "tables": {}}
    gd.write_model(path, model)
    return data


def run_chain(ctx, idx, rng, tmp):
    import dclab
    from dclab.rtdc_dataset import writer
    n = int(rng.choice([3, 9, 10, 11, 21, 30])) if rng.random() < 0.6 else int(rng.integers(2, 40))
    big = idx % 16 == 5
    if big:
        # a few hundred events of which the exports drop only a few: long runs of consecutive
        # origin events behind the mapping (longer than any block a reader may fetch at once)
        n = int(rng.choice([130, 257, 300, 520, 700]))
        ctx.count("chains_with_long_runs")
    rid = f"mid-{idx:05d}"
    origin = write_origin(tmp / "origin.rtdc", 1, n, rng, rid)
    writer.CHUNK_SIZE_BYTES = int(rng.choice([256, 1024 ** 2]))
    depth = int(rng.integers(1, 5)) if not big else int(rng.integers(1, 3))
    cur = tmp / "origin.rtdc"
    root_idx = np.arange(n)
    steps = []
    try:
        for lvl in range(1, depth + 1):
            out = tmp / f"level{lvl}.rtdc"
            with dclab.new_dataset(cur) as ds:
                src = ds
                via = "file"
                m_child = None
                closers = []
                hd = int(rng.choice([0, 0, 1, 2])) if not big else 0
                ridx = root_idx
                for _ in range(hd):
                    mc = rng.random(len(src)) < 0.7
                    if not mc.any():
                        mc[int(rng.integers(0, len(src)))] = True
                    src.filter.manual[:] = mc
                    src.apply_filter()
                    ridx = ridx[mc]
                    src = dclab.new_dataset(src)
                    closers.append(src)
                    via = f"hierarchy{hd}"
                filtered = bool(rng.random() < 0.75)
                m = rng.random(len(src)) < (rng.uniform(0.3, 1.0) if not big else 0.993)
                if not m.any():
                    m[int(rng.integers(0, len(src)))] = True
                src.filter.manual[:] = m
                src.apply_filter()
                sel_src = m
                if hd and rng.random() < 0.5:
                    # history: after the member's own exclusions were applied, the filter of
                    # its parent is edited and the change reaches the member only through
                    # the member's rejuvenate() (the documented way)
                    par = src.hparent
                    pm = np.array(par.filter.manual, dtype=bool, copy=True)
                    flip = rng.random(len(pm)) < 0.35
                    pm[flip] = ~pm[flip]
                    if not pm.any():
                        pm[int(rng.integers(0, len(pm)))] = True
                    par.filter.manual[:] = pm
                    src.rejuvenate()
                    if filtered and not np.any(src.filter.all):
                        src.filter.manual[:] = True
                        src.apply_filter()
                    # the events behind the member now: composed from the observable filter
                    # arrays of the chain (root file first)
                    chain_ds = []
                    d_ = src
                    while d_.format == "hierarchy":
                        d_ = d_.hparent
                        chain_ds.append(d_)
                    ridx = root_idx
                    for d_ in reversed(chain_ds):
                        ridx = ridx[np.asarray(d_.filter.all, dtype=bool)]
                    sel_src = np.array(src.filter.all, dtype=bool, copy=True)
                    via += "+parent-edited-then-rejuvenate"
                    ctx.count("chain_exports_after_parent_edit_and_rejuvenate")
                feats = [f for f in ALL if rng.random() < 0.3]
                src.export.hdf5(out, features=feats, filtered=filtered, basins=True,
                                override=True)
                if filtered:
                    ridx = ridx[sel_src]
                root_idx = ridx
                for c in closers:
                    c.close()
            steps.append({"level": lvl, "via": via, "filtered": filtered, "stored": feats,
                          "n": int(len(root_idx))})
            case = {"kind": "chain", "n_origin": n, "steps": steps}
            check_file(ctx, out, origin, root_idx, {}, rng, case, ALL)
            cur = out
    finally:
        writer.CHUNK_SIZE_BYTES = 1024 ** 2
    return {"kind": "chain", "n_origin": n, "steps": steps}, depth >= 2


def gen_map(rng, n_origin):
    kind = str(rng.choice(["subset", "superset", "permutation", "identity", "random"]))
    if kind == "subset":
        k = int(rng.integers(1, n_origin + 1))
        m = np.sort(rng.choice(n_origin, k, replace=False))
    elif kind == "superset":
        m = np.sort(rng.integers(0, n_origin, n_origin + int(rng.integers(1, 15))))
    elif kind == "permutation":
        m = rng.permutation(n_origin)
    elif kind == "identity":
        m = np.arange(n_origin)
    else:
        m = rng.integers(0, n_origin, int(rng.integers(1, 2 * n_origin + 2)))
    return kind, m.astype(np.uint64)


def strip_mapping_key(path, basin_name):
    """Rewrite one basin definition of the file without its "mapping" key (raw h5py)."""
    import hashlib
    import json
    import h5py
    with h5py.File(path, "a") as h5:
        grp = h5["basins"]
        for key in list(grp):
            lines = [ln.decode("utf-8") if isinstance(ln, bytes) else str(ln) for ln in grp[key][:]]
            bdict = json.loads(" ".join(lines))
            if bdict.get("name") != basin_name:
                continue
            assert bdict.get("mapping", "same") == "same"
            bdict.pop("mapping", None)
            data = json.dumps(bdict, indent=2)
            del grp[key]
            new_lines = data.split("\n")
            width = max(len(ln.encode("utf-8")) for ln in new_lines)
            grp.create_dataset(hashlib.md5(data.encode("utf-8")).hexdigest(),
                               data=np.array([ln.encode("utf-8") for ln in new_lines],
                                             dtype=f"S{width}"))


def run_explicit(ctx, idx, rng, tmp):
    import dclab
    from vmon.gen import dataset as gd
    n1 = int(rng.integers(2, 30))
    rid = f"mid-{idx:05d}"
    o1 = write_origin(tmp / "o1.rtdc", 1, n1, rng, rid)
    kind, bmap = gen_map(rng, n1)
    # every fourth explicit case: the first basin is unmapped and its definition is rewritten in the form
    # older dclab versions / other software store (no "mapping" key, which dclab documents to
    # mean "same"), next to mapped basins written by the current writer
    legacy = idx % 10 == 8
    if legacy:
        kind, bmap = "same (definition without mapping key)", np.arange(n1, dtype=np.uint64)
    nref = len(bmap)
    meta = gd.complete_meta(rng, {}, nref, (H, W), None)
    # (an unmapped basin must carry exactly the referrer's identifier, a mapped one a prefix)
    meta["experiment"]["run identifier"] = rid + ("-x1" if rng.random() < 0.5 and not legacy
                                                  else "")
    stored = {}
    override = {}
    if rng.random() < 0.5:
        # stored feature that deliberately differs from the basin's: must take precedence
        stored["deform"] = 9e6 + np.arange(nref) + 0.125
        override["deform"] = stored["deform"]
    stored["userdef2"] = np.arange(nref, dtype=float)
    ref = tmp / "ref.rtdc"
    feats_sub = None if rng.random() < 0.6 else ["area_um", "image", "trace", "deform"]
    two = bool(rng.random() < 0.35)
    internal = bool(rng.random() < 0.3)
    if legacy and not (two or internal):
        internal = True
    # the mapping may be stored under an explicitly named slot (the documented tuple form), so
    # that the slots in use are not the contiguous prefix basinmap0..k
    slot = None
    if not legacy and rng.random() < 0.35:
        slot = str(rng.choice(["basinmap1", "basinmap2", "basinmap5", "basinmap0"]))
    with dclab.RTDCWriter(ref, mode="reset") as hw:
        hw.store_metadata(meta)
        for f, d in stored.items():
            hw.store_feature(f, d)
        hw.store_basin(basin_name="b1", basin_type="file", basin_format="hdf5",
                       basin_locs=[tmp / "o1.rtdc"],
                       basin_map=None if legacy else (bmap if slot is None else (slot, bmap)),
                       basin_feats=feats_sub)
        expect2 = None
        if two:
            n2 = int(rng.integers(2, 20))
            o2 = write_origin(tmp / "o2.rtdc", 2, n2, rng, rid)
            kind2, bmap2 = "random", rng.integers(0, n2, nref).astype(np.uint64)
            hw.store_basin(basin_name="b2", basin_type="file", basin_format="hdf5",
                           basin_locs=[tmp / "o2.rtdc"], basin_map=bmap2,
                           basin_feats=["userdef1", "mask"])
            expect2 = (o2, bmap2)
        if internal:
            k = int(rng.integers(1, 6))
            imap = rng.integers(0, k, nref).astype(np.uint64)
            idata = {"userdef3": 7e6 + np.arange(k, dtype=float)}
            hw.store_basin(basin_name="bi", basin_type="internal", basin_format="h5dataset",
                           basin_locs=["basin_events"], basin_map=imap,
                           internal_data=idata, basin_feats=["userdef3"])
    if legacy:
        strip_mapping_key(ref, "b1")
        ctx.count("legacy_definitions_without_mapping_key")
    case = {"kind": "explicit", "map": kind, "n_origin": n1, "n_ref": nref,
            "features_restricted": feats_sub, "two_basins": two, "internal": internal,
            "stored": sorted(stored)}
    ridx = bmap.astype(np.int64)
    expect = list(ALL) if feats_sub is None else [f for f in feats_sub]
    if two:
        expect = [f for f in expect if f not in ("userdef1", "mask")]
    case["slot"] = slot
    check_file(ctx, ref, o1, ridx, override, rng, case, expect)
    import dclab as _d
    if (slot is not None or idx % 3 == 0) and not two:
        # a filtered export of the referrer (all features, with basins): the new file maps to
        # the referrer and, composed, to the origin - whatever slots the referrer occupies
        with _d.new_dataset(ref) as dsr:
            msk = rng.random(len(dsr)) < 0.6
            if not msk.any():
                msk[0] = True
            dsr.filter.manual[:] = msk
            dsr.apply_filter()
            exp_path = tmp / "ref_export.rtdc"
            efeats = None if rng.random() < 0.5 else \
                [f for f in dsr.features_innate if rng.random() < 0.5]
            dsr.export.hdf5(exp_path, features=efeats, filtered=True, basins=True)
        sel = np.flatnonzero(msk)
        ov2 = {f: v[sel] for f, v in override.items()}
        expect_e = list(expect)
        for f in override:
            if efeats is not None and f not in efeats and f in expect_e:
                # not stored in the export: offered by the referrer (its own, different data)
                # *and* by the origin - which of the two basins serves it is not stated
                expect_e.remove(f)
                ctx.count("skipped_feature_offered_by_two_basins")
        check_file(ctx, exp_path, o1, ridx[sel], ov2, rng,
                   dict(case, exported_from_referrer=True, n_export=int(len(sel)),
                        export_features=efeats), expect_e)
        if 0 < len(sel) < len(msk):
            # the same path is written again in this process: other events, the same number
            # of them (whatever was read from the first file must not be served again)
            msk2 = np.zeros(len(msk), dtype=bool)
            msk2[rng.choice(len(msk), len(sel), replace=False)] = True
            if not np.array_equal(msk2, msk):
                with _d.new_dataset(ref) as dsr:
                    dsr.filter.manual[:] = msk2
                    dsr.apply_filter()
                    dsr.export.hdf5(exp_path, features=efeats, filtered=True, basins=True,
                                    override=True)
                sel2 = np.flatnonzero(msk2)
                ov3 = {f: v[sel2] for f, v in override.items()}
                check_file(ctx, exp_path, o1, ridx[sel2], ov3, rng,
                           dict(case, exported_from_referrer=True, rewritten_at_same_path=True,
                                n_export=int(len(sel2)), export_features=efeats), expect_e)
                ctx.count("referrer_exports_rewritten_at_same_path")
        ctx.count("exports_of_explicit_referrers")
    if two:
        o2, bmap2 = expect2
        # features restricted to the second basin must come from it, with its own map
        with _d.new_dataset(ref) as ds:
            for f in ("userdef1", "mask"):
                if feats_sub is None and f in ("userdef1", "mask"):
                    # offered by both basins: either origin is acceptable -> not judged
                    ctx.count("skipped_feature_offered_by_two_basins")
                    continue
                if f in ds:
                    compare_access(ctx, ds, f, index_feature(o2[f], bmap2.astype(np.int64)),
                                   rng, dict(case, basin="b2"))
                else:
                    ctx.check("c07.available", False, dict(case, feature=f, basin="b2"),
                              message=f"{f} of the second basin not offered")
    if internal:
        with _d.new_dataset(ref) as ds:
            if "userdef3" in ds:
                compare_access(ctx, ds, "userdef3", idata["userdef3"][imap.astype(np.int64)],
                               rng, dict(case, basin="internal"))
            else:
                ctx.check("c07.available", False, dict(case, feature="userdef3"),
                          message="internal basin feature not offered")
    return case, kind in ("superset", "permutation", "random")


def run_registry(ctx, idx, rng, tmp):
    """Precedence of stored features under a changing feature registry: referrer and origin
    both store a user-defined feature (different values); the referrer is opened and read
    while that feature is not registered (another one is), then the registrations are
    exchanged - the data stored in the referrer itself must be served, not the basin's."""
    import dclab
    from dclab.rtdc_dataset import feat_temp
    import dclab.definitions as dfn
    fx, fy = f"vmon_c07x{idx % 7}", f"vmon_c07y{idx % 7}"
    for f in (fx, fy):
        if dfn.scalar_feature_exists(f):
            feat_temp.deregister_temporary_feature(f)
    n1 = int(rng.integers(3, 20))
    rid = f"mid-r{idx:05d}"
    dclab.register_temporary_feature(fx)
    try:
        o1 = write_origin(tmp / "o1.rtdc", 1, n1, rng, rid)
        import h5py
        with h5py.File(tmp / "o1.rtdc", "a") as h5:
            h5["events"].create_dataset(fx, data=5e5 + np.arange(n1, dtype=float))
        kind, bmap = gen_map(rng, n1)
        nref = len(bmap)
        from vmon.gen import dataset as gd
        meta = gd.complete_meta(rng, {}, nref, (H, W), None)
        meta["experiment"]["run identifier"] = rid
        stored = 8e6 + np.arange(nref, dtype=float)
        ref = tmp / "ref.rtdc"
        with dclab.RTDCWriter(ref, mode="reset") as hw:
            hw.store_metadata(meta)
            hw.store_feature(fx, stored)
            hw.store_feature("userdef2", np.arange(nref, dtype=float))
            hw.store_basin(basin_name="b1", basin_type="file", basin_format="hdf5",
                           basin_locs=[tmp / "o1.rtdc"], basin_map=bmap)
    finally:
        feat_temp.deregister_temporary_feature(fx)
    case = {"kind": "registry", "map": kind, "n_origin": n1, "n_ref": nref}
    order = int(rng.integers(0, 3))
    dclab.register_temporary_feature(fy)
    try:
        with dclab.new_dataset(ref) as ds:
            if order != 2:
                # something is read while the stored feature's name is unknown
                _ = np.asarray(ds["userdef2"][:])
                _ = "deform" in ds
                _ = list(ds.features_innate)
            feat_temp.deregister_temporary_feature(fy)
            dclab.register_temporary_feature(fx)
            try:
                got_in = fx in ds
                ctx.check("c07.available", got_in, dict(case, feature=fx),
                          message="stored user-defined feature not offered after registration")
                if got_in:
                    compare_access(ctx, ds, fx, stored, rng,
                                   dict(case, note="stored in the referrer, also in the basin"))
                ctx.count("registry_histories")
            finally:
                feat_temp.deregister_temporary_feature(fx)
    finally:
        if dfn.scalar_feature_exists(fy):
            feat_temp.deregister_temporary_feature(fy)
    return case, True


def run_relocate(ctx, idx, rng, tmp):
    import dclab
    n = int(rng.integers(3, 25))
    rid = f"mid-{idx:05d}"
    a = tmp / "a" / "sub"
    a.mkdir(parents=True)
    origin = write_origin(a / "origin.rtdc", 1, n, rng, rid)
    m = rng.random(n) < 0.6
    if not m.any():
        m[0] = True
    # Only relocation of referrer and origin *in the same directory* is documented (the
    # export stores the origin's file name next to its absolute path "so the user can put
    # them into the same directory"); other layouts are not judged.
    same_dir = True
    outdir = a if same_dir else (a.parent)
    with dclab.new_dataset(a / "origin.rtdc") as ds:
        ds.filter.manual[:] = m
        ds.apply_filter()
        ds.export.hdf5(outdir / "ref.rtdc", features=["deform"], filtered=True, basins=True)
    b = tmp / "b"
    shutil.move(str(tmp / "a"), str(b))
    newref = (b / "sub" / "ref.rtdc") if same_dir else (b / "ref.rtdc")
    case = {"kind": "relocate", "n": n, "referrer_in_same_dir": same_dir}
    if same_dir:
        check_file(ctx, newref, origin, np.flatnonzero(m), {}, rng, case, ALL)
    else:
        # only "origin in the referrer's directory or a sub-directory... stored relative" is
        # documented for same/sub directories; the origin here sits in sub/ -> also relative
        check_file(ctx, newref, origin, np.flatnonzero(m), {}, rng, case, ALL)
    return case, False


def install(ctx):
    import functools
    from dclab.rtdc_dataset import feat_basin
    from vmon.contracts import wrap_method
    if getattr(feat_basin, "_vmon_c07", False):
        feat_basin._vmon_ctx[0] = ctx
        return
    feat_basin._vmon_c07 = True
    feat_basin._vmon_ctx = [ctx]

    def mk(orig):
        @functools.wraps(orig)
        def getitem(self, index):
            res = orig(self, index)
            c = feat_basin._vmon_ctx[0]
            try:
                if c is not None and not isinstance(index, str):
                    full = np.asarray(self.feat_obj[:])
                    exp = full[np.asarray(self.basinmap)][index]
                    ok = np.array_equal(np.asarray(res), exp, equal_nan=full.dtype.kind == "f")
                    c.check("c07.proxy_getitem", bool(ok),
                            lambda: {"index": repr(index)[:80], "n_map": len(self.basinmap)},
                            message="BasinProxyFeature[index] != feat[:][basinmap][index]")
            except Exception as exc:
                if c is not None:
                    c.count(f"proxy_monitor_skipped[{type(exc).__name__}]")
            return res
        return getitem
    wrap_method(feat_basin.BasinProxyFeature, "__getitem__", mk)


def run(spec, ctx):
    from vmon import boot
    install(ctx)
    for idx in ctx.case_ids():
        rng = ctx.rng(idx)
        tmp = boot.scratch() / f"c07_{idx}"
        tmp.mkdir()
        try:
            r = idx % 10
            if r < 5:
                case, nt = run_chain(ctx, idx, rng, tmp)
            elif r < 9:
                if idx % 20 == 7:
                    case, nt = run_registry(ctx, idx, rng, tmp)
                else:
                    case, nt = run_explicit(ctx, idx, rng, tmp)
            else:
                case, nt = run_relocate(ctx, idx, rng, tmp)
            ctx.count(f"cases[{case['kind']}]")
            if nt:
                ctx.mark_nontrivial(case)
            if idx % 37 == 0:
                ctx.sample(case)
        except Exception as exc:
            ctx.raised("c07.no_exception", f"case {idx}", exc)
        finally:
            shutil.rmtree(tmp, ignore_errors=True)
