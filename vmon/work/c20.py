"""C20 - reported feature minima, maxima and means match the data.

Monitors
* contracts on the real H5ScalarEvent.min/max/mean and ChildScalar.min/max/mean (and the
  basin proxy when it offers them): result == nanmin/nanmax/nanmean of the feature's own
  values (recording wrappers installed on the classes; they watch every workload).
* writer post-condition on the stored min/max/mean attributes (vmon.monitors.writer).
* driver: production histories (partitioned appends with NaN anywhere, replace mode, join of
  2-5 files, compress / repack / condense / filtered export of files with and without stored
  summaries, hierarchy children across refreshes, basin-backed files); after every step all
  scalar features of the produced dataset are queried.
"""
import shutil

import numpy as np

PROP = "C20"
LEVEL = "exploration"
RULE = ("history = scalar data with NaN patterns (any position, all-NaN prefix, all-NaN feature, "
        "integers, single event) written in a random partition of appends / replace mode, then a "
        "random chain of {join with 1-4 other files, compress, repack, condense, filtered export, "
        "export with basins, hierarchy child + parent filter change + refresh}; input files with "
        "and without stored summaries (raw h5py). Non-trivial = >=2 appends with NaN in the data, "
        "or a chain of >=2 production steps; distinct by hash of the history")
LEVEL_TEXT = ("Held on the observed executions: for every scalar feature of every dataset produced "
              "by the generated histories, min()/max()/mean() of the feature object equal "
              "nanmin/nanmax/nanmean of its values (extrema exactly, mean to 1e-9 relative). "
              "Exploration over histories x inputs.")
LEVEL_NOTE = ("trusted: numpy's nan-functions as the definition; h5py. Don't-care: means whose sum "
              "of magnitudes overflows float64 (summation-order dependent)")
TECHNIQUE = ("runtime monitoring: result contracts on the real min/max/mean methods of the feature "
             "classes + post-condition on the writer's summary attributes, driven by production "
             "histories")
ASSUMPTIONS = ["files not produced by dclab carry either no summary attributes or correct ones"]
MIN_EVALS = {"c20.summary[H5ScalarEvent]": 2000, "c20.summary[ChildScalar]": 200,
             "c20.write_ndarray.attr_mean": 300}
WATCHDOG_S = {"quick": 400, "thorough": 3000}


def plan(tier, seed):
    n = 320 if tier == "quick" else 9600
    k = 16
    per = n // k
    return [{"kind": "hist", "cases": {"start": i * per, "stop": (i + 1) * per}}
            for i in range(k)]


# --------------------------------------------------------------------------- contracts
class _S:
    ctx = None
    installed = False


def close(a, b, rtol=1e-9):
    a, b = float(a), float(b)
    if np.isnan(a) or np.isnan(b):
        return bool(np.isnan(a) and np.isnan(b))
    if np.isinf(a) or np.isinf(b):
        return a == b
    return abs(a - b) <= rtol * max(abs(a), abs(b)) + 1e-300


def judge(ctx, kind, uname, got, values, where):
    values = np.asarray(values)
    with np.errstate(all="ignore"):
        import warnings
        with warnings.catch_warnings():
            warnings.simplefilter("ignore")
            if values.size == 0:
                ctx.count("skipped_empty_feature")
                return
            exp = {"min": np.nanmin, "max": np.nanmax, "mean": np.nanmean}[uname](values)
            fin = values[~np.isnan(values)] if values.dtype.kind == "f" else values
            overflow = fin.size and not np.isfinite(np.sum(np.abs(fin.astype(np.float64))))
    if uname == "mean":
        ok = close(got, exp)
        if not ok and overflow:
            ctx.count("skipped_mean_overflow_regime")
            return
    else:
        ok = bool(got == exp) or bool(np.isnan(got) and np.isnan(exp))
        if not ok and values.dtype.kind == "f" and values.dtype.itemsize < 8:
            # the summary may have been computed before the data were rounded to the
            # (single-precision) storage type: equal within that type's rounding
            with np.errstate(all="ignore"):
                ok = bool(values.dtype.type(got) == exp)
            if ok:
                ctx.count("extremum_equal_after_rounding_to_storage_dtype")
    ctx.check(f"c20.summary[{kind}]", ok,
              lambda: dict(where, stat=uname, reported=repr(got), expected=repr(exp),
                           n=int(values.size), n_nan=int(np.isnan(values.astype(float)).sum())),
              message=f"{kind}.{uname}() = {got!r}, nan{uname} of the data = {exp!r}")


def install(ctx):
    _S.ctx = ctx
    if _S.installed:
        return
    _S.installed = True
    import functools
    from dclab.rtdc_dataset.fmt_hdf5 import events as h5ev
    from dclab.rtdc_dataset.fmt_hierarchy import events as hiev
    from vmon.contracts import wrap_method

    def mk(kind, uname, where):
        def make(orig):
            @functools.wraps(orig)
            def wrapper(self, *a, **kw):
                res = orig(self, *a, **kw)
                c = _S.ctx
                if c is not None:
                    try:
                        judge(c, kind, uname, res, np.array(self.__array__(), copy=True),
                              where(self))
                    except Exception as exc:
                        c.error(f"c20.contract.{kind}.{uname}", exc)
                return res
            return wrapper
        return make

    for u in ("min", "max", "mean"):
        wrap_method(h5ev.H5ScalarEvent, u,
                    mk("H5ScalarEvent", u, lambda s: {"dataset": s.h5ds.name,
                                                      "file": str(s.h5ds.file.filename)[-40:]}))
        wrap_method(hiev.ChildScalar, u,
                    mk("ChildScalar", u, lambda s: {"feature": s.feat}))


# ------------------------------------------------------------------------------ driver
def query_all(ctx, ds, tag, hist):
    """Ask every scalar feature object of ds for its summaries (the contracts judge); feature
    objects without the methods are judged here against the same definition."""
    import dclab.definitions as dfn
    h5 = getattr(ds, "h5file", None)
    if h5 is not None and ("events" not in h5 or len(h5["events"]) == 0) \
            and not getattr(ds, "basins", None):
        # a file without any stored feature and without basins (e.g. the join of inputs that
        # have no innate feature in common, repacked): there is no summary to report
        ctx.count("skipped_file_without_features")
        return
    feats = [f for f in ds.features_loaded if dfn.scalar_feature_exists(f)]
    for f in feats:
        try:
            obj = ds[f]
        except Exception:
            ctx.count("skipped_feature_unreadable")
            continue
        if len(obj) == 0:
            continue
        # the order of the three queries and what was read from the feature before them are
        # the client's choice
        orng = np.random.default_rng([len(f), len(obj), ctx.counters.get("summary_queries", 0)])
        ctx.count("summary_queries")
        pre = int(orng.integers(0, 4))
        if not isinstance(obj, np.ndarray):
            try:
                if pre == 1:
                    obj[int(orng.integers(0, len(obj)))]
                elif pre == 2:
                    np.asarray(obj, dtype=np.float32)
                elif pre == 3:
                    obj[:max(1, len(obj) // 2)]
            except Exception:
                ctx.count("pre_access_refused")
            ctx.count(f"pre_access_form[{pre}]")
        for u in orng.permutation(["min", "max", "mean"]):
            u = str(u)
            if isinstance(obj, np.ndarray):
                ctx.count("plain_ndarray_feature")
                continue
            try:
                got = getattr(obj, u)()
            except Exception as exc:
                ctx.ev(f"c20.summary[{type(obj).__name__}]")
                ctx.violation(f"c20.summary[{type(obj).__name__}]",
                              {"feature": f, "stat": u, "exc": repr(exc), "dataset": tag,
                               "history": hist[-8:]},
                              finding=("mapped-basin-feature-lacks-summary-methods"
                                       if type(obj).__name__ == "BasinProxyFeature"
                                       and isinstance(exc, AttributeError) else None),
                              message=f"{type(obj).__name__}.{u}() raised {exc!r}")
                continue
            kind = type(obj).__name__
            if kind not in ("H5ScalarEvent", "ChildScalar"):
                judge(ctx, kind, u, got, np.asarray(obj[:]), {"feature": f, "dataset": tag,
                                                               "history": hist[-8:]})
    ctx.count(f"datasets_queried[{tag}]")


TEMP_FEAT = "vmon_c20_temp"


def _ensure_temp_feature():
    import dclab
    import dclab.definitions as dfn
    if not dfn.scalar_feature_exists(TEMP_FEAT):
        dclab.register_temporary_feature(TEMP_FEAT)


def nan_scalar(rng, n):
    from vmon.gen import dataset as gd
    r = rng.random()
    if r < 0.15:
        a = rng.integers(-50, 50, n).astype(np.int64)
        return a
    a = gd.float_scalar(rng, n, special=0.0, kind=int(rng.integers(0, 5)))
    a = np.where(np.isfinite(a), a, 0.0)
    r = rng.random()
    if r < 0.3:
        a[rng.random(n) < rng.random()] = np.nan
    elif r < 0.45 and n > 1:
        a[:int(rng.integers(1, n))] = np.nan
    elif r < 0.55:
        a[:] = np.nan
    elif r < 0.65 and n > 1:
        a[int(rng.integers(1, n)):] = np.nan
    if rng.random() < 0.1:
        a[rng.random(n) < 0.2] = np.inf
    return a


def run_case(ctx, idx):
    import h5py
    import dclab
    import dclab.cli as cli
    from vmon import boot
    from vmon.gen import dataset as gd, h5layout
    from vmon.work.c01 import composition
    rng = ctx.rng(idx)
    tmp = boot.scratch() / f"c20_{idx}"
    tmp.mkdir()
    hist = []
    steps = 0
    nan_appends = False
    try:
        n = gd.event_counts(rng, small=True)
        big = idx % 64 == 5
        names = list(rng.choice([f for f in gd.FLOAT_SCALARS if not f.startswith("ml_")],
                                1 if big else int(rng.integers(2, 6)), replace=False)) + ["deform"]
        if big:
            # a long measurement: more events than any block-wise summary may use at once,
            # NaN concentrated in a part of the events
            n = int(rng.choice([65537, 70000, 131073]))
            ctx.count("long_measurements")
        data = {str(f): nan_scalar(rng, n) for f in set(names)}
        if big:
            for f in data:
                if data[f].dtype.kind == "f":
                    a, b = sorted(int(v) for v in rng.integers(0, n, 2))
                    data[f] = data[f] + np.linspace(0, 50, n)       # values drift over time
                    data[f][a:b] = np.nan
        if rng.random() < 0.4:
            data["fl1_max"] = rng.integers(0, 5000, n)
        if rng.random() < 0.25:
            # a recording whose stored low-precision "time" column is superseded by the one
            # computed from "frame" and the frame rate (the stored column stays in the file)
            data["frame"] = 1000 + np.cumsum(rng.integers(1, 9, n)).astype(float)
            data["time"] = (50 + np.sort(rng.random(n)) * 5).astype(np.float32)
            ctx.count("inputs_with_superseded_time_column")
        meta = gd.complete_meta(rng, data, n)
        meta["experiment"]["time"] = "10:00:00"
        p0 = tmp / "f0.rtdc"
        how = rng.random()
        if how < 0.6:
            # dclab writer, partitioned appends / replace
            mode2 = "replace" if rng.random() < 0.15 else "append"
            with dclab.RTDCWriter(p0, mode="reset") as hw:
                hw.store_metadata(meta)
                for f, arr in data.items():
                    parts = composition(rng, n) if not big else \
                        [(0, n // 3), (n // 3, n)][:int(rng.integers(1, 3))]
                    if big and len(parts) == 1:
                        parts = [(0, n)]
                    for a, b in parts:
                        hw.store_feature(f, arr[a:b])
                    if len(parts) > 1 and arr.dtype.kind == "f" and np.isnan(arr).any():
                        nan_appends = True
            hist.append(["writer", {f: "parts" for f in data}])
            if mode2 == "replace":
                with dclab.RTDCWriter(p0, mode="replace") as hw:
                    f = str(rng.choice(list(data)))
                    data[f] = nan_scalar(rng, n)
                    hw.store_feature(f, data[f])
                hist.append(["replace", f])
        else:
            model = {"n": n, "features": data, "meta": meta, "logs": {}, "tables": {}}
            summ = bool(rng.random() < 0.5)
            h5layout.write_layout(p0, model, rng, version=dclab.__version__, summaries=summ)
            hist.append(["raw-h5py", {"summaries": summ}])
        cur = p0
        with dclab.new_dataset(cur) as ds:
            query_all(ctx, ds, "written", hist)
        for step in range(2 if big else int(rng.integers(0, 4))):
            op = str(rng.choice(["join", "compress", "repack", "condense", "export", "basin",
                                 "hierarchy", "superset", "export_named"]))
            if big:
                op = ["hierarchy", str(rng.choice(["export", "compress", "condense"]))][step]
            out = tmp / f"s{step}.rtdc"
            try:
                if op == "join":
                    others = []
                    for j in range(int(rng.integers(1, 5))):
                        nj = gd.event_counts(rng, small=True)
                        with h5py.File(cur, "r") as h:
                            fl = {f: h["events"][f].dtype.kind for f in h["events"]
                                  if h["events"][f].ndim == 1
                                  and not f.startswith("basinmap") and f != "index"}
                        # same data type per feature in all files of one measurement
                        dj = {f: (nan_scalar(rng, nj).astype(float) if kd == "f"
                                  else rng.integers(0, 5000, nj)) for f, kd in fl.items()}
                        mj = {s: dict(kv) for s, kv in meta.items()}
                        mj["experiment"]["time"] = f"1{j + 1}:00:0{step}"
                        pj = tmp / f"o{step}_{j}.rtdc"
                        gd.write_model(pj, {"n": nj, "features": dj, "meta": mj, "logs": {},
                                            "tables": {}})
                        others.append(pj)
                    cli.join(paths_in=[cur] + others, path_out=out)
                elif op == "compress":
                    cli.compress(path_in=cur, path_out=out)
                elif op == "repack":
                    cli.repack(path_in=cur, path_out=out)
                elif op == "condense":
                    cli.condense(path_in=cur, path_out=out)
                elif op == "superset":
                    # referrer whose mapped basin repeats events (and may cover all of them)
                    with dclab.new_dataset(cur) as ds:
                        n0 = len(ds)
                        cfgm = {sec: dict(ds.config[sec]) for sec in ("experiment", "imaging",
                                                                     "setup") if sec in ds.config}
                        rid = ds.get_measurement_identifier()
                    if rng.random() < 0.6:
                        bmap = np.sort(np.concatenate([np.arange(n0), rng.integers(
                            0, n0, int(rng.integers(1, n0 + 3)))]))
                    else:
                        bmap = rng.integers(0, n0, int(rng.integers(1, 2 * n0 + 2)))
                    if rid is not None:
                        cfgm["experiment"]["run identifier"] = rid
                    cfgm["experiment"]["event count"] = len(bmap)
                    with dclab.RTDCWriter(out, mode="reset") as hw:
                        hw.store_metadata(cfgm)
                        hw.store_feature("userdef9", np.arange(len(bmap), dtype=float))
                        hw.store_basin(basin_name="superset", basin_type="file",
                                       basin_format="hdf5", basin_locs=[cur],
                                       basin_map=bmap.astype(np.uint64), verify=False)
                elif op == "export_named":
                    # export of an explicit feature list (every scalar feature the dataset
                    # offers without further input), unfiltered or with a filter that lets
                    # everything pass
                    import dclab.definitions as dfn
                    with dclab.new_dataset(cur) as ds:
                        feats = sorted(set(ds.features_innate)
                                       | {f for f in ("time", "volume", "aspect", "tilt")
                                          if f in ds})
                        feats = [f for f in feats if dfn.scalar_feature_exists(f)]
                        allpass = bool(rng.random() < 0.5)
                        if allpass:
                            ds.apply_filter()
                        ds.export.hdf5(out, features=feats, filtered=allpass)
                elif op in ("export", "basin"):
                    with dclab.new_dataset(cur) as ds:
                        m = rng.random(len(ds)) < 0.7
                        if not m.any():
                            m[0] = True
                        ds.filter.manual[:] = m
                        ds.apply_filter()
                        feats = [f for f in ds.features_innate if rng.random() < 0.6] \
                            if op == "basin" else None
                        ds.export.hdf5(out, features=feats, filtered=True,
                                       basins=(op == "basin"))
                else:
                    with dclab.new_dataset(cur) as ds:
                        ch = dclab.new_dataset(ds)
                        query_all(ctx, ch, "child", hist)
                        gch = None
                        for rep in range(int(rng.integers(1, 5))):
                            # what changes before the refresh: the parent's filter, the
                            # parent's data (a temporary feature set / set again), or both
                            what = int(rng.integers(0, 3))
                            if what in (0, 2):
                                m = rng.random(len(ds)) < rng.uniform(0.2, 1)
                                if not m.any():
                                    m[int(rng.integers(0, len(ds)))] = True
                                ds.filter.manual[:] = m
                                ds.apply_filter()
                            if what in (1, 2):
                                _ensure_temp_feature()
                                dclab.set_temporary_feature(ds, TEMP_FEAT,
                                                            nan_scalar(rng, len(ds)))
                                ctx.count("parent_temporary_feature_set")
                                if what == 1:
                                    ctx.count("refresh_after_data_change_only")
                            if gch is None and rng.random() < 0.5:
                                ch.rejuvenate()
                                gch = dclab.new_dataset(ch)
                            (gch or ch).rejuvenate()
                            query_all(ctx, ch, "child-refreshed", hist)
                            if gch is not None:
                                query_all(ctx, gch, "grandchild-refreshed", hist)
                    hist.append(["hierarchy"])
                    steps += 1
                    continue
            except Exception as exc:
                import traceback
                ctx.ev("task_no_exception")
                ctx.violation("task_no_exception", {"op": op, "history": hist, "exc": repr(exc),
                                                    "tb": traceback.format_exc()[-1000:]},
                              message=f"production step {op} raised {exc!r}")
                break
            ctx.ev("task_no_exception")
            hist.append([op])
            steps += 1
            cur = out
            with dclab.new_dataset(cur) as ds:
                query_all(ctx, ds, op, hist)
        if nan_appends or steps >= 2:
            ctx.mark_nontrivial([n, {f: a for f, a in data.items()}, hist])
        if idx % 60 == 0:
            ctx.sample({"n": n, "features": sorted(data), "history": hist})
    finally:
        shutil.rmtree(tmp, ignore_errors=True)


def run(spec, ctx):
    from vmon.monitors import writer as wmon
    wmon.install(ctx)
    install(ctx)
    for idx in ctx.case_ids():
        try:
            run_case(ctx, idx)
        except Exception as exc:
            ctx.raised("c20.no_exception", f"case {idx}", exc)
