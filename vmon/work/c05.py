"""C05 - Young's modulus is the scaled linear interpolation of the look-up table.

Monitors (all attached to the real ``dclab.features.emodulus.get_emodulus``, rebound at every
import site; they record and never raise inside dclab)

* differential oracle ``vmon.model.c05_lut`` (own LUT parser, scaling laws, pixelation
  formula, viscosity formulas, Delaunay + own affine interpolant, own convex hull):
  ``oracle_call`` (no exception, float64 result of the input's shape), ``oracle_value``
  (every event inside the support), ``oracle_nan`` (every event outside the support),
  ``oracle_node`` (events placed on LUT nodes),
* ``inputs_unmodified`` / ``tables_unmodified``: byte snapshots of the caller's arrays, of a
  user LUT given as (array, meta), of ``EXTERNAL_LUTS`` and of the LUT file, before/after
  every observed call,
* metamorphic laws driven by the workload, each with its own evaluation count:
  ``mm_repeat`` (same call again after other calls), ``mm_permutation``, ``mm_batch`` (event
  alone / as python scalars / in a sub-batch / in a larger batch), ``mm_temp_route`` (scalar
  temperature vs constant per-event array; per-event array vs the scalar call of that
  event's temperature), ``mm_visc_prop`` E(k eta) = k E(eta), ``mm_flow_prop`` E(k Q) = k E(Q),
  ``mm_rescale`` (A s^2 | V s^3, L s, px s, Q s^3 leaves E unchanged),
* ``edge_nan_rate`` (post-run): NaN for events on triangle edges / vertices inside the
  support stays the rare event the don't-care rule describes,
* ``ds_route``: ``ds["emodulus"]`` of a dict dataset is computed by exactly one observed call
  whose arguments are the dataset's configuration (documented scenarios A, B, C) and whose
  return value is what the user gets.
"""
import hashlib
import inspect
import json
import pathlib

import numpy as np

PROP = "C05"
LEVEL = "exploration"
RULE = ("case = (LUT: 3 built-in ids | generated user LUT (area- or volume-based; jittered, "
        "scattered, regular (cocircular) or isoelastic-shaped node sets) given as str path, "
        "pathlib path, registered identifier or (array, meta)) x (channel width 10-40 um, flow "
        "rate, pixel size incl. 0) x (known medium alias x viscosity model x temperature scalar / "
        "per-event array incl. out-of-range | numeric viscosity) x batch of 1-2000 events "
        "placed inside the support, outside, on a 1e-17..1e-3 band around the hull, on LUT "
        "nodes, on triangle edges, far away and at NaN/inf, in float64/float32/int/strided/"
        "read-only/2-D arrays; every case issues ~11 calls in a shuffled order mixed with a "
        "call on another LUT. Non-trivial = base call with >=1 event judged inside, >=1 "
        "outside the support and a non-default set-up; distinct by hash of configuration "
        "and event data")
ASSUMPTIONS = [
    "the triangulation of the max-normalised LUT nodes is scipy.spatial.Delaunay (Qhull), "
    "trusted; triangle pairs with |normalised in-circle determinant| < 1e-9 accept either "
    "diagonal; the affine interpolant, point location check and convex hull are own code",
    "events closer than 1e-9 (normalised coordinates) to the hull are not judged for "
    "NaN-ness; a position error of 2e-14 (normalised) is not judged (it enters the value "
    "tolerance through the local gradient: sliver triangles of height 1e-8 exist)",
    "relative tolerance 1e-9 (5e-6 when the temperature is given in float32: the viscosity "
    "is then computed in single precision, precision is not part of the statement)",
    "events closer than 1e-12 to a triangle edge / vertex: scipy's point location may pick "
    "either adjacent triangle depending on where its walk starts (values then agree to "
    "1e-12 + gradient slack instead of bit-wise) and, about once per 1e5 such points, "
    "none (NaN inside the support, e.g. the midpoint of rows 479/359 of HE-3D-FEM-22); "
    "both are properties of the trusted library and not judged, but the NaN rate on "
    "edges is bounded by the monitor edge_nan_rate (2e-3)",
    "don't care: copy=False, extrapolate=True, numeric medium together with a temperature, "
    "unknown media, medium/model combinations without a documented model, temperatures "
    "for which the documented formula is not finite, LUT arrays that are not float64",
    "pixelation constants, viscosity models and aliases are taken from the documentation "
    "/ cited papers and written out in vmon/model/c05_lut.py",
]
LEVEL_TEXT = ("Held on the observed executions: every value returned by the real get_emodulus in "
              "thousands of generated calls (and through ds['emodulus']) equals, to 1e-9, an "
              "independent re-implementation of 'pixelation-correct, scale, normalise, Delaunay, "
              "interpolate linearly', is NaN exactly outside the convex hull of the table (up to "
              "a 1e-9 band), does not change bit-wise with batch composition, order, repetition "
              "or earlier calls, agrees between the scalar and the per-event temperature route, "
              "is proportional to viscosity and flow rate, invariant under joint geometric "
              "rescaling, and no caller array, user table, registry entry or LUT file changed. "
              "Exploration, not proof: the input space is continuous.")
LEVEL_NOTE = ("trusted: numpy, scipy.spatial.Delaunay (also used by the code under judgement via "
              "griddata), the documented constants. Not judged: see assumptions (hull band, "
              "ambiguous quads, float32 temperature precision, copy=False, extrapolate=True).")
TECHNIQUE = ("runtime monitoring of get_emodulus: differential oracle (independent interpolation "
             "model) + metamorphic laws + byte snapshots of inputs and registered tables")
WATCHDOG_S = {"quick": 400, "thorough": 3000}

N_SHARDS = 16
N_CASES = {"quick": 208, "thorough": 6000}
DS_EVERY = 4          # every 4th case reads ds["emodulus"] instead of calling directly


def min_evals(tier):
    f = 1 if tier == "quick" else 20
    return {"oracle_call": 1200 * f, "oracle_value": 15000 * f, "oracle_nan": 8000 * f,
            "oracle_node": 300 * f, "inputs_unmodified": 3000 * f, "tables_unmodified": 1200 * f,
            "mm_repeat": 1500 * f, "mm_permutation": 1500 * f, "mm_batch": 1500 * f,
            "mm_temp_route": 500 * f, "mm_visc_prop": 300 * f, "mm_flow_prop": 300 * f,
            "mm_rescale": 1000 * f, "ds_route": 15 * f}


MIN_EVALS = min_evals("quick")


def post(merged):
    """The don't-care rule 'NaN on a triangle edge / vertex is not judged' must stay a
    rare event (scipy's point location fails about once per 1e5 such points); a
    systematic NaN on nodes or edges is a violation."""
    c = merged["counters"]
    n_nan = c.get("events_nan_on_triangle_edge_or_vertex_not_judged", 0)
    n_edge = c.get("events_judged_on_triangle_edge_or_vertex", 0)
    merged["monitors"]["edge_nan_rate"] = merged["monitors"].get("edge_nan_rate", 0) + 1
    if n_nan > max(5, 2e-3 * n_edge):
        merged["violations"].append({
            "monitor": "edge_nan_rate", "finding": None, "case": None, "shard": -1,
            "spec": {"kind": "calls", "cases": []},
            "message": f"{n_nan} of {n_edge} events on triangle edges / vertices inside the "
                       f"support came back NaN (tolerated rate 2e-3)",
            "witness": {"nan_on_edges": n_nan, "events_on_edges": n_edge}})


def plan(tier, seed):
    n = N_CASES[tier]
    return [{"kind": "calls", "cases": {"start": i, "stop": n, "step": N_SHARDS}}
            for i in range(N_SHARDS)]


# ============================================================================ state
class _State:
    ctx = None
    models = {}        # digest -> LutRef
    registry = {}      # identifier -> path (shadow of what the driver registered)
    builtin = None     # identifier -> path
    last = None        # judgement of the most recent observed call
    ncalls = 0         # observed calls (all)
    log = None         # list of observed call records while a ds read is in progress
    depth = 0
    slow_budget = 4000


def _builtin_paths():
    if _State.builtin is None:
        from vmon import boot
        d = boot.REPO / "dclab" / "features" / "emodulus"
        _State.builtin = {p.name[4:-4]: p for p in sorted(d.glob("lut_*.txt"))}
    return _State.builtin


def _digest(*parts):
    h = hashlib.sha1()
    for p in parts:
        h.update(p if isinstance(p, bytes) else repr(p).encode())
    return h.hexdigest()


def _file_digest(path):
    try:
        with open(path, "rb") as fd:
            return hashlib.sha1(fd.read()).hexdigest()
    except OSError as exc:
        return f"unreadable:{exc!r}"


def _model_for(lut_data):
    """Resolve `lut_data` like the documentation says (existing path, built-in identifier,
    registered identifier, (array, meta)) and build/cache the reference model.
    Returns (LutRef, file path or None).  Raises M.Undefined for don't-care inputs."""
    from vmon.model import c05_lut as M
    path = None
    if isinstance(lut_data, tuple) and len(lut_data) == 2:
        arr, meta = lut_data
        arr = np.asarray(arr)
        if arr.dtype.kind != "f" or arr.dtype.itemsize != 8 or arr.ndim != 2 \
                or arr.shape[1] != 3:
            raise M.Undefined("LUT array is not float64 (N, 3)")
        # (either byte order: the same values)
        arr = np.ascontiguousarray(arr, dtype=np.float64)
        key = _digest(arr.tobytes(), json.dumps(meta, sort_keys=True, default=repr))
        if key not in _State.models:
            _State.models[key] = M.LutRef(arr, meta)
        return _State.models[key], None
    if isinstance(lut_data, (str, pathlib.Path)):
        if lut_data == "FEM-2Daxis":
            lut_data = "LE-2D-FEM-19"
        if pathlib.Path(lut_data).exists():
            path = pathlib.Path(lut_data)
        elif lut_data in _builtin_paths():
            path = _builtin_paths()[lut_data]
        elif lut_data in _State.registry:
            path = pathlib.Path(_State.registry[lut_data])
        else:
            raise M.Undefined(f"unknown LUT {lut_data!r}")
        key = _file_digest(path)
        if key not in _State.models:
            data, meta = M.parse_lut_file(path)
            _State.models[key] = M.LutRef(data, meta)
        return _State.models[key], path
    raise M.Undefined(f"lut_data of type {type(lut_data).__name__}")


# ========================================================================= monitors
def _snap_array(a):
    if isinstance(a, np.ndarray):
        return (a.dtype.str, a.shape, a.strides, bool(a.flags.writeable),
                hashlib.sha1(np.ascontiguousarray(a).tobytes()).hexdigest())
    return None


def _snap_tables(lut_data, path):
    from dclab.features.emodulus import load
    snap = {"registry": sorted((str(k), str(v)) for k, v in load.EXTERNAL_LUTS.items()),
            "registry_id": id(load.EXTERNAL_LUTS)}
    if isinstance(lut_data, tuple) and len(lut_data) == 2:
        snap["tuple_array"] = _snap_array(np.asarray(lut_data[0]))
        snap["tuple_meta"] = json.dumps(lut_data[1], sort_keys=True, default=repr)
    if path is not None:
        snap["file"] = _file_digest(path)
    return snap


def _is_number(x):
    import numbers
    return isinstance(x, numbers.Number) and not isinstance(x, bool)


def _judge_call(ctx, a, res, exc, model):
    """Differential oracle for one observed call. Returns the judgement dict or None."""
    from vmon.model import c05_lut as M
    if a["copy"] is not True or a["extrapolate"]:
        ctx.count("dc_copy_false_or_extrapolate")
        return None
    if model is None:
        ctx.count("dc_lut_not_resolvable")
        return None
    lut = model
    x_arg = a["area_um"] if lut.featx == "area_um" else a["volume"]
    other = a["volume"] if lut.featx == "area_um" else a["area_um"]
    if x_arg is None or other is not None:
        ctx.count("dc_wrong_abscissa_for_lut")
        return None
    try:
        x = np.asarray(x_arg, dtype=np.float64)
        deform = np.asarray(a["deform"], dtype=np.float64)
        shape = np.broadcast_shapes(x.shape, deform.shape)
    except Exception:
        ctx.count("dc_inputs_not_numeric")
        return None
    lw, fq, px = a["channel_width"], a["flow_rate"], a["px_um"]
    if not (_is_number(lw) and _is_number(fq) and _is_number(px) and lw > 0 and fq > 0
            and px >= 0):
        ctx.count("dc_setup_not_positive_numbers")
        return None
    medium, temp = a["medium"], a["temperature"]
    rtol = M.RTOL
    if _is_number(medium):
        if temp is not None:
            ctx.count("dc_numeric_medium_with_temperature")
            return None
        eta = float(medium)
        route = "numeric"
    else:
        if temp is None:
            ctx.count("dc_known_medium_without_temperature")
            return None
        try:
            eta = M.viscosity(medium, a["visc_model"], lw, fq, temp)
        except M.Undefined:
            ctx.count("dc_no_documented_viscosity_model")
            return None
        tt = np.asarray(temp)
        if tt.dtype == np.float32:
            rtol = 5e-6
            ctx.count("float32_temperature_calls")
        if tt.ndim > 0:
            route = "per_event_T"
            try:
                shape = np.broadcast_shapes(shape, tt.shape)
            except Exception:
                ctx.count("dc_temperature_shape")
                return None
        else:
            route = "scalar_T"
    # ---- from here on the call is in the judged domain
    ok = exc is None and isinstance(res, np.ndarray) and res.dtype == np.float64 \
        and res.shape == shape
    ctx.check("oracle_call", ok,
              lambda: {"call": _describe(a), "exc": repr(exc),
                       "result_type": type(res).__name__,
                       "result_shape": getattr(res, "shape", None), "expected_shape": shape},
              message=(f"get_emodulus raised {exc!r}" if exc is not None else
                       f"result {type(res).__name__} shape {getattr(res, 'shape', None)}, "
                       f"expected float64 array of shape {shape}"))
    if not ok:
        return None
    xb = np.broadcast_to(x, shape).ravel()
    db = np.broadcast_to(deform, shape).ravel()
    eb = np.broadcast_to(np.asarray(eta, dtype=np.float64), shape).ravel() \
        if np.ndim(eta) else float(eta)
    xn, yn, scale = M.setup_mapping(lut, xb, db, lw, fq, px, eb)
    scale = np.broadcast_to(scale, xb.shape)
    got = res.ravel()
    undefined = ~np.isfinite(scale)
    if _State.slow_budget <= 0:
        lut.SLOW_PATH_CAP = 0
    ev, verdict = lut.judge(xn, yn, got, np.where(undefined, 1.0, scale), rtol=rtol)
    _State.slow_budget -= ev.get("n_slow", 0)
    ctx.count("events_brute_force_candidate_search", ev.get("n_slow", 0))
    verdict = np.where(undefined, 6, verdict)
    n_und = int(undefined.sum())
    if n_und:
        ctx.count("dc_events_with_non_finite_viscosity", n_und)
    cnt = {int(k): int(v) for k, v in zip(*np.unique(verdict, return_counts=True))}
    n_value = sum(cnt.get(k, 0) for k in (0, 3, 4, -1, -2))
    n_nan = cnt.get(1, 0) + cnt.get(-3, 0)
    ctx.ev("oracle_value", n_value)
    ctx.ev("oracle_nan", n_nan)
    ctx.count("events_inside_ok", cnt.get(0, 0))
    ctx.count("events_outside_nan_ok", cnt.get(1, 0))
    ctx.count("events_hull_band_nan_not_judged", cnt.get(2, 0))
    ctx.count("events_ok_via_neighbour_triangle", cnt.get(3, 0))
    ctx.count("events_ok_via_flipped_diagonal", cnt.get(4, 0))
    ctx.count("events_model_gap_not_judged", cnt.get(5, 0))
    ctx.count("events_nan_on_triangle_edge_or_vertex_not_judged", cnt.get(7, 0))
    with np.errstate(invalid="ignore"):
        ctx.count("events_judged_on_triangle_edge_or_vertex",
                  int(((ev["edge_dist"] < M.EDGE_BAND) & (ev["cls"] == 0)).sum()))
    ctx.count("events_in_ambiguous_triangles", int(ev["ambiguous"].sum()))
    ctx.count("events_located_by_brute_force", int((ev["located_by"] == 2).sum()))
    ctx.count(f"route[{route}]")
    if n_value:
        mx = float(np.nanmax(np.where(verdict == 0, ev["err"], 0.0)))
        b = "0" if mx == 0 else f"1e{int(np.ceil(np.log10(mx)))}"
        ctx.count(f"max_rel_err_of_call<={b}")
    for code, mon, what in ((-1, "oracle_value", "value differs from the interpolant"),
                            (-2, "oracle_value", "NaN inside the support"),
                            (-3, "oracle_nan", "number outside the support")):
        bad = np.nonzero(verdict == code)[0]
        for i in bad[:2]:
            ctx.violation(mon, _witness(a, lut, ev, i, got, scale, route),
                          message=f"{what}: event {int(i)} got {got[i]!r}, expected "
                                  f"{ev['expected'][i]!r} (hull distance {ev['hd'][i]:.3g}, "
                                  f"route {route})")
        if len(bad) > 2:
            ctx.count(f"violating_events_not_listed[{mon}]", len(bad) - 2)
    return {"ev": ev, "verdict": verdict, "scale": scale, "route": route, "lut": lut,
            "rtol": rtol}


def _describe(a):
    out = {}
    for k, v in a.items():
        if isinstance(v, np.ndarray):
            out[k] = {"dtype": str(v.dtype), "shape": list(v.shape),
                      "head": v.ravel()[:4].tolist()}
        elif isinstance(v, tuple) and len(v) == 2 and isinstance(v[0], np.ndarray):
            out[k] = {"lut_array_shape": list(v[0].shape),
                      "meta": {kk: vv for kk, vv in v[1].items()
                               if kk in ("channel_width", "flow_rate", "fluid_viscosity",
                                         "column features")}}
        else:
            out[k] = v if isinstance(v, (int, float, str, bool, type(None))) else repr(v)
    return out


def _witness(a, lut, ev, i, got, scale, route):
    i = int(i)
    n = ev["cls"].size

    def pick(v):
        if v is None or isinstance(v, str):
            return v
        arr = np.asarray(v, dtype=float)
        if arr.ndim == 0:
            return float(arr)
        arr = arr.ravel()
        return float(arr[i]) if arr.size == n else arr[:4].tolist()
    x_arg = a["area_um"] if lut.featx == "area_um" else a["volume"]
    return {"call": _describe(a), "event": i, "route": route, lut.featx: pick(x_arg),
            "deform": pick(a["deform"]), "temperature_i": pick(a["temperature"]),
            "normalised_point": ev["pts"][i].tolist(), "hull_distance": float(ev["hd"][i]),
            "triangle": int(ev["tri"][i]), "got": float(got[i]),
            "expected": float(ev["expected"][i]), "tolerance": float(ev["tol"][i]),
            "scale": float(scale[i]), "ambiguous_triangle": bool(ev["ambiguous"][i])}


def _make_wrapper(orig):
    sig = inspect.signature(orig)

    def get_emodulus(*args, **kwargs):
        ctx = _State.ctx
        if ctx is None or _State.depth:
            return orig(*args, **kwargs)
        _State.depth += 1
        pre = None
        try:
            try:
                ba = sig.bind(*args, **kwargs)
                ba.apply_defaults()
                a = dict(ba.arguments)
                model, path = None, None
                try:
                    model, path = _model_for(a["lut_data"])
                except Exception as exc:   # Undefined or unparsable: not judged
                    if type(exc).__name__ != "Undefined":
                        ctx.count(f"dc_lut_model_failed[{type(exc).__name__}]")
                arrays = {k: a[k] for k in ("deform", "area_um", "volume", "temperature")
                          if isinstance(a[k], np.ndarray)}
                pre = (a, model, path, {k: _snap_array(v) for k, v in arrays.items()},
                       _snap_tables(a["lut_data"], path), arrays)
            except Exception as exc:
                ctx.error("c05 monitor (pre)", exc)
            res, err = None, None
            try:
                res = orig(*args, **kwargs)
            except Exception as exc:
                err = exc
            if pre is not None:
                try:
                    _after_call(ctx, pre, res, err)
                except Exception as exc:
                    ctx.error("c05 monitor (post)", exc)
            if err is not None:
                raise err
            return res
        finally:
            _State.depth -= 1
    return get_emodulus


def _after_call(ctx, pre, res, err):
    a, model, path, snaps, tables, arrays = pre
    _State.ncalls += 1
    copy_ok = a["copy"] is True
    for k, arr in arrays.items():
        if not copy_ok:
            ctx.count("dc_copy_false_inputs_not_judged")
            continue
        now = _snap_array(arr)
        ctx.check("inputs_unmodified", now == snaps[k],
                  lambda: {"call": _describe(a), "argument": k, "before": snaps[k],
                           "after": now, "aliases_result": bool(
                               isinstance(res, np.ndarray) and np.shares_memory(res, arr))},
                  message=f"the caller's `{k}` array was modified by get_emodulus")
        if isinstance(res, np.ndarray) and np.shares_memory(res, arr):
            ctx.violation("inputs_unmodified", {"call": _describe(a), "argument": k},
                          message=f"the result shares memory with the caller's `{k}` array")
    after = _snap_tables(a["lut_data"], path)
    ctx.check("tables_unmodified", after == tables,
              lambda: {"call": _describe(a),
                       "changed": [k for k in tables if tables[k] != after.get(k)]},
              message="a registered / user supplied look-up table changed during the call: "
                      + ", ".join(k for k in tables if tables[k] != after.get(k)))
    judgement = _judge_call(ctx, a, res, err, model)
    _State.last = judgement
    if _State.log is not None:
        _State.log.append({"args": a, "result": res, "exc": err, "judgement": judgement})


_installed = False


def install():
    global _installed
    if _installed:
        return
    _installed = True
    from dclab.features import emodulus
    from vmon.contracts import wrap_function
    sites = wrap_function(emodulus, "get_emodulus", _make_wrapper)
    if "dclab.features.emodulus.get_emodulus" not in sites:
        raise RuntimeError(f"get_emodulus not rebound: {sites}")


# ======================================================================== generators
CHANNEL_WIDTHS = [10.0, 15.0, 20.0, 30.0, 40.0, 20, 30]
FLOW_RATES = [0.01, 0.02, 0.04, 0.06, 0.08, 0.12, 0.16, 0.24, 0.32, 0.48, 0.64, 1.2]
PIXEL_SIZES = [0, 0.0, 0.34, 0.34, 0.27, 0.2, 0.5, 0.68]
MODELS = ["herold-2017", "herold-2017-fallback", "buyukurganci-2022", "kestin-1978"]
T_RANGE = {"herold-2017": (18.0, 26.0), "herold-2017-fallback": (18.0, 26.0),
           "buyukurganci-2022": (22.0, 37.0), "kestin-1978": (0.5, 40.0)}


def gen_user_lut(rng, ident):
    """Small generated LUT. Returns (data rounded to the text precision, meta, featx)."""
    featx = "area_um" if rng.random() < 0.5 else "volume"
    style = str(rng.choice(["jitter", "scatter", "grid", "iso"]))
    nx, ny = int(rng.integers(5, 18)), int(rng.integers(5, 14))
    xlo, xhi = (20.0, float(rng.uniform(150, 320))) if featx == "area_um" \
        else (150.0, float(rng.uniform(2000, 6000)))
    dlo, dhi = 0.002, float(rng.uniform(0.06, 0.2))
    u, v = np.meshgrid(np.linspace(0, 1, nx), np.linspace(0, 1, ny))
    u, v = u.ravel(), v.ravel()
    if style == "jitter":
        u = u + rng.uniform(-0.35, 0.35, u.size) / (nx - 1)
        v = v + rng.uniform(-0.35, 0.35, v.size) / (ny - 1)
    elif style == "scatter":
        u, v = rng.random(u.size), rng.random(v.size)
    elif style == "iso":
        v = v * (0.25 + 0.75 * u) + 0.02 * rng.random(v.size)
    u, v = np.clip(u, 0, 1.05), np.clip(v, 0, 1.05)
    x = xlo + (xhi - xlo) * u
    d = dlo + (dhi - dlo) * v
    e = 0.3 + 25 * np.exp(-d / 0.03) * (0.6 + 0.8 * u) + 0.05 * rng.random(u.size)
    data = np.column_stack([x, d, e])
    data = np.array([[float(f"{val:.5e}") for val in row] for row in data])
    data = np.unique(data, axis=0)
    meta = {"channel_width": float(rng.choice([15.0, 20.0, 30.0])),
            "channel_width_unit": "um",
            "flow_rate": float(rng.choice([0.04, 0.08, 0.16])), "flow_rate_unit": "uL/s",
            "fluid_viscosity": float(rng.choice([1.0, 6.0, 15.0])),
            "fluid_viscosity_unit": "mPa s", "identifier": ident, "method": "generated",
            "style": style}
    return data, meta, featx, style


def gen_setup(rng, lut=None):
    r = rng.random()
    if r < 0.08:
        return {}          # all defaults
    s = {}
    if lut is not None and r < 0.22:
        # the geometry the LUT was simulated for: the "nothing to scale" branch of the
        # geometry conversion (with every way of giving the viscosity)
        s["channel_width"] = float(lut.l0)
        s["flow_rate"] = float(lut.q0)
        s["px_um"] = rng.choice(np.array(PIXEL_SIZES, dtype=object))
        return s
    s["channel_width"] = rng.choice(np.array(CHANNEL_WIDTHS, dtype=object)) \
        if rng.random() < 0.7 else float(rng.uniform(10, 40))
    s["flow_rate"] = float(rng.choice(FLOW_RATES)) if rng.random() < 0.7 \
        else float(np.exp(rng.uniform(np.log(0.005), np.log(2.0))))
    s["px_um"] = rng.choice(np.array(PIXEL_SIZES, dtype=object)) if rng.random() < 0.7 \
        else float(rng.uniform(0.1, 0.8))
    return s


def gen_viscosity(rng, n, shape, lut):
    """Returns (kwargs, description)."""
    from vmon.model import c05_lut as M
    if rng.random() < 0.35:
        r = rng.random()
        if r < 0.15:
            eta = lut.eta0                      # "no change" branch of the scaling
        elif r < 0.3:
            eta = int(rng.choice([1, 6, 15, 25]))
        elif r < 0.4:
            eta = np.float64(rng.uniform(0.5, 50))
        else:
            eta = float(np.exp(rng.uniform(np.log(0.5), np.log(60.0))))
        return {"medium": eta, "temperature": None, "visc_model": None}, "numeric"
    alias = str(rng.choice(sorted(M.ALIASES)))
    model = str(rng.choice(MODELS, p=[0.3, 0.15, 0.45, 0.1]))
    if M.ALIASES[alias] == "water" and rng.random() < 0.5:
        model = "kestin-1978"
    if rng.random() < 0.9:
        # mostly combinations for which the documentation defines a model
        if M.ALIASES[alias] == "0.83% MC-PBS":
            model = "buyukurganci-2022"
        elif M.ALIASES[alias] != "water" and model == "kestin-1978":
            model = str(rng.choice(["herold-2017", "buyukurganci-2022"]))
    lo, hi = T_RANGE[model if M.ALIASES[alias] != "water" else "kestin-1978"]
    r = rng.random()
    if r < 0.45:          # scalar
        q = rng.random()
        if q < 0.6:
            temp = float(rng.uniform(lo, hi))
        elif q < 0.75:
            temp = float(rng.uniform(hi, 60)) if lo < 6 or rng.random() < 0.5 \
                else float(rng.uniform(5, lo))
        elif q < 0.85:
            temp = int(rng.integers(int(np.ceil(lo)), int(hi) + 1))
        elif q < 0.95:
            temp = np.float64(rng.uniform(lo, hi))
        else:
            temp = np.float32(rng.uniform(lo, hi))
        kind = "scalar_T"
    else:
        q = rng.random()
        if q < 0.2:
            temp = np.full(shape, float(rng.uniform(lo, hi)))
        elif q < 0.32:
            # the temperature sensor is read less often than events are recorded: plateaus
            m = int(rng.integers(2, 9))
            temp = np.repeat(rng.uniform(lo, hi, m), -(-n // m))[:n].reshape(shape)
        elif q < 0.45:
            temp = np.linspace(lo, hi, n).reshape(shape)
        elif q < 0.8:
            temp = rng.uniform(lo, hi, n).reshape(shape)
        else:
            temp = rng.uniform(5, 60, n).reshape(shape)
        if rng.random() < 0.06:
            temp = temp.astype(np.float32)
        kind = "array_T"
    return {"medium": alias, "temperature": temp, "visc_model": model}, kind


POINT_KINDS = ["in_triangle", "bbox", "hull_band", "node", "edge", "far", "special"]
POINT_P = [0.34, 0.2, 0.16, 0.1, 0.08, 0.08, 0.04]
SPECIALS = [np.nan, np.inf, -np.inf, 0.0, -1.0, 1e308, 1e-300]


def gen_points(rng, lut, n):
    """Normalised target points and their class; node index where applicable."""
    kinds = rng.choice(len(POINT_KINDS), size=n, p=POINT_P)
    # make sure that batches of >= 4 have something inside and something outside
    if n >= 4:
        kinds[0], kinds[1], kinds[2] = 0, 5, 3
        rng.shuffle(kinds)
    p = np.zeros((n, 2))
    node = np.full(n, -1, dtype=np.int64)
    ntri = len(lut.simp)
    for i in range(n):
        k = kinds[i]
        if k == 0:
            t = int(rng.integers(ntri))
            w = rng.dirichlet([1.0, 1.0, 1.0])
            p[i] = w @ lut.nodes[lut.simp[t]]
        elif k == 1:
            p[i] = rng.uniform(-0.08, 1.12, 2)
        elif k == 2:
            e = int(rng.integers(len(lut.hull_a)))
            t = float(rng.choice([0.0, 1.0, 0.5, rng.random(), rng.random()]))
            s = float(rng.choice([0.0, 1.0, -1.0])) * 10.0 ** rng.uniform(-17, -3)
            p[i] = lut.hull_a[e] + t * (lut.hull_b[e] - lut.hull_a[e]) + s * lut.hull_n[e]
        elif k == 3:
            node[i] = int(rng.integers(len(lut.nodes)))
            p[i] = lut.nodes[node[i]]
        elif k == 4:
            t = int(rng.integers(ntri))
            a, b = rng.choice(3, size=2, replace=False)
            w = float(rng.choice([0.5, rng.random(), 1e-12, 1 - 1e-12]))
            p[i] = w * lut.nodes[lut.simp[t, a]] + (1 - w) * lut.nodes[lut.simp[t, b]]
        elif k == 5:
            p[i] = rng.uniform(-0.5, 1.5, 2) * 10.0 ** rng.uniform(0, 4) * rng.choice([1, 1, -1])
        else:
            p[i] = rng.uniform(0.1, 0.9, 2)
    return p, kinds, node


def as_variant(rng, arr, allow_int=False):
    """Return the array in one of several dtypes / layouts (values may be rounded)."""
    r = rng.random()
    if r < 0.66:
        return arr.copy(), "float64"
    if r < 0.76:
        return arr.astype(np.float32), "float32"
    if r < 0.86:
        buf = np.empty(arr.shape[:-1] + (arr.shape[-1] * 2,), dtype=np.float64)
        buf[...] = -12345.0
        view = buf[..., ::2]
        view[...] = arr
        return view, "strided"
    if r < 0.96 or not allow_int:
        out = arr.copy()
        out.flags.writeable = False
        return out, "readonly"
    with np.errstate(invalid="ignore", over="ignore"):
        out = np.where(np.isfinite(arr) & (np.abs(arr) < 1e15), np.round(arr), 0).astype(np.int64)
    return out, "int64"


# ============================================================================ cases
def _call(ctx, kwargs):
    """Call the (monitored) function; an exception is recorded by the monitor when the
    call is in the judged domain. Returns (result or None, judgement or None)."""
    from dclab.features import emodulus
    _State.last = None
    try:
        res = emodulus.get_emodulus(**kwargs)
    except Exception as exc:
        ctx.count(f"calls_raising[{type(exc).__name__}]")
        return None, _State.last
    return res, _State.last


def _same(a, b):
    return isinstance(a, np.ndarray) and isinstance(b, np.ndarray) and a.shape == b.shape \
        and bool(np.array_equal(a, b, equal_nan=True))


def _law_exact(ctx, mon, got, want, desc, what, soft=None, nev=None):
    """Bit-level law (NaN == NaN).  Events flagged `soft` (on a triangle edge / vertex to
    within 1e-12, where either adjacent triangle may be picked by the point location, or
    in the hull band) are compared to 1e-12 + gradient slack, NaN-ness not judged."""
    from vmon.model import c05_lut as M
    if got is None or want is None:
        ctx.count(f"law_skipped_call_failed[{mon}]")
        return
    got = np.asarray(got)
    want = np.asarray(want)
    n = int(want.size) if nev is None else nev
    ctx.ev(mon, max(n, 1))
    if got.shape != want.shape:
        ctx.violation(mon, dict(desc, law=what, shape_got=list(got.shape),
                                shape_want=list(want.shape)),
                      message=f"{what}: shape {got.shape} != {want.shape}")
        return
    with np.errstate(invalid="ignore"):
        ne = ~((got == want) | (np.isnan(got) & np.isnan(want)))
    ne = ne.ravel()
    if not ne.any():
        return
    if soft is not None:
        soft, slack, nan_free = (np.asarray(v).ravel() for v in soft)
        g, w = got.ravel().astype(float), want.ravel().astype(float)
        close = M.isclose_rel(g, w, 1e-12, slack) | (nan_free & (np.isnan(g) | np.isnan(w)))
        tolerated = ne & soft & close
        ctx.count(f"law_events_on_edge_or_band_equal_to_1e-12[{mon}]", int(tolerated.sum()))
        ne = ne & ~tolerated
        if not ne.any():
            return
    i = int(np.nonzero(ne)[0][0])
    g, w = float(got.ravel()[i]), float(want.ravel()[i])
    wit = dict(desc, law=what, index_in_comparison=i, got=g, want=w, n_differing=int(ne.sum()),
               rel_diff=abs(g - w) / max(abs(w), 1e-300) if np.isfinite(g) and np.isfinite(w)
               else None)
    ctx.violation(mon, wit, message=f"{what}: event {i} gives {g!r} instead of {w!r} "
                                    f"({int(ne.sum())} events differ)")


def _law_close(ctx, mon, got, want, rtol, slack, loose, desc, what, nan_free=None):
    """Law up to rounding: same NaN pattern and |got - want| <= rtol*|want| + slack for all
    events that are not `loose` (hull band / ambiguous quad / no model triangle)."""
    from vmon.model import c05_lut as M
    if got is None or want is None:
        ctx.count(f"law_skipped_call_failed[{mon}]")
        return
    got = np.asarray(got, dtype=float).ravel()
    want = np.asarray(want, dtype=float).ravel()
    if got.shape != want.shape:
        ctx.ev(mon)
        ctx.violation(mon, dict(desc, law=what, shape_got=list(got.shape),
                                shape_want=list(want.shape)), message=f"{what}: shapes differ")
        return
    judged = ~loose
    if nan_free is not None:
        # NaN-ness of events on a triangle edge / vertex is not judged
        judged = judged & ~(nan_free & (np.isnan(got) | np.isnan(want)))
    ctx.ev(mon, max(int(judged.sum()), 1))
    ctx.count(f"law_events_not_judged_band_or_ambiguous[{mon}]", int(loose.sum()))
    ok = M.isclose_rel(got, want, rtol, slack)
    bad = np.nonzero(judged & ~ok)[0]
    if bad.size:
        i = int(bad[0])
        g, w = float(got[i]), float(want[i])
        ctx.violation(mon, dict(desc, law=what, index_in_comparison=i, got=g, want=w,
                                n_bad=int(bad.size),
                                rel_diff=abs(g - w) / max(abs(w), 1e-300)
                                if np.isfinite(g) and np.isfinite(w) else None),
                      message=f"{what}: event {i} gives {g!r}, law demands {w!r} "
                              f"({bad.size} events)")


def build_lut(ctx, rng, idx, force_area=False):
    """Choose the LUT of a case and materialise it.
    Returns (lut_data argument, LutRef, description)."""
    from dclab.features import emodulus
    from vmon import boot
    from vmon.model import c05_lut as M
    r = rng.random()
    builtin = sorted(_builtin_paths())
    if r < 0.5:
        name = str(rng.choice(builtin, p=_builtin_p(builtin)))
        arg = name
        if name == "LE-2D-FEM-19" and rng.random() < 0.05:
            arg = "FEM-2Daxis"          # deprecated alias of the documentation
        lut, _ = _model_for(arg)
        desc = {"lut": arg, "lut_route": "builtin"}
        if rng.random() < 0.2:
            # earlier in the process the client tried to register its own table under the
            # name of this built-in one (an edited copy whose identifier was not changed);
            # the documented refusal was caught and work goes on with the built-in table
            from dclab.features.emodulus import load
            data, meta, featx, _style = gen_user_lut(rng, name)
            path = boot.scratch() / f"lut_refused_{ctx.seed}_{idx}_{_State.ncalls}.txt"
            path.write_text(M.format_lut_text(data, meta, featx))
            before = sorted((str(k), str(v)) for k, v in load.EXTERNAL_LUTS.items())
            try:
                if rng.random() < 0.5:
                    emodulus.register_lut(path, identifier=name)
                else:
                    emodulus.register_lut(path)
            except ValueError:
                ctx.count("registrations_refused_for_builtin_identifier")
                desc["history"] = "refused registration under this identifier"
                after = sorted((str(k), str(v)) for k, v in load.EXTERNAL_LUTS.items())
                ctx.check("c05.tables_unmodified", before == after,
                          lambda: dict(desc, registry_before=before, registry_after=after),
                          message="a refused register_lut() call changed the registry of "
                                  "external tables")
            else:
                ctx.count("registrations_accepted_for_builtin_identifier")
        return arg, lut, desc
    for attempt in range(20):
        ident = f"vmon-{ctx.seed}-{idx}-{_State.ncalls}-{attempt}"
        data, meta, featx, style = gen_user_lut(rng, ident)
        if force_area and featx != "area_um":
            continue
        break
    route = str(rng.choice(["tuple", "path_str", "path_obj", "identifier", "identifier_meta"]))
    if force_area:
        route = str(rng.choice(["identifier", "identifier_meta"]))
    meta_full = dict(meta)
    meta_full["column features"] = [featx, "deform", "emodulus"]
    desc = {"lut": ident, "lut_route": route, "lut_featx": featx, "lut_style": style,
            "lut_nodes": int(len(data)), "lut_L0": meta["channel_width"],
            "lut_Q0": meta["flow_rate"], "lut_eta0": meta["fluid_viscosity"]}
    if route == "tuple":
        arr = data.copy()
        q = rng.random()
        if q < 0.2:
            arr = arr.astype(">f8")                 # same values, non-native byte order
            desc["lut_array"] = "big-endian float64"
        elif q < 0.3:
            arr = np.asfortranarray(arr)
            desc["lut_array"] = "Fortran order"
        if "lut_array" in desc:
            ctx.count(f"lut_tuple_array[{desc['lut_array']}]")
        arg = (arr, meta_full)
        if rng.random() < 0.3:
            arg[0].flags.writeable = False
    else:
        path = boot.scratch() / f"lut_{ctx.seed}_{idx}_{_State.ncalls}.txt"
        path.write_text(M.format_lut_text(data, meta, featx))
        if route == "path_str":
            arg = str(path)
        elif route == "path_obj":
            arg = path
        else:
            if route == "identifier":
                emodulus.register_lut(path, identifier=ident)
            else:
                emodulus.register_lut(path)        # identifier from the metadata
            _State.registry[ident] = str(path)
            arg = ident
    lut, _ = _model_for(arg)
    desc["lut_ambiguous_pairs"] = lut.n_ambiguous_pairs
    return arg, lut, desc


def _builtin_p(names):
    w = np.array([{"LE-2D-FEM-19": 0.3, "HE-2D-FEM-22": 0.2, "HE-3D-FEM-22": 0.5}.get(n, 0.3)
                  for n in names])
    return w / w.sum()


def gen_batch_size(rng, tier):
    r = rng.random()
    if r < 0.05:
        return 1
    if r < 0.2:
        return int(rng.integers(2, 11))
    if r < 0.8:
        return int(rng.integers(11, 101))
    return int(rng.integers(101, 2001))


def run_direct(ctx, idx):
    from vmon.model import c05_lut as M
    rng = ctx.rng(idx)
    lut_arg, lut, desc = build_lut(ctx, rng, idx)
    setup = gen_setup(rng, lut)
    if setup and setup.get("channel_width") == lut.l0 and setup.get("flow_rate") == lut.q0:
        ctx.count("setups_with_the_lut_reference_geometry")
    lw = setup.get("channel_width", 20.0)
    fq = setup.get("flow_rate", 0.16)
    px = setup.get("px_um", 0.34)
    n = gen_batch_size(rng, ctx.tier)
    shape = (n,)
    if n >= 4 and n % 2 == 0 and rng.random() < 0.04:
        shape = (n // 2, 2)
    pn, kinds, node = gen_points(rng, lut, n)
    x, d = M.inverse_mapping(lut, pn[:, 0], pn[:, 1], lw, px)
    for i in np.nonzero(kinds == 6)[0]:
        if rng.random() < 0.5:
            x[i] = rng.choice(SPECIALS)
        else:
            d[i] = rng.choice(SPECIALS)
    x, xv = as_variant(rng, x.reshape(shape), allow_int=True)
    d, dv = as_variant(rng, d.reshape(shape))
    visc_kw, vkind = gen_viscosity(rng, n, shape, lut)
    xkey = lut.featx
    base = dict(setup)
    base.update(visc_kw)
    base.update({"deform": d, xkey: x, "lut_data": lut_arg})
    desc.update({"case": idx, "n": n, "shape": list(shape), "setup": {k: (v if not isinstance(
        v, np.generic) else v.item()) for k, v in setup.items()}, "x_variant": xv,
        "deform_variant": dv, "viscosity": vkind,
        "medium": visc_kw["medium"] if isinstance(visc_kw["medium"], str)
        else float(visc_kw["medium"]), "visc_model": visc_kw["visc_model"],
        "temperature": (float(np.asarray(visc_kw["temperature"]).ravel()[0])
                        if visc_kw["temperature"] is not None else None)})
    scalar_call = (n == 1 and rng.random() < 0.5 and vkind != "array_T")
    if scalar_call:
        base["deform"] = float(np.asarray(d, dtype=float).ravel()[0])
        base[xkey] = float(np.asarray(x, dtype=float).ravel()[0])
        desc["scalar_inputs"] = True
    ctx.count(f"lut_route[{desc['lut_route']}]")
    ctx.count(f"lut[{desc['lut'] if desc['lut_route'] == 'builtin' else 'user-' + desc['lut_featx'] + '-' + desc['lut_style']}]")
    ctx.count(f"viscosity[{vkind}]")
    ctx.count(f"batch_size<={10 ** int(np.ceil(np.log10(max(n, 1)))) if n > 1 else 1}")

    # ---------------------------------------------------------------- base call
    e0, j0 = _call(ctx, base)
    if e0 is None or j0 is None:
        ctx.count("cases_base_call_not_judged" if e0 is not None else "cases_base_call_raised")
    if e0 is None:
        return
    e0 = np.array(e0, copy=True)
    if idx % 9 == 4 and isinstance(visc_kw["medium"], str) and visc_kw["visc_model"] \
            and not scalar_call:
        # the same events as part of a long measurement in one call: more than 10 000 events,
        # the temperature read less often than events are recorded (plateaus)
        from vmon.model import c05_lut as M_
        alias, vm = visc_kw["medium"], visc_kw["visc_model"]
        lo_, hi_ = T_RANGE[vm if M_.ALIASES[alias] != "water" else "kestin-1978"]
        N = int(rng.choice([10001, 12000, 24000]))
        mpl = int(rng.integers(2, 9))
        tl = np.repeat(rng.uniform(lo_, hi_, mpl), -(-N // mpl))[:N]
        kwl = dict(base)
        kwl["deform"] = np.resize(np.asarray(d, dtype=float).reshape(-1), N)
        kwl[xkey] = np.resize(np.asarray(x, dtype=float).reshape(-1), N)
        kwl["temperature"] = tl
        _call(ctx, kwl)
        ctx.count("long_measurement_calls")
    nontrivial = False
    loose = np.zeros(e0.size, dtype=bool)
    soft = np.ones(e0.size, dtype=bool)
    nan_free = np.ones(e0.size, dtype=bool)
    slack = np.zeros(e0.size)
    slack_soft = np.zeros(e0.size)
    if j0 is not None:
        v = j0["verdict"]
        ev = j0["ev"]
        for k, name in enumerate(POINT_KINDS):
            ctx.count(f"events[{name}]", int((kinds == k).sum()))
        nontrivial = bool((v == 0).any() and (v == 1).any() and setup)
        loose = (ev["cls"] == 1) | ev["ambiguous"] | ((ev["cls"] == 0) & (ev["tri"] < 0)) \
            | (v == 6)
        slack = 8 * M.POS_DELTA * ev["grad1"] * np.abs(np.where(np.isfinite(j0["scale"]),
                                                                j0["scale"], 0.0))
        # events on a triangle edge / vertex: either adjacent triangle may be picked by the
        # point location; the interpolant is continuous there, so the values agree up to
        # the rounding of the steepest adjacent triangle
        with np.errstate(invalid="ignore"):
            on_edge = ~(ev["edge_dist"] >= M.EDGE_BAND) & (ev["cls"] < 2)
        soft = loose | on_edge
        nan_free = loose | on_edge
        slack_soft = 8 * M.POS_DELTA * ev["grad1_nbhd"] * np.abs(
            np.where(np.isfinite(j0["scale"]), j0["scale"], 0.0))
        ctx.count("events_on_triangle_edge_or_vertex", int((soft & ~loose).sum()))
        # ---- exactness at LUT nodes
        got = e0.ravel()
        for i in np.nonzero(node >= 0)[0]:
            if xv in ("float32", "int64") or dv == "float32" or scalar_call and i > 0:
                ctx.count("node_events_rounded_by_dtype_not_judged")
                continue
            want = lut.values[node[i]] * j0["scale"][i]
            if not np.isfinite(want):
                continue
            if np.isnan(got[i]) and (ev["cls"][i] == 1 or v[i] == 7):
                ctx.count("node_on_hull_or_unlocated_nan_not_judged")
                continue
            tol = M.RTOL * abs(want) + 50 * M.POS_DELTA * lut.node_grad1[node[i]] \
                * abs(j0["scale"][i])
            ctx.check("oracle_node", abs(got[i] - want) <= max(tol, j0["rtol"] * abs(want)),
                      lambda: dict(desc, event=int(i), node=int(node[i]),
                                   node_xy=lut.nodes[node[i]].tolist(), got=float(got[i]),
                                   want=float(want), tol=float(tol)),
                      message=f"event on LUT node {int(node[i])}: got {got[i]!r}, the scaled "
                              f"table value is {want!r}")
    if nontrivial:
        ctx.mark_nontrivial([desc, hashlib.sha1(np.ascontiguousarray(x).tobytes()
                                                + np.ascontiguousarray(d).tobytes()).hexdigest()])
    if idx % 53 == 0:
        ctx.sample(dict(desc, first_events={xkey: np.asarray(x, dtype=float).ravel()[:3].tolist(),
                                            "deform": np.asarray(d, dtype=float).ravel()[:3].tolist(),
                                            "emodulus": e0.ravel()[:3].tolist()}))
    if scalar_call:
        # laws for a single scalar event: repetition and the 1-element array form
        e1, _ = _call(ctx, dict(base))
        _law_exact(ctx, "mm_repeat", e1, e0, desc, "same scalar call repeated",
                   soft=(soft, slack_soft, nan_free))
        kw = dict(base)
        kw["deform"] = np.array([base["deform"]])
        kw[xkey] = np.array([base[xkey]])
        e1, _ = _call(ctx, kw)
        _law_exact(ctx, "mm_batch", None if e1 is None else e1.reshape(()), e0, desc,
                   "python scalars vs 1-element arrays", soft=(soft, slack_soft, nan_free))
        return

    temp = visc_kw["temperature"]
    t_is_arr = isinstance(temp, np.ndarray)
    flat_x = np.asarray(x).reshape(-1)
    flat_d = np.asarray(d).reshape(-1)
    flat_t = temp.reshape(-1) if t_is_arr else None

    def sub(sel, **over):
        """kwargs of the base call restricted to the events `sel` (1-D)."""
        kw = dict(base)
        kw[xkey] = flat_x[sel].copy()
        kw["deform"] = flat_d[sel].copy()
        if t_is_arr:
            kw["temperature"] = flat_t[sel].copy()
        kw.update(over)
        return kw

    laws = ["repeat", "perm", "alone", "subset", "superset", "rescale", "other_lut"]
    if vkind == "numeric":
        laws += ["visc", "flow"]
    else:
        laws += ["temp_route"]
        if n <= 3 and not t_is_arr:
            laws += ["pyscalar"]
    order = rng.permutation(len(laws))
    e_flat = e0.ravel()
    for li in order:
        law = laws[li]
        if law == "repeat":
            e1, _ = _call(ctx, dict(base))
            _law_exact(ctx, "mm_repeat", e1, e0, desc, "same call repeated after other calls",
                       soft=(soft, slack_soft, nan_free))
        elif law == "perm":
            perm = rng.permutation(n)
            e1, _ = _call(ctx, sub(perm))
            _law_exact(ctx, "mm_permutation", e1, e_flat[perm], desc, "permuted batch",
                       soft=(soft[perm], slack_soft[perm], nan_free[perm]))
        elif law == "alone":
            for i in rng.choice(n, size=min(n, 2), replace=False):
                e1, _ = _call(ctx, sub(np.array([i])))
                _law_exact(ctx, "mm_batch", e1, e_flat[[i]], dict(desc, event=int(i)),
                           "event alone vs in the batch", soft=(soft[[i]], slack_soft[[i]], nan_free[[i]]))
        elif law == "pyscalar":
            i = int(rng.integers(n))
            kw = dict(base)
            kw[xkey] = float(flat_x[i])
            kw["deform"] = float(flat_d[i])
            e1, _ = _call(ctx, kw)
            _law_exact(ctx, "mm_batch", None if e1 is None else np.asarray(e1).reshape(1),
                       e_flat[[i]], dict(desc, event=i), "event as python scalars vs in the batch",
                       soft=(soft[[i]], slack_soft[[i]], nan_free[[i]]))
        elif law == "subset":
            k = int(rng.integers(1, n + 1))
            sel = np.sort(rng.choice(n, size=k, replace=False))
            if rng.random() < 0.3:
                sel = np.concatenate([sel, sel[:3]])       # with repeated events
            e1, _ = _call(ctx, sub(sel))
            _law_exact(ctx, "mm_batch", e1, e_flat[sel], desc, "sub-batch vs full batch",
                       soft=(soft[sel], slack_soft[sel], nan_free[sel]))
        elif law == "superset":
            m = int(rng.integers(1, 40))
            pn2, _, _ = gen_points(rng, lut, m)
            x2, d2 = M.inverse_mapping(lut, pn2[:, 0], pn2[:, 1], lw, px)
            kw = dict(base)
            pos = int(rng.integers(0, m + 1))
            kw[xkey] = np.concatenate([x2[:pos], flat_x.astype(float), x2[pos:]])
            kw["deform"] = np.concatenate([d2[:pos], flat_d.astype(float), d2[pos:]])
            if t_is_arr:
                t2 = rng.uniform(20, 30, m)
                kw["temperature"] = np.concatenate([t2[:pos], flat_t.astype(float), t2[pos:]])
                if flat_t.dtype != np.float64:
                    kw["temperature"] = kw["temperature"].astype(flat_t.dtype)
            e1, _ = _call(ctx, kw)
            _law_exact(ctx, "mm_batch", None if e1 is None else e1[pos:pos + n], e_flat, desc,
                       "batch embedded in a larger batch", soft=(soft, slack_soft, nan_free), nev=n)
        elif law == "rescale":
            s = float(rng.choice([0.5, 2.0, 1.5, 0.75, 1.3, 3.0]))
            kw = dict(base)
            kw[xkey] = np.asarray(x, dtype=float) * s ** lut.power
            kw["channel_width"] = lw * s
            kw["flow_rate"] = fq * s ** 3
            kw["px_um"] = px * s
            e1, j1 = _call(ctx, kw)
            lo = loose.copy()
            if j1 is not None:
                lo |= (j1["ev"]["cls"] == 1) | j1["ev"]["ambiguous"]
            else:
                lo[:] = True
            rt = max(1e-10, 20 * (j0["rtol"] if j0 is not None and j0["rtol"] > M.RTOL else 0))
            _law_close(ctx, "mm_rescale", e1, e0, rt, slack, lo, dict(desc, s=s),
                       f"joint rescaling by s={s} ({xkey}*s^{lut.power}, L*s, px*s, Q*s^3)",
                       nan_free=nan_free)
        elif law == "visc":
            k = float(rng.choice([0.5, 2.0, 3.0, 1.7, 10.0, 0.1]))
            e1, _ = _call(ctx, dict(base, medium=float(base["medium"]) * k))
            _law_close(ctx, "mm_visc_prop", e1, e0 * k, 1e-12, 0.0, np.zeros(e0.size, bool),
                       dict(desc, k=k), f"E(k*eta) = k*E(eta), k={k}")
        elif law == "flow":
            k = float(rng.choice([0.5, 2.0, 3.0, 1.7, 10.0, 0.1]))
            e1, _ = _call(ctx, dict(base, flow_rate=fq * k))
            _law_close(ctx, "mm_flow_prop", e1, e0 * k, 1e-12, 0.0, np.zeros(e0.size, bool),
                       dict(desc, k=k), f"E(k*Q) = k*E(Q), k={k} (numeric viscosity)")
        elif law == "temp_route":
            rt = max(1e-10, 20 * (j0["rtol"] if j0 is not None and j0["rtol"] > M.RTOL else 0))
            if not t_is_arr:
                tarr = np.full(shape, float(temp), dtype=np.float64)
                if isinstance(temp, np.float32):
                    tarr = tarr.astype(np.float32)
                e1, j1 = _call(ctx, dict(base, temperature=tarr))
                lo = loose.copy()
                if j1 is not None:
                    lo |= (j1["ev"]["cls"] == 1) | j1["ev"]["ambiguous"]
                else:
                    lo[:] = True
                _law_close(ctx, "mm_temp_route", e1, e0, rt, slack, lo, desc,
                           "scalar temperature vs constant per-event temperature array",
                           nan_free=nan_free)
            elif bool(np.all(flat_t == flat_t[0])):
                # constant per-event array: the whole batch against the scalar route
                ti = flat_t[0]
                e1, j1 = _call(ctx, dict(base, temperature=ti if flat_t.dtype != np.float64
                                         else float(ti)))
                lo = loose.copy()
                if j1 is not None:
                    lo |= (j1["ev"]["cls"] == 1) | j1["ev"]["ambiguous"]
                else:
                    lo[:] = True
                _law_close(ctx, "mm_temp_route", e1, e0, rt, slack, lo, desc,
                           "constant per-event temperature array vs scalar temperature",
                           nan_free=nan_free)
            else:
                for i in rng.choice(n, size=min(n, 2), replace=False):
                    ti = flat_t[i]
                    e1, j1 = _call(ctx, dict(base, temperature=ti if flat_t.dtype != np.float64
                                             else float(ti)))
                    one = np.array([i])
                    lo = loose[one].copy()
                    if j1 is not None:
                        lo |= (j1["ev"]["cls"][one] == 1) | j1["ev"]["ambiguous"][one]
                    else:
                        lo[:] = True
                    _law_close(ctx, "mm_temp_route",
                               None if e1 is None else np.asarray(e1).ravel()[one],
                               e0.ravel()[one], rt, slack[one], lo,
                               dict(desc, event=int(i), T_i=float(ti)),
                               "per-event temperature array vs scalar call with that "
                               "event's temperature", nan_free=nan_free[one])
        elif law == "other_lut":
            # a call on another table in between ("earlier calls")
            arg2, lut2, _ = build_lut(ctx, rng, idx) if rng.random() < 0.4 else \
                ("HE-3D-FEM-22",) + _model_for("HE-3D-FEM-22")[:1] + ({},)
            s2 = gen_setup(rng)
            p2, _, _ = gen_points(rng, lut2, 6)
            x2, d2 = M.inverse_mapping(lut2, p2[:, 0], p2[:, 1], s2.get("channel_width", 20.0),
                                       s2.get("px_um", 0.34))
            kw = dict(s2)
            kw.update({"deform": d2, lut2.featx: x2, "lut_data": arg2,
                       "medium": float(rng.uniform(1, 20)), "temperature": None,
                       "visc_model": None})
            _call(ctx, kw)


# --------------------------------------------------------------------------- ds route
def run_ds(ctx, idx):
    """ds["emodulus"]: one observed call with the configured arguments, same values."""
    import dclab
    from vmon.model import c05_lut as M
    rng = ctx.rng(idx)
    lut_arg, lut, desc = build_lut(ctx, rng, idx, force_area=True)
    if not isinstance(lut_arg, str) or lut.featx != "area_um":
        ctx.count("ds_cases_skipped_lut_form")
        return
    lw = float(rng.choice([15.0, 20.0, 30.0, 40.0]))
    fq = float(rng.choice(FLOW_RATES))
    px = float(rng.choice([0.34, 0.27, 0.2, 0.0]))
    n = int(rng.integers(1, 200))
    pn, kinds, _ = gen_points(rng, lut, n)
    x, d = M.inverse_mapping(lut, pn[:, 0], pn[:, 1], lw, px)
    bad = ~np.isfinite(x) | ~np.isfinite(d)
    x[bad], d[bad] = 50.0, 0.05
    scenario = str(rng.choice(["A", "B", "C", "C+temp"]))
    data = {"area_um": x, "deform": d}
    tfeat = None
    if scenario in ("A", "C+temp"):
        tfeat = rng.uniform(22, 26, n)
        data["temp"] = tfeat
    ds = dclab.new_dataset(data)
    ds.config["setup"]["channel width"] = lw
    ds.config["setup"]["flow rate"] = fq
    ds.config["imaging"]["pixel size"] = px
    calc = ds.config["calculation"]
    calc["emodulus lut"] = lut_arg
    expect = {"channel_width": lw, "flow_rate": fq, "px_um": px, "lut_data": lut_arg}
    if scenario == "B":
        eta = float(rng.uniform(1, 30))
        calc["emodulus viscosity"] = eta
        expect.update({"medium": eta, "temperature": None, "visc_model": None})
    else:
        alias = str(rng.choice(["CellCarrier", "0.49% MC-PBS", "CellCarrier B", "water",
                                "0.6% MC-PBS", "0.59% mc-pbs"]))
        model = str(rng.choice(["herold-2017", "buyukurganci-2022"]))
        calc["emodulus medium"] = alias
        calc["emodulus viscosity model"] = model
        expect.update({"medium": alias, "visc_model": model})
        if scenario == "A":
            expect["temperature"] = tfeat
        else:
            # incl. the falsy but valid temperature 0.0 degC and integer-valued settings
            # (0 degC is inside the documented range of the water model only)
            q = rng.random()
            tfix = 0.0 if q < 0.4 else (float(rng.integers(20, 27)) if q < 0.55
                                         else float(rng.uniform(22, 26)))
            if tfix == 0.0:
                alias = "water"
                calc["emodulus medium"] = alias
                expect["medium"] = alias
                ctx.count("ds_cases_with_zero_temperature")
            calc["emodulus temperature"] = tfix
            expect["temperature"] = tfix
    desc.update({"case": idx, "route": "ds", "scenario": scenario, "n": n,
                 "setup": {"channel_width": lw, "flow_rate": fq, "px_um": px}})
    ctx.count(f"ds_scenario[{scenario}]")
    _State.log = []
    try:
        try:
            val = np.array(ds["emodulus"], copy=True)
            exc = None
        except Exception as e:
            val, exc = None, e
        log = _State.log
    finally:
        _State.log = None
    problems = []
    if exc is not None:
        problems.append(f"reading ds['emodulus'] raised {exc!r}")
    if len(log) != 1:
        problems.append(f"{len(log)} observed get_emodulus calls instead of 1")
    else:
        a = log[0]["args"]
        for k, want in expect.items():
            got = a[k]
            if isinstance(want, np.ndarray) or isinstance(got, np.ndarray):
                same = isinstance(want, np.ndarray) == isinstance(got, np.ndarray) and \
                    np.array_equal(np.asarray(got, dtype=float), np.asarray(want, dtype=float))
            else:
                same = bool(got == want) and (got is None) == (want is None)
            if not same:
                problems.append(f"argument {k}={got!r}, configuration says {want!r}")
        if not np.array_equal(np.asarray(a["area_um"], dtype=float), x) \
                or not np.array_equal(np.asarray(a["deform"], dtype=float), d) \
                or a["volume"] is not None:
            problems.append("area_um/deform passed are not the dataset's features")
        if val is not None and not _same(np.asarray(log[0]["result"]), val):
            problems.append("ds['emodulus'] differs from the observed return value")
        j = log[0]["judgement"]
        if j is None:
            ctx.count("ds_call_not_judged")
        else:
            v = j["verdict"]
            if (v == 0).any() and (v == 1).any():
                ctx.mark_nontrivial([desc, hashlib.sha1(x.tobytes() + d.tobytes()).hexdigest()])
    ctx.check("ds_route", not problems, lambda: dict(desc, problems=problems),
              message="; ".join(problems))
    # ---- second read on the same dataset after *only* the selected look-up table changed:
    # a new computation with the new table must be observed (no value of the old one)
    if exc is None and lut_arg in ("LE-2D-FEM-19", "HE-2D-FEM-22", "HE-3D-FEM-22"):
        new_lut = str(rng.choice([b for b in ("LE-2D-FEM-19", "HE-2D-FEM-22", "HE-3D-FEM-22")
                                  if b != lut_arg]))
        calc["emodulus lut"] = new_lut
        _State.log = []
        try:
            try:
                val2 = np.array(ds["emodulus"], copy=True)
                exc2 = None
            except Exception as e:
                val2, exc2 = None, e
            log2 = _State.log
        finally:
            _State.log = None
        problems2 = []
        if exc2 is not None:
            problems2.append(f"reading ds['emodulus'] after the LUT change raised {exc2!r}")
        elif len(log2) != 1:
            problems2.append(f"{len(log2)} observed get_emodulus calls after the LUT changed "
                             f"from {lut_arg} to {new_lut} (a cached value of the old table?)")
        else:
            if log2[0]["args"]["lut_data"] != new_lut:
                problems2.append(f"computed with {log2[0]['args']['lut_data']!r}, the "
                                 f"configuration says {new_lut!r}")
            if val2 is not None and not _same(np.asarray(log2[0]["result"]), val2):
                problems2.append("ds['emodulus'] differs from the observed return value")
        ctx.check("ds_route", not problems2,
                  lambda: dict(desc, lut_change=[lut_arg, new_lut], problems=problems2),
                  message="; ".join(problems2))
        ctx.count(f"ds_lut_changes[{scenario}]")


def run_rewrite(ctx, idx):
    """History case: a user LUT file is used, then regenerated at the SAME path with different
    content (emodulus column, reference viscosity), then used again.  The monitor on
    get_emodulus resolves its reference model from the file's current bytes, so a value that
    still comes from the first table ("does not depend on earlier calls") is flagged."""
    from dclab.features import emodulus
    from vmon import boot
    from vmon.model import c05_lut as M
    rng = ctx.rng(idx, salt=9)
    ident = f"vmon-rw-{ctx.seed}-{idx}"
    data, meta, featx, style = gen_user_lut(rng, ident)
    path = boot.scratch() / f"lutrw_{ctx.seed}_{idx}.txt"
    path.write_text(M.format_lut_text(data, meta, featx))
    route = str(rng.choice(["path_str", "path_obj", "identifier"]))
    if route == "identifier":
        emodulus.register_lut(path, identifier=ident)
        _State.registry[ident] = str(path)
        arg = ident
    else:
        arg = str(path) if route == "path_str" else path
    lut, _ = _model_for(arg)
    lw = float(rng.choice([15.0, 20.0, 30.0]))
    fq = float(rng.choice([0.04, 0.08, 0.16]))
    px = float(rng.choice([0.0, 0.34]))
    n = int(rng.integers(3, 40))
    pn, kinds, node = gen_points(rng, lut, n)
    x, d = M.inverse_mapping(lut, pn[:, 0], pn[:, 1], lw, px)
    kw = {featx: np.array(x, dtype=float), "deform": np.array(d, dtype=float), "lut_data": arg,
          "medium": float(rng.choice([1.0, 6.0, 15.0])), "channel_width": lw, "flow_rate": fq,
          "px_um": px, "temperature": None, "visc_model": None}
    _call(ctx, kw)
    for rep in range(int(rng.integers(1, 3))):
        data2 = data.copy()
        data2[:, 2] = np.array([float(f"{v:.5e}") for v in data[:, 2] * rng.uniform(0.4, 2.5)])
        meta2 = dict(meta)
        meta2["fluid_viscosity"] = float(rng.choice([v for v in (1.0, 6.0, 15.0)
                                                     if v != meta["fluid_viscosity"]]))
        path.write_text(M.format_lut_text(data2, meta2, featx))
        ctx.count("lut_file_regenerated_between_calls")
        _call(ctx, {k: (np.array(v, copy=True) if isinstance(v, np.ndarray) else v)
                    for k, v in kw.items()})
    ctx.mark_nontrivial(["rewrite", idx, route, featx, n])


def run(spec, ctx):
    _State.ctx = ctx
    install()
    for idx in ctx.case_ids():
        if idx % 11 == 4:
            run_rewrite(ctx, idx)
        elif idx % DS_EVERY == DS_EVERY - 1:
            run_ds(ctx, idx)
        else:
            run_direct(ctx, idx)
