"""C09 - split partitions and join concatenates events without loss or reordering.

Deciding monitors: contracts on the real dclab.cli.split / dclab.cli.join
(vmon.monitors.cli_tasks.check_split / check_join) comparing the produced files (raw h5py)
with numpy slicing/concatenation of the inputs; chronological key parsed numerically.
Round trip: join(split(x)) is compared with x.
"""
import shutil

import numpy as np

PROP = "C09"
LEVEL = "exploration"
RULE = ("split case: generated measurement x split size (1, divisor, non-divisor, N, >N) x "
        "empty boundary images x skip flags, followed by join of the parts in order; join case: "
        "2-5 inputs cut from one generated measurement with own dates/times (fractional seconds, "
        "across midnight, ties with equal run index), feature sets differing by 0-4 features "
        "(adjacent in sorted order, computable-only-for-some), given in random order. "
        "Non-trivial = >=3 inputs, or differing feature sets, or a split size not dividing N; "
        "distinct by hash of the case description")
LEVEL_TEXT = ("Held on the observed executions: split parts concatenate to the input with no part "
              "larger than requested; join output equals the chronological concatenation of the "
              "inputs restricted to common features with time/frame offsets, fresh index and all "
              "source logs; join(split(x)) reproduces x. Exploration over inputs.")
LEVEL_NOTE = ("trusted: numpy concatenation/slicing, numeric parsing of date/time, dclab's reading "
              "of the input files (features available per input). Don't-care: index_online "
              "renumbering (not in the statement); inputs tying on date and time get equal run "
              "indices so that 'given order' is well defined")
TECHNIQUE = ("runtime monitoring: post-condition contracts on the real split/join task functions "
             "against numpy slicing/concatenation of independently read inputs; round-trip check")
ASSUMPTIONS = ["time zone of the process has no DST jump inside the generated dates "
               "(mktime is used by dclab and by the oracle alike)"]
MIN_EVALS = {"c09.split.partition": 40, "c09.join.concatenation": 80, "c09.roundtrip": 30}
WATCHDOG_S = {"quick": 400, "thorough": 3000}


def plan(tier, seed):
    n = 128 if tier == "quick" else 4000
    k = 16
    per = n // k
    return [{"kind": "sj", "cases": {"start": i * per, "stop": (i + 1) * per}} for i in range(k)]


def base_model(rng, n):
    from vmon.gen import dataset as gd
    kinds = {"scalar", "int"}
    for k, p in (("image", .5), ("mask", .3), ("contour", .3), ("trace", .3)):
        if rng.random() < p:
            kinds.add(k)
    m = gd.gen_model(rng, n=n, kinds=kinds, hostile_logs=False, realistic=True, special=0.1,
                     max_scalar=10)
    m["features"]["time"] = np.cumsum(rng.uniform(0.001, 0.01, n))
    m["features"]["frame"] = np.cumsum(rng.integers(1, 5, n)).astype(np.int64)
    m["features"]["area_cvx"] = rng.uniform(50, 200, n)
    m["features"]["area_msd"] = m["features"]["area_cvx"] * rng.uniform(0.8, 1.0, n)
    m["features"]["area_ratio"] = m["features"]["area_cvx"] / m["features"]["area_msd"]
    return m


def run_split_case(ctx, idx, rng, tmp):
    import h5py
    import dclab.cli as cli
    from vmon.gen import dataset as gd
    from vmon.model import dscmp
    n = int(rng.integers(2, 60))
    model = base_model(rng, n)
    zero_first = zero_last = False
    if "image" in model["features"] and rng.random() < 0.5:
        zero_first, zero_last = bool(rng.random() < 0.6), bool(rng.random() < 0.6)
        if zero_first:
            model["features"]["image"][0] = 0
        if zero_last:
            model["features"]["image"][-1] = 0
    r = rng.random()
    divisors = [d for d in range(1, n + 1) if n % d == 0]
    if r < 0.15:
        se = 1
    elif r < 0.4:
        se = int(rng.choice(divisors))
    elif r < 0.8:
        se = int(rng.integers(1, n + 1))
    elif r < 0.9:
        se = n
    else:
        se = n + int(rng.integers(1, 5))
    if ctx.tier == "quick":
        se = max(se, -(-n // 12))     # at most 12 parts in the quick tier
    zero_mid = []
    if "image" in model["features"] and n > 2 and rng.random() < 0.5:
        # dropped frames (all-zero images) inside the measurement, preferably where a part
        # ends or begins: only the first / last event of the *measurement* may be skipped
        cand = sorted({k for b in range(se, n, se) for k in (b - 1, b) if 0 < k < n - 1})
        if cand and rng.random() < 0.8:
            zero_mid = [int(v) for v in rng.choice(cand, min(len(cand), int(rng.integers(1, 4))),
                                                   replace=False)]
        else:
            zero_mid = [int(rng.integers(1, n - 1))]
        for k in zero_mid:
            model["features"]["image"][k] = 0
        ctx.count("inputs_with_empty_image_inside")
    pin = tmp / "meas.rtdc"
    gd.write_model(pin, model, with_index=bool(rng.random() < 0.5))
    if rng.random() < 0.5:
        from vmon.gen import h5layout
        h5layout.add_raw_logs(pin, rng)
        ctx.count("inputs_with_raw_h5py_logs")
    # the two options are independent in the Python interface
    skip = bool(rng.random() < 0.5)
    skip_f = skip if rng.random() < 0.5 else (not skip)
    case = {"kind": "split", "n": n, "split_events": se, "skip_empty": [skip, skip_f],
            "zero_first": zero_first, "zero_last": zero_last, "zero_inside": zero_mid, "model": gd.describe(model)}
    outdir = tmp / "parts"
    outdir.mkdir()
    try:
        parts = cli.split(path_in=pin, path_out=outdir, split_events=se,
                          skip_initial_empty_image=skip, skip_final_empty_image=skip_f,
                          ret_out_paths=True)
        ctx.ev("task_no_exception")
    except Exception as exc:
        import traceback
        ctx.ev("task_no_exception")
        ctx.violation("task_no_exception", dict(case, exc=repr(exc),
                                                tb=traceback.format_exc()[-1200:]),
                      message=f"split raised {exc!r}")
        return case, False
    nontrivial = n % se != 0
    # round trip
    nonempty = []
    for p in parts:
        with h5py.File(p, "r") as h:
            if "events" in h and len(h["events"]):
                nonempty.append(p)
    if len(nonempty) >= 2:
        if rng.random() < 0.5:
            # the parts tie on date and time; rename them so that the given order is not
            # the lexicographic order of their paths
            renamed = []
            for i, p in enumerate(nonempty):
                q = p.with_name(f"part_{len(nonempty) - i:03d}_{'zyxwvu'[i % 6]}.rtdc")
                p.rename(q)
                renamed.append(q)
            nonempty = renamed
            case["parts_renamed"] = True
        try:
            out = cli.join(paths_in=nonempty, path_out=tmp / "rejoined.rtdc", ret_path=True)
            ctx.ev("task_no_exception")
        except Exception as exc:
            import traceback
            ctx.ev("task_no_exception")
            ctx.violation("task_no_exception", dict(case, task="join of split parts",
                                                    exc=repr(exc),
                                                    tb=traceback.format_exc()[-1200:]),
                          message=f"join of the split parts raised {exc!r}")
            return case, nontrivial
        import dclab
        with dclab.new_dataset(pin) as ds, h5py.File(out, "r") as ho:
            keep = np.ones(n, bool)
            if skip and zero_first:
                keep[0] = False
            if skip_f and zero_last:
                keep[-1] = False
            idx_keep = np.flatnonzero(keep)
            from vmon.monitors.export import expected_feature
            diffs = []
            for f in ds.features_innate:
                if f in ("index", "index_online") or f.startswith("basinmap"):
                    continue
                if f not in ho["events"]:
                    diffs.append({"feature": f, "missing": True})
                    continue
                exp = expected_feature(ds, f, idx_keep)
                node = ho["events"][f]
                if f == "trace":
                    bad = any(not dscmp.arr_equal(node[t][:], exp[t]) for t in exp)
                elif f == "contour":
                    bad = len(node) != len(exp) or any(
                        not dscmp.arr_equal(node[str(i)][:], c) for i, c in enumerate(exp))
                else:
                    got, e = node[:], np.asarray(exp)
                    if f == "mask":
                        got, e = got.astype(bool), e.astype(bool)
                    elif got.dtype != e.dtype:
                        with np.errstate(all="ignore"):
                            e = e.astype(got.dtype)
                    bad = not dscmp.arr_equal(got, e)
                if bad:
                    diffs.append({"feature": f})
            ctx.check("c09.roundtrip", not diffs, lambda: dict(case, diffs=diffs[:6]),
                      message=f"join(split(x)) differs from x: {diffs[:3]}")
    return case, nontrivial


def run_join_case(ctx, idx, rng, tmp):
    import dclab.cli as cli
    from vmon.gen import dataset as gd
    k = int(rng.integers(2, 6))
    sizes = [int(rng.integers(1, 25)) for _ in range(k)]
    model = base_model(rng, sum(sizes))
    feats_all = sorted(model["features"])
    # acquisition times
    base_h = int(rng.choice([0, 9, 12, 23]))
    day = int(rng.integers(1, 27))
    times = []
    for j in range(k):
        r = rng.random()
        if j and r < 0.15:
            times.append(times[int(rng.integers(0, j))])        # tie
            continue
        sec = int(rng.integers(0, 7200)) + base_h * 3600
        d = day + sec // 86400
        sec %= 86400
        frac = "" if rng.random() < 0.4 else "." + str(rng.choice(["5", "25", "001", "999", "50"]))
        if j and rng.random() < 0.3:
            # same second as an earlier one, different fraction
            d0, t0 = times[int(rng.integers(0, j))]
            times.append((d0, t0[:8] + frac))
            continue
        times.append((f"2021-03-{d:02d}",
                      f"{sec // 3600:02d}:{sec % 3600 // 60:02d}:{sec % 60:02d}{frac}"))
    paths = []
    removed_all = []
    start = 0
    droppable = [f for f in feats_all if f not in ("deform",)]
    for j in range(k):
        sl = slice(start, start + sizes[j])
        start += sizes[j]
        sub = {"n": sizes[j],
               "features": {f: gd.slice_feature(v, sl) for f, v in model["features"].items()},
               "meta": {s: dict(kv) for s, kv in model["meta"].items()},
               "logs": {f"log{j}": [f"line {j}", "zweite Zeile µ"]} if rng.random() < 0.8 else {},
               "tables": {}}
        nrem = int(rng.choice([0, 0, 1, 2, 3, 4]))
        rem = []
        if nrem:
            if rng.random() < 0.5:
                # adjacent features in sorted order
                i0 = int(rng.integers(0, max(1, len(droppable) - nrem)))
                rem = droppable[i0:i0 + nrem]
            else:
                rem = list(rng.choice(droppable, min(nrem, len(droppable)), replace=False))
        for f in rem:
            sub["features"].pop(f, None)
        removed_all.append(sorted(rem))
        sub["meta"]["experiment"]["date"], sub["meta"]["experiment"]["time"] = times[j]
        sub["meta"]["experiment"]["run index"] = 1
        sub["meta"]["experiment"]["event count"] = sizes[j]
        p = tmp / f"in{j}.rtdc"
        gd.write_model(p, sub, with_index=bool(rng.random() < 0.5))
        if rng.random() < 0.4:
            from vmon.gen import h5layout
            h5layout.add_raw_logs(p, rng)
            ctx.count("inputs_with_raw_h5py_logs")
        if rng.random() < 0.35:
            # files of other software need not carry the (optional) event count
            import h5py as _h5
            with _h5.File(p, "a") as h5_:
                h5_.attrs.pop("experiment:event count", None)
            ctx.count("join_inputs_without_event_count")
        paths.append(p)
    # the order in which the inputs are *given* is independent of their names and times
    given = [paths[i] for i in rng.permutation(len(paths))]
    case = {"kind": "join", "sizes": sizes, "times": times, "removed": removed_all,
            "features": feats_all, "given_order": [p.name for p in given]}
    paths = given
    try:
        cli.join(paths_in=paths, path_out=tmp / "joined.rtdc")
        ctx.ev("task_no_exception")
        if rng.random() < 0.4:
            # the joined file is joined again with a later measurement (its own logs already
            # carry the source prefixes of the first join); the contract on the task compares
            # the second output with *its* inputs
            later = {"n": sizes[0],
                     "features": {f: gd.slice_feature(v, slice(0, sizes[0]))
                                  for f, v in model["features"].items()},
                     "meta": {s: dict(kv) for s, kv in model["meta"].items()},
                     "logs": {"later log": ["one line"]}, "tables": {}}
            later["meta"]["experiment"]["date"] = "2031-12-30"
            later["meta"]["experiment"]["time"] = "23:59:58"
            later["meta"]["experiment"]["run index"] = 1
            later["meta"]["experiment"]["event count"] = sizes[0]
            pl = tmp / "later.rtdc"
            gd.write_model(pl, later)
            order2 = [tmp / "joined.rtdc", pl] if rng.random() < 0.5 else \
                [pl, tmp / "joined.rtdc"]
            cli.join(paths_in=order2, path_out=tmp / "joined_again.rtdc")
            ctx.ev("task_no_exception")
            ctx.count("joins_of_a_joined_file")
            case["joined_again"] = True
        if len(paths) >= 2 and rng.random() < 0.5:
            # the same file names hold other measurements now (a scratch directory that is
            # re-populated): the contents rotate among the paths, then the task runs again in
            # the same process
            rot = sorted(paths)
            hold = tmp / "rotating.tmp"
            rot[0].rename(hold)
            for a, b in zip(rot[1:], rot[:-1]):
                a.rename(b)
            hold.rename(rot[-1])
            cli.join(paths_in=[paths[i] for i in rng.permutation(len(paths))],
                     path_out=tmp / "joined_after_replacement.rtdc")
            ctx.ev("task_no_exception")
            ctx.count("joins_after_the_inputs_were_replaced")
            case["inputs_replaced_and_joined_again"] = True
    except Exception as exc:
        import traceback
        ctx.ev("task_no_exception")
        ctx.violation("task_no_exception", dict(case, exc=repr(exc),
                                                tb=traceback.format_exc()[-1200:]),
                      message=f"join raised {exc!r}")
    return case, (k >= 3 or any(removed_all))


def run(spec, ctx):
    from vmon import boot
    from vmon.monitors import cli_tasks, export as emon, writer as wmon
    wmon.install(ctx)
    emon.install(ctx)
    cli_tasks.install_split_join(ctx)
    for idx in ctx.case_ids():
        rng = ctx.rng(idx)
        tmp = boot.scratch() / f"c09_{idx}"
        tmp.mkdir()
        # small chunk configurations make the appends of join (and the stacks written by
        # split) cross HDF5 chunk boundaries with and without remainder
        from dclab.rtdc_dataset import writer
        writer.CHUNK_SIZE_BYTES = int(rng.choice([256, 2048, 1024 ** 2]))
        ctx.count(f"chunk_bytes[{writer.CHUNK_SIZE_BYTES}]")
        try:
            if idx % 2 == 0:
                case, nt = run_split_case(ctx, idx, rng, tmp)
            else:
                case, nt = run_join_case(ctx, idx, rng, tmp)
            ctx.count(f"cases[{case['kind']}]")
            if nt:
                ctx.mark_nontrivial(case)
            if idx % 33 == 0:
                ctx.sample(case)
        except Exception as exc:
            ctx.raised("c09.no_exception", f"case {idx}", exc)
        finally:
            writer.CHUNK_SIZE_BYTES = 1024 ** 2
            shutil.rmtree(tmp, ignore_errors=True)
