"""C15 - polygon filters classify points by exact even-odd containment.

Monitors (recording wrappers on the real code, they never raise inside dclab)
* ``points_in_poly`` (module attribute of ``dclab.external.skimage.pnpoly`` and every
  ``from ... import points_in_poly`` binding site in ``dclab.*``): call count per calling
  module, result dtype/shape, raw result kept for the caller-side oracles.
* ``PolygonFilter.filter`` / ``PolygonFilter.point_in_poly``: returned mask == raw result of
  the compiled routine XOR ``inverted``, polygon handed over == ``self.points``.
* ``PolygonFilter.__init__`` / ``import_all`` / ``save``: registry invariant (identifiers of
  live instances pairwise different, allocator above every identifier), call counts.

Oracles (vmon/model/c15_evenodd.py; exact integer arithmetic, never dclab code)
* crossing parity by the half-open rule, cross-checked against an independent generic-ray
  crossing count (monitor ``oracle_selfcheck``); points exactly on the boundary are masked.
* metamorphic: inverted filter == complement; every cyclic shift, the reversal and a
  repeated closing vertex classify every off-boundary point like the original sequence.
* .poly round trip: axes, inverted, name, identifier, number and order of filters, vertices
  (== 16-significant-digit rounding of the original, computed with Fractions) and the
  classification of query points by the reloaded filter.
"""
import os
import subprocess
import sys
import json
import warnings

import numpy as np

PROP = "C15"
LEVEL = "exploration"
RULE = ("grid3/grid4: EVERY vertex sequence of length 3..5 on the 3x3 (quick+thorough) and 4x4 "
        "(thorough) integer grid, each judged at every half-grid position incl. one ring outside "
        "(49 / 81 points); gridrand: random sequences of 3..12 vertices on 3x3..9x9 grids at every "
        "half-grid position; float: random polygons with 3..12 vertices (star, random, shared "
        "coordinate pools, collinear runs, repeated vertices, out-and-back spikes), per-axis scale "
        "1e-6..1e6, optional offset, 40 query points (level with a vertex, aligned, vertex mixes, "
        "edge midpoints, 1e-17..1e-2 close to an edge, uniform), every cyclic shift x both "
        "orientations + closing vertex; file: 1..20 filters (grid/float vertices, feature-name "
        "axes, inverted, 26 name shapes, automatic/explicit identifiers) written to one .poly file "
        "in four ways and re-imported into an empty and into a populated registry. "
        "Non-trivial = polygon with >=1 judged (off-boundary) query point whose +x ray passes "
        "through a vertex / along a horizontal edge, or file with >=2 filters; distinct by "
        "(grid, length, enumeration index) resp. (kind, case index)")
ASSUMPTIONS = [
    "points lying exactly on a closed edge segment are outside the statement and masked "
    "(exact integer collinearity + bounding-box test)",
    "float polygons: a point is also masked when its exact distance in x to the exact crossing "
    "abscissa of an edge whose closed y-range contains it is <= 2**-48 * max|vertex x| (rigorous "
    "bound 11.1*2**-53 for the six roundings of (xj-xi)*(y-yi)/(yj-yi)+xi in IEEE double, "
    "no FMA needed); comparisons in y are exact and are judged without any band",
    "reloaded float polygons: masked within Euclidean distance 2**-47 * max|coordinate| of the "
    "original boundary ('{:.15e}' keeps 16 significant digits); integer-grid polygons reload "
    "exactly and are judged without any band",
    "names: single-line strings without leading/trailing whitespace (the text format strips "
    "them; such names are generated, counted as skipped_name_padded and not judged); axes are "
    "valid lower-case dclab feature names; identifiers are preserved when the registry holds no "
    "filter with that identifier at import time, otherwise only uniqueness is demanded",
    "coordinates are finite, magnitudes 1e-9..1e10 (no overflow/underflow in the products)",
]
LEVEL_TEXT = ("Exhaustive on the stated small grids (every vertex sequence of length 3..5 at every "
              "half-grid point: the compiled routine, PolygonFilter.filter and point_in_poly agreed "
              "with the exact integer crossing parity at every off-boundary point), exploration "
              "beyond: random larger grid and float polygons and .poly files. Not a proof for all "
              "polygons; float verdicts hold outside an explicit rounding band.")
LEVEL_NOTE = ("trusted: numpy int64 / Python integer arithmetic, float.as_integer_ratio, the "
              "equivalence of the two independently coded crossing-parity definitions (checked "
              "against each other on every judged point). The compiled .so is the shipped build "
              "(no Cython): .pyx edits are not observable.")
TECHNIQUE = ("runtime monitoring of points_in_poly / PolygonFilter with an exact integer even-odd "
             "oracle; exhaustive enumeration on small grids; metamorphic relations; file round trip")
WATCHDOG_S = {"quick": 300, "thorough": 3000}

# case id = [kind code, index]
K_GRID3, K_GRID4, K_GRIDRAND, K_FLOAT, K_FILE, K_DS, K_ASAN = 0, 1, 2, 3, 4, 5, 9
KIND_NAME = {0: "grid3", 1: "grid4", 2: "gridrand", 3: "float", 4: "file", 9: "asan"}
GRID_BATCH = {K_GRID3: 256, K_GRID4: 512}
GRIDRAND_POLYS = 48
MECH_EQUALS = "poly-name-equals-sign"


def _counts(tier):
    from vmon.gen.c15_polys import grid_total
    n3 = -(-grid_total(3) // GRID_BATCH[K_GRID3])
    n4 = -(-grid_total(4) // GRID_BATCH[K_GRID4])
    if tier == "quick":
        return {K_GRID3: n3, K_GRIDRAND: 640, K_FLOAT: 16000, K_FILE: 1600, K_DS: 320}
    return {K_GRID3: n3, K_GRID4: n4, K_GRIDRAND: 8000, K_FLOAT: 240000, K_FILE: 24000,
            K_DS: 4800}


def plan(tier, seed):
    counts = _counts(tier)
    k = 16 if tier == "quick" else 48
    shards = [{"kind": "mix", "cases": []} for _ in range(k)]
    pos = 0
    # heavy kinds first so that every shard gets the same share of each kind
    for code in (K_GRID4, K_FLOAT, K_FILE, K_DS, K_GRID3, K_GRIDRAND):
        for i in range(counts.get(code, 0)):
            shards[pos % k]["cases"].append([code, i])
            pos += 1
    if tier == "thorough":
        shards.insert(0, {"kind": "asan", "cases": [[K_ASAN, 0]]})
    return shards


def min_evals(tier):
    if tier == "quick":
        return {"filter_exact": 2_000_000, "pip_exact": 2_000_000, "oracle_selfcheck": 2_000_000,
                "inversion_complement": 2_000_000, "invariance_shift": 2_000_000,
                "invariance_reversal": 2_000_000, "invariance_closing": 2_000_000,
                "point_in_poly_exact": 50_000, "filter_inversion": 200_000,
                "roundtrip_attrs": 1500, "roundtrip_ids": 1500, "roundtrip_points": 1500,
                "roundtrip_classification": 50_000, "import_unique_ids": 100,
                "registry_invariant": 50_000, "dataset_filter_exact": 10_000}
    return {"filter_exact": 80_000_000, "pip_exact": 80_000_000, "oracle_selfcheck": 80_000_000,
            "inversion_complement": 80_000_000, "invariance_shift": 80_000_000,
            "invariance_reversal": 80_000_000, "invariance_closing": 80_000_000,
            "point_in_poly_exact": 2_000_000, "filter_inversion": 5_000_000,
            "roundtrip_attrs": 50_000, "roundtrip_ids": 50_000, "roundtrip_points": 50_000,
            "roundtrip_classification": 2_000_000, "import_unique_ids": 3000,
            "registry_invariant": 1_000_000}


MIN_EVALS = min_evals("quick")


# ------------------------------------------------------------------------------ monitors
class _St:
    ctx = None
    last = None          # (points, verts, raw result copy) of the latest points_in_poly call
    sites = []


def _mk_pip(orig):
    def points_in_poly(points, verts):
        out = orig(points, verts)
        ctx = _St.ctx
        if ctx is not None:
            try:
                caller = sys._getframe(1).f_globals.get("__name__", "?")
                ctx.count(f"points_in_poly_calls_from[{caller}]")
                n = len(points)
                ok = (isinstance(out, np.ndarray) and out.dtype == np.bool_
                      and out.shape == (n,))
                ctx.ev("pip_result_shape")
                if not ok:
                    ctx.violation("pip_result_shape",
                                  {"n_points": n, "type": repr(type(out)),
                                   "dtype": str(getattr(out, "dtype", None)),
                                   "shape": list(getattr(out, "shape", []))},
                                  message="points_in_poly result is not a bool array (n,)")
                _St.last = (points, verts, np.array(out, copy=True))
            except Exception as exc:  # monitor must not disturb
                ctx.error("pip monitor", exc)
        return out
    return points_in_poly


def _mk_filter(orig):
    def filter(self, datax, datay):
        _St.last = None
        f = orig(self, datax, datay)
        ctx = _St.ctx
        if ctx is not None:
            try:
                last = _St.last
                ctx.ev("filter_inversion")
                if last is None:
                    ctx.violation("filter_inversion", {"why": "no points_in_poly call seen"},
                                  message="PolygonFilter.filter did not reach points_in_poly")
                else:
                    raw = last[2]
                    ok = (isinstance(f, np.ndarray) and f.dtype == np.bool_
                          and f.shape == raw.shape == (len(datax),)
                          and bool(np.array_equal(f, raw ^ bool(self.inverted))))
                    if not ok:
                        ctx.violation(
                            "filter_inversion",
                            {"inverted": self.inverted, "points": self.points,
                             "raw": raw, "returned": f},
                            message="filter() != points_in_poly(points, self.points) XOR inverted")
            except Exception as exc:
                ctx.error("filter monitor", exc)
        return f
    return filter


def _mk_scalar(orig):
    def point_in_poly(p, poly):
        _St.last = None
        r = orig(p, poly)
        ctx = _St.ctx
        if ctx is not None:
            try:
                last = _St.last
                ctx.ev("point_in_poly_wiring")
                ok = (last is not None and isinstance(r, bool) and last[2].shape == (1,)
                      and r == bool(last[2][0]))
                if not ok:
                    ctx.violation("point_in_poly_wiring", {"p": list(map(float, p)),
                                                           "returned": repr(r)},
                                  message="point_in_poly != bool(points_in_poly([p], poly)[0])")
            except Exception as exc:
                ctx.error("scalar monitor", exc)
        return r
    return point_in_poly


def _registry_ok(ctx, where):
    from dclab.polygon_filter import PolygonFilter
    ids = [p.unique_id for p in PolygonFilter.instances]
    ok = len(set(ids)) == len(ids) and (not ids or PolygonFilter._instance_counter > max(ids))
    ctx.ev("registry_invariant")
    if not ok:
        ctx.violation("registry_invariant",
                      {"where": where, "ids": ids[:50],
                       "counter": PolygonFilter._instance_counter},
                      message="identifiers of live filters are not pairwise different / "
                              "allocator not above every identifier")


def _mk_init(orig):
    def __init__(self, *a, **kw):
        orig(self, *a, **kw)
        ctx = _St.ctx
        if ctx is not None:
            try:
                _registry_ok(ctx, "__init__")
            except Exception as exc:
                ctx.error("init monitor", exc)
    return __init__


def _mk_import_all(orig):
    def import_all(path):
        res = orig(path)
        ctx = _St.ctx
        if ctx is not None:
            try:
                from dclab.polygon_filter import PolygonFilter
                ctx.count("import_all_calls")
                ctx.count("import_all_filters_returned", len(res))
                ctx.ev("import_registers")
                live = set(map(id, PolygonFilter.instances))
                if not all(id(p) in live for p in res):
                    ctx.violation("import_registers", {"n": len(res)},
                                  message="import_all returned a filter that is not registered")
            except Exception as exc:
                ctx.error("import monitor", exc)
        return res
    return import_all


def _mk_save(orig):
    def save(self, polyfile, ret_fobj=False):
        ctx = _St.ctx
        if ctx is not None:
            ctx.count("save_calls[%s]" % ("fobj" if hasattr(polyfile, "write") else "path"))
        return orig(self, polyfile, ret_fobj=ret_fobj)
    return save


_installed = False


def install():
    global _installed
    if _installed:
        return
    _installed = True
    from dclab.external.skimage import pnpoly
    from dclab.polygon_filter import PolygonFilter
    import dclab.kde_contours  # noqa: F401  (binding site)
    from vmon.contracts import wrap_function, wrap_method
    _St.sites = wrap_function(pnpoly, "points_in_poly", _mk_pip)
    wrap_method(PolygonFilter, "filter", _mk_filter)
    wrap_method(PolygonFilter, "point_in_poly", _mk_scalar)
    wrap_method(PolygonFilter, "__init__", _mk_init)
    wrap_method(PolygonFilter, "import_all", _mk_import_all)
    wrap_method(PolygonFilter, "save", _mk_save)


AXES = ("area_um", "deform")


# ------------------------------------------------------------------- integer-grid batches
def _mismatch_rows(ctx, monitor, got, exp, judged, describe, message):
    """Vectorised check: count judged points as evaluations, one violation per polygon."""
    ctx.ev(monitor, int(judged.sum()))
    bad = (got != exp) & judged
    if bad.any():
        for b in np.nonzero(bad.any(axis=1))[0][:50]:
            ctx.violation(monitor, describe(int(b), np.nonzero(bad[b])[0]), message=message)


def judge_int_batch(ctx, code, V, lo, Pd, K, tagger, rng):
    """V (B, L, 2) integer grid polygons; Pd doubled-integer query points."""
    from dclab.polygon_filter import PolygonFilter
    from vmon.model.c15_evenodd import batch_halfopen, batch_generic_ray
    B, L, _ = V.shape
    N = len(Pd)
    X = Pd[:, 0] / 2.0
    Y = Pd[:, 1] / 2.0
    Vf = V.astype(np.float64)
    R0 = np.zeros((B, N), bool)
    RAW = np.zeros((B, N), bool)
    R1 = np.zeros((B, N), bool)
    RC = np.zeros((B, N), bool)
    RS = np.zeros((B, N), bool)
    RR = np.zeros((B, N), bool)
    done = np.zeros(B, bool)
    shifts = rng.integers(1, L, B)
    spts = rng.integers(0, N, (B, 2))
    SC = np.zeros((B, 2), bool)
    PolygonFilter.clear_all_filters()
    for b in range(B):
        verts = Vf[b]
        try:
            pf = PolygonFilter(axes=AXES, points=verts)
            R0[b] = pf.filter(X, Y)
            RAW[b] = _St.last[2]
            pfi = pf.copy(invert=True)
            R1[b] = pfi.filter(X, Y)
            pf.points = np.concatenate([verts, verts[:1]])
            RC[b] = pf.filter(X, Y)
            pf.points = np.roll(verts, -int(shifts[b]), axis=0)
            RS[b] = pf.filter(X, Y)
            pf.points = verts[::-1]
            RR[b] = pf.filter(X, Y)
            for q in range(2):
                k = spts[b, q]
                SC[b, q] = PolygonFilter.point_in_poly((X[k], Y[k]), verts)
            done[b] = True
        except Exception as exc:
            ctx.ev("no_exception")
            ctx.violation("no_exception", {"verts": verts.tolist(), "exc": repr(exc)},
                          message=f"polygon filter raised {exc!r}")
        else:
            ctx.ev("no_exception")
        if b % 128 == 127:
            PolygonFilter.clear_all_filters()
    PolygonFilter.clear_all_filters()

    V2 = 2 * V
    inside, onb, raythru = batch_halfopen(V2, Pd)
    generic = batch_generic_ray(V2, Pd, K)
    judged = ~onb & done[:, None]

    def desc(b, cols):
        cols = cols[:6]
        return {"kind": KIND_NAME[code], "polygon_index": lo + b, "verts": V[b].tolist(),
                "points": [[float(X[c]), float(Y[c])] for c in cols],
                "oracle_inside": [bool(inside[b, c]) for c in cols],
                "filter": [bool(R0[b, c]) for c in cols],
                "raw": [bool(RAW[b, c]) for c in cols],
                "inverted_filter": [bool(R1[b, c]) for c in cols],
                "closed": [bool(RC[b, c]) for c in cols],
                "shifted": [bool(RS[b, c]) for c in cols], "shift": int(shifts[b]),
                "reversed": [bool(RR[b, c]) for c in cols]}

    _mismatch_rows(ctx, "oracle_selfcheck", generic, inside, ~onb, desc,
                   "ORACLE: half-open parity != generic-ray parity")
    _mismatch_rows(ctx, "pip_exact", RAW, inside, judged, desc,
                   "points_in_poly != exact crossing parity at an off-boundary point")
    _mismatch_rows(ctx, "filter_exact", R0, inside, judged, desc,
                   "PolygonFilter.filter != exact crossing parity at an off-boundary point")
    _mismatch_rows(ctx, "inversion_complement", R1, ~R0, np.broadcast_to(done[:, None], R0.shape),
                   desc, "inverted filter is not the complement of the filter")
    _mismatch_rows(ctx, "invariance_closing", RC, R0, judged, desc,
                   "repeating the first vertex at the end changed a classification")
    _mismatch_rows(ctx, "invariance_shift", RS, R0, judged, desc,
                   "a cyclic shift of the vertex sequence changed a classification")
    _mismatch_rows(ctx, "invariance_reversal", RR, R0, judged, desc,
                   "reversing the vertex sequence changed a classification")
    rows = np.arange(B)
    for q in range(2):
        cols = spts[:, q]
        jq = judged[rows, cols]
        ctx.ev("point_in_poly_exact", int(jq.sum()))
        badq = (SC[:, q] != inside[rows, cols]) & jq
        for b in np.nonzero(badq)[0][:20]:
            ctx.violation("point_in_poly_exact",
                          {"verts": V[b].tolist(), "p": [float(X[cols[b]]), float(Y[cols[b]])],
                           "got": bool(SC[b, q]), "oracle": bool(inside[b, cols[b]])},
                          message="point_in_poly != exact crossing parity")

    # evidence
    kn = KIND_NAME[code]
    ctx.count(f"{kn}_polygons", B)
    ctx.count(f"{kn}_polygons_len{L}", B)
    ctx.count("points_judged_off_boundary", int(judged.sum()))
    ctx.count("points_masked_on_boundary", int(onb.sum()))
    rt = raythru & judged
    ctx.count("points_judged_ray_through_vertex", int(rt.sum()))
    ctx.count("points_judged_inside", int((inside & judged).sum()))
    same = (V[:, :, None, :] == V[:, None, :, :]).all(axis=3)
    rep = (same.sum(axis=(1, 2)) > L)
    ctx.count("polygons_with_repeated_vertex", int(rep.sum()))
    ctx.count("polygons_closed_first_eq_last", int((V[:, 0] == V[:, -1]).all(axis=1).sum()))
    x, y = V[:, :, 0], V[:, :, 1]
    area2 = (x * np.roll(y, -1, axis=1) - np.roll(x, -1, axis=1) * y).sum(axis=1)
    ctx.count("polygons_zero_signed_area", int((area2 == 0).sum()))
    ctx.count("polygons_clockwise", int((area2 < 0).sum()))
    ctx.count("polygons_with_horizontal_edge", int((y == np.roll(y, 1, axis=1)).any(axis=1).sum()))
    nt = rt.any(axis=1)
    for b in np.nonzero(nt)[0]:
        ctx.mark_nontrivial(tagger(int(b)))
    ctx.count("nontrivial_polygons", int(nt.sum()))


def run_grid(ctx, code, i):
    from vmon.gen.c15_polys import grid_decode, grid_total, half_grid_points
    n = 3 if code == K_GRID3 else 4
    bs = GRID_BATCH[code]
    lo, hi = i * bs, min((i + 1) * bs, grid_total(n))
    Pd = half_grid_points(n)
    K = 4 * n + 3
    rng = ctx.rng([code, i])
    for L, first, V in grid_decode(n, lo, hi):
        judge_int_batch(ctx, code, V, first, Pd, K,
                        lambda b, L=L, first=first: "g%dL%x%012x" % (n, L, first + b), rng)
    if i % 97 == 0:
        ctx.sample({"kind": KIND_NAME[code], "batch": i, "polygon_indices": [lo, hi],
                    "first_polygon": V[0].tolist(), "n_query_points": len(Pd)})


def run_gridrand(ctx, i):
    from vmon.gen.c15_polys import half_grid_points
    rng = ctx.rng([K_GRIDRAND, i])
    n = int(rng.integers(3, 10))
    L = int(rng.integers(3, 13))
    V = rng.integers(0, n, (GRIDRAND_POLYS, L, 2)).astype(np.int64)
    # a third of the polygons gets consecutive duplicates / collinear runs
    for b in range(0, GRIDRAND_POLYS, 3):
        k = int(rng.integers(1, L))
        if rng.random() < 0.5:
            V[b, k] = V[b, k - 1]
        else:
            V[b, k, 1] = V[b, k - 1, 1]
    Pd = half_grid_points(n)
    judge_int_batch(ctx, K_GRIDRAND, V, 0, Pd, 4 * n + 3,
                    lambda b: "r%07x%02x%02x%04x" % (i, n, L, b), rng)
    ctx.count(f"gridrand_grid{n}")
    if i % 211 == 0:
        ctx.sample({"kind": "gridrand", "case": i, "n": n, "L": L, "first": V[0].tolist()})


# ----------------------------------------------------------------------------- float kind
def run_float(ctx, i):
    from dclab.polygon_filter import PolygonFilter
    from vmon.gen.c15_polys import float_case
    from vmon.model.c15_evenodd import classify_float
    rng = ctx.rng([K_FLOAT, i])
    verts, pts, meta = float_case(rng)
    L, N = len(verts), len(pts)
    cl = classify_float(verts, pts)
    inside = np.array(cl["inside"], bool)
    onb = np.array(cl["onb"], bool)
    near = np.array(cl["near"], bool)
    rt = np.array(cl["raythru"], bool)
    gen = cl["generic"]
    judged = ~(onb | near)
    # oracle self check (all off-boundary points, also inside the rounding band)
    nself = 0
    for k in range(N):
        if not onb[k]:
            nself += 1
            if gen[k] is None or gen[k] != bool(inside[k]):
                ctx.violation("oracle_selfcheck", {"verts": verts.tolist(), "p": pts[k].tolist(),
                                                   "halfopen": bool(inside[k]), "generic": gen[k]},
                              message="ORACLE: half-open parity != generic-ray parity (float)")
    ctx.ev("oracle_selfcheck", nself)
    x, y = pts[:, 0], pts[:, 1]
    if i % 2:
        # non-contiguous inputs
        buf = np.empty((N, 4))
        buf[:, 1], buf[:, 3] = x, y
        x, y = buf[:, 1], buf[:, 3]

    def wit(got, what, cols):
        cols = cols[:6]
        return {"kind": "float", "meta": {k: v for k, v in meta.items() if k not in ("how", "near_mag")},
                "verts": verts.tolist(), "what": what,
                "points": [pts[c].tolist() for c in cols],
                "how": [meta["how"][c] for c in cols],
                "oracle_inside": [bool(inside[c]) for c in cols],
                "got": [bool(got[c]) for c in cols]}

    def cmp(monitor, got, exp, mask, what, message):
        ctx.ev(monitor, int(mask.sum()))
        bad = (np.asarray(got) != exp) & mask
        if bad.any():
            ctx.violation(monitor, wit(got, what, np.nonzero(bad)[0]), message=message)

    PolygonFilter.clear_all_filters()
    try:
        pf = PolygonFilter(axes=AXES, points=verts)
        r0 = pf.filter(x, y)
        raw = _St.last[2]
        cmp("pip_exact", raw, inside, judged, "raw",
            "points_in_poly != exact crossing parity outside the rounding band")
        cmp("filter_exact", r0, inside, judged, "filter",
            "PolygonFilter.filter != exact crossing parity outside the rounding band")
        pfi = PolygonFilter(axes=AXES, points=verts, inverted=True)
        r1 = pfi.filter(x, y)
        cmp("inversion_complement", r1, ~r0, np.ones(N, bool), "inverted",
            "inverted filter is not the complement of the filter")
        pf.points = np.concatenate([verts, verts[:1]])
        cmp("invariance_closing", pf.filter(x, y), r0, judged, "closed",
            "repeating the first vertex at the end changed a classification")
        for rev in (False, True):
            base = verts[::-1] if rev else verts
            for s in range(L):
                if s == 0 and not rev:
                    continue
                pf.points = np.ascontiguousarray(np.roll(base, -s, axis=0))
                cmp("invariance_reversal" if rev else "invariance_shift", pf.filter(x, y), r0,
                    judged, f"shift={s} reversed={rev}",
                    "a cyclic shift / reversal of the vertex sequence changed a classification")
        for k in rng.integers(0, N, 3):
            got = PolygonFilter.point_in_poly((pts[k, 0], pts[k, 1]), verts.tolist())
            if judged[k]:
                ctx.check("point_in_poly_exact", got == bool(inside[k]),
                          lambda: {"verts": verts.tolist(), "p": pts[k].tolist(), "got": got,
                                   "oracle": bool(inside[k])},
                          message="point_in_poly != exact crossing parity")
        if i % 8 == 0:
            import dclab
            inv = bool(i % 16 == 0)
            ds = dclab.new_dataset({AXES[0]: pts[:, 0].copy(), AXES[1]: pts[:, 1].copy()})
            pf2 = PolygonFilter(axes=AXES, points=verts, inverted=inv)
            ds.polygon_filter_add(pf2)
            ds.apply_filter()
            cmp("dataset_polygon_exact", ds.filter.polygon, inside ^ inv, judged, "ds.filter.polygon",
                "dataset polygon filter != exact crossing parity")
            cmp("dataset_polygon_exact", ds.filter.all, inside ^ inv, judged, "ds.filter.all",
                "dataset filter.all != exact crossing parity (only a polygon filter set)")
        ctx.ev("no_exception")
    except Exception as exc:
        ctx.ev("no_exception")
        ctx.violation("no_exception", {"verts": verts.tolist(), "exc": repr(exc)},
                      message=f"polygon filter raised {exc!r}")
    PolygonFilter.clear_all_filters()
    ctx.count("float_polygons")
    ctx.count(f"float_shape[{meta['kind']}]")
    ctx.count(f"float_offset[{meta['offset']}]")
    ctx.count("float_log10_scale_x[%+d]" % int(np.floor(meta["log10_sx"] / 3) * 3))
    ctx.count("float_axis_scale_ratio_decades[%d]"
              % int(abs(meta["log10_sx"] - meta["log10_sy"]) // 3 * 3))
    ctx.count("points_judged_off_boundary", int(judged.sum()))
    ctx.count("points_masked_on_boundary", int(onb.sum()))
    ctx.count("points_masked_rounding_band", int((near & ~onb).sum()))
    ctx.count("points_judged_ray_through_vertex", int((rt & judged).sum()))
    ctx.count("points_judged_inside", int((inside & judged).sum()))
    ctx.count("float_points_judged_inside", int((inside & judged).sum()))
    for k, mg in meta["near_mag"].items():
        ctx.count("float_near_edge_rel_distance_1e%+03d[%s]"
                  % (int(np.floor(np.log10(mg))), "judged" if judged[k] else "masked"))
    for h in set(meta["how"]):
        sel = np.array([m == h for m in meta["how"]])
        ctx.count(f"float_points_judged[{h}]", int((sel & judged).sum()))
    if (rt & judged).any():
        ctx.mark_nontrivial("f%015x" % i)
        ctx.count("nontrivial_polygons")
    if i % 1999 == 0:
        ctx.sample({"kind": "float", "case": i, "meta": {k: v for k, v in meta.items()
                                                         if k not in ("how", "near_mag")},
                    "verts": verts.tolist()[:4], "judged": int(judged.sum())})


# ------------------------------------------------------------------------------ file kind
_FEATURES = None


def _features():
    global _FEATURES
    if _FEATURES is None:
        from dclab import definitions as dfn
        _FEATURES = sorted(dfn.scalar_feature_names) + ["userdef1", "ml_score_abc"]
    return _FEATURES


def equals_defect_model(names):
    """Executable model of the defect 'poly-name-equals-sign': PolygonFilter._load splits
    every line at each '=' and unpacks two items, so the first filter (in file order) whose
    name contains '=' makes the import raise ValueError('too many values to unpack ...');
    import_all only catches IndexError, so the whole file becomes unloadable.
    Returns the index of the first offending filter or None."""
    for k, nm in enumerate(names):
        if nm is not None and "=" in nm:
            return k
    return None


def _query_points(f, rng):
    """Query points for a saved filter: (pts (N,2) float, exact?)"""
    p = f["points"]
    if f["ptype"] == "grid":
        lo, hi = int(p.min()), int(p.max())
        g = np.arange(2 * lo - 1, 2 * hi + 2) / 2.0
        return np.array([(a, b) for a in g for b in g])
    L = len(p)
    xmin, xmax, ymin, ymax = p[:, 0].min(), p[:, 0].max(), p[:, 1].min(), p[:, 1].max()
    wx, wy = (xmax - xmin) or 1.0, (ymax - ymin) or 1.0
    pts = np.empty((24, 2))
    for k in range(24):
        r = rng.random()
        if r < 0.4:
            pts[k] = (rng.uniform(xmin - .2 * wx, xmax + .2 * wx),
                      rng.uniform(ymin - .2 * wy, ymax + .2 * wy))
        elif r < 0.8:
            pts[k] = (rng.uniform(xmin - .5 * wx, xmax + .1 * wx), p[int(rng.integers(0, L)), 1])
        else:
            a = int(rng.integers(0, L))
            b = (a + 1) % L
            t = rng.uniform(0, 1)
            mag = 10.0 ** rng.uniform(-17, -3)
            bx = p[a, 0] + t * (p[b, 0] - p[a, 0])
            pts[k] = (bx + rng.choice([-1, 1]) * mag * max(abs(bx), wx),
                      p[a, 1] + t * (p[b, 1] - p[a, 1]))
    return pts


def _check_loaded(ctx, tag, f, exp_id, exp_name, lp, rng, ids_preserved, orig_filter):
    """Compare one re-imported filter `lp` with the description `f` it was created from."""
    from vmon.model.c15_evenodd import classify_float, sixteen_digit_roundtrip

    def w(**kw):
        d = {"scenario": tag, "axes": list(f["axes"]), "inverted": f["inverted"],
             "name": f["name"], "expected_id": exp_id, "ptype": f["ptype"]}
        d.update(kw)
        return d

    axes_ok = (isinstance(lp.axes, (list, tuple)) and list(lp.axes) == list(f["axes"]))
    inv_ok = isinstance(lp.inverted, bool) and lp.inverted == f["inverted"]
    if f["name_kind"] == "padded":
        ctx.count("skipped_name_padded")
        name_ok = lp.name.strip() == exp_name.strip()
    else:
        name_ok = lp.name == exp_name
    ctx.check("roundtrip_attrs", axes_ok and inv_ok and name_ok,
              lambda: w(got_axes=list(lp.axes), got_inverted=repr(lp.inverted), got_name=lp.name,
                        expected_name=exp_name),
              message="axes_ok=%s inverted_ok=%s name_ok=%s after .poly round trip"
                      % (axes_ok, inv_ok, name_ok))
    if ids_preserved:
        ctx.check("roundtrip_ids", lp.unique_id == exp_id,
                  lambda: w(got_id=lp.unique_id),
                  message=f"identifier {exp_id} became {lp.unique_id} (registry was empty)")
    p0 = f["points"]
    p1 = lp.points
    if p1.shape != p0.shape:
        ctx.check("roundtrip_points", False, lambda: w(shape=list(p1.shape), orig=list(p0.shape)),
                  message="number of vertices changed in the round trip")
        return
    if f["ptype"] == "grid":
        pts_ok = bool(np.array_equal(p0, p1))
    else:
        expct = np.array([[sixteen_digit_roundtrip(v) for v in row] for row in p0])
        pts_ok = bool(np.array_equal(expct, p1))
        ctx.count("float_vertices_written", p0.size)
        ctx.count("float_vertices_changed_by_16_digits", int((p0 != p1).sum()))
    ctx.check("roundtrip_points", pts_ok,
              lambda: w(orig=p0, loaded=p1, first_diff=np.argwhere(p0 != p1)[:3].tolist()),
              message="vertices after round trip are not the 16-significant-digit values "
                      "of the saved ones (or are reordered)")
    # classification
    q = _query_points(f, rng)
    got = lp.filter(q[:, 0], q[:, 1])
    if f["ptype"] == "grid":
        from vmon.model.c15_evenodd import batch_halfopen
        ins, onb, _rt = batch_halfopen((2 * p0).astype(np.int64)[None],
                                       np.rint(2 * q).astype(np.int64))
        ins, mask = ins[0], ~onb[0]
    else:
        cl = classify_float(p0, q, euclid_band=True)
        ins = np.array(cl["inside"], bool)
        band = np.array(cl["near_e"], bool) | np.array(cl["near"], bool) | np.array(cl["onb"], bool)
        mask = ~band
        ctx.count("points_masked_reload_band", int(band.sum()))
    exp = ins ^ f["inverted"]
    ctx.ev("roundtrip_classification", int(mask.sum()))
    bad = (got != exp) & mask
    if bad.any():
        cols = np.nonzero(bad)[0][:6]
        ctx.violation("roundtrip_classification",
                      w(verts=p0, loaded=p1, points=[q[c].tolist() for c in cols],
                        expected=[bool(exp[c]) for c in cols], got=[bool(got[c]) for c in cols]),
                      message="reloaded filter classifies an off-boundary point differently "
                              "from the exact oracle on the saved polygon")
    if orig_filter is not None:
        g0 = orig_filter.filter(q[:, 0], q[:, 1])
        ctx.ev("roundtrip_same_as_original", int(mask.sum()))
        bad = (g0 != got) & mask
        if bad.any():
            cols = np.nonzero(bad)[0][:6]
            ctx.violation("roundtrip_same_as_original",
                          w(points=[q[c].tolist() for c in cols]),
                          message="original and reloaded filter disagree off the boundary")


def run_file(ctx, i):
    from dclab.polygon_filter import PolygonFilter, FilterIdExistsWarning
    from vmon import boot
    from vmon.gen.c15_polys import file_case
    rng = ctx.rng([K_FILE, i])
    # (every 25th file holds many filters: more text than any read buffer)
    many = i % 50 == 3
    filters, how = file_case(rng, _features(), max_filters=20 if not many else 600,
                             min_filters=1 if not many else 100)
    if many:
        ctx.count("files_with_many_filters")
    k = len(filters)
    path = boot.scratch() / f"c15_{os.getpid()}_{i}.poly"
    if path.exists():
        path.unlink()
    PolygonFilter.clear_all_filters()
    names = [f["name"] for f in filters]
    bad_k = equals_defect_model(names)
    desc = {"how": how, "n_filters": k, "names": names,
            "ids": [f["unique_id"] for f in filters]}
    ctx.count(f"file_save_mode[{how}]")
    ctx.count("file_filters_in_file[%s]" % ("1" if k == 1 else "2-5" if k <= 5 else
                                            "6-10" if k <= 10 else "11-20"))
    ctx.count("file_filters", k)
    try:
        created = []
        for f in filters:
            pf = PolygonFilter(axes=f["axes"], points=f["points"], inverted=f["inverted"],
                               name=f["name"], unique_id=f["unique_id"])
            ctx.check("id_allocation", pf.unique_id == f["expected_id"],
                      lambda: dict(desc, got=pf.unique_id, expected=f["expected_id"]),
                      message="identifier handed out differs from explicit id / max(id)+1")
            created.append(pf)
            ctx.count(f"file_name_kind[{f['name_kind']}]")
        exp_names = [pf.name for pf in created]
        for f, nm in zip(filters, exp_names):
            if f["name"] is not None and nm != f["name"]:
                ctx.violation("roundtrip_attrs", dict(desc, got=nm), message="constructor changed name")
        # ---- save
        if how == "each_path":
            for pf in created:
                pf.save(path)
        elif how == "save_all":
            PolygonFilter.save_all(path)
        elif how == "fobj_chain":
            fobj = path.open("w")
            for pf in created:
                fobj = pf.save(fobj, ret_fobj=True)
            fobj.close()
        else:  # two_sessions: append to a file written earlier
            h = max(1, k // 2)
            for pf in created[:h]:
                pf.save(str(path))
            for pf in created[h:]:
                pf.save(str(path))
    except Exception as exc:
        ctx.ev("no_exception")
        ctx.violation("no_exception", dict(desc, exc=repr(exc), phase="create/save"),
                      message=f"creating/saving filters raised {exc!r}")
        PolygonFilter.clear_all_filters()
        return
    exp_ids = [f["expected_id"] for f in filters]

    # ---- scenario A: import into an empty registry
    PolygonFilter.clear_all_filters()
    loaded = None
    try:
        with warnings.catch_warnings(record=True) as wlist:
            warnings.simplefilter("always")
            loaded = PolygonFilter.import_all(path)
        ctx.ev("no_exception")
        nwarn = sum(1 for w_ in wlist if issubclass(w_.category, FilterIdExistsWarning))
        if nwarn:
            ctx.count("unexpected_id_warnings_empty_registry", nwarn)
    except Exception as exc:
        ctx.ev("no_exception")
        predicted = (bad_k is not None and isinstance(exc, ValueError)
                     and "too many values to unpack" in str(exc)
                     and len(PolygonFilter.instances) == bad_k)
        ctx.violation("no_exception",
                      dict(desc, exc=repr(exc), phase="import_all", first_name_with_equals=bad_k,
                           filters_loaded_before_failure=len(PolygonFilter.instances)),
                      finding=MECH_EQUALS if predicted else None,
                      message=f"import_all of a file written by PolygonFilter.save raised {exc!r}")
    if loaded is not None:
        if bad_k is not None:
            # the defect model predicted a failure that did not happen: fine (fixed tree)
            ctx.count("equals_name_files_loaded")
        ctx.check("roundtrip_count", len(loaded) == k,
                  lambda: dict(desc, loaded=len(loaded)),
                  message=f"{k} filters saved, {len(loaded)} imported")
        for j, (f, lp) in enumerate(zip(filters, loaded)):
            _check_loaded(ctx, "A:empty-registry", f, exp_ids[j], exp_names[j], lp, rng,
                          True, created[j])
        _registry_ok(ctx, "after import into empty registry")

        # ---- scenario B: import again, identifiers are taken now
        if rng.random() < 0.6:
            try:
                before = {p.unique_id for p in PolygonFilter.instances}
                with warnings.catch_warnings(record=True) as wlist:
                    warnings.simplefilter("always")
                    again = PolygonFilter.import_all(path)
                ctx.count("id_collision_warnings",
                          sum(1 for w_ in wlist if issubclass(w_.category, FilterIdExistsWarning)))
                ids = [p.unique_id for p in PolygonFilter.instances]
                new_ids = [p.unique_id for p in again]
                ok = (len(again) == k and len(set(ids)) == len(ids)
                      and not (set(new_ids) & before))
                ctx.check("import_unique_ids", ok,
                          lambda: dict(desc, before=sorted(before), new=new_ids),
                          message="import into a populated registry: identifiers not unique")
                for j, (f, lp) in enumerate(zip(filters, again)):
                    _check_loaded(ctx, "B:populated-registry", f, exp_ids[j], exp_names[j], lp,
                                  rng, False, None)
                ctx.ev("no_exception")
            except Exception as exc:
                ctx.ev("no_exception")
                ctx.violation("no_exception", dict(desc, exc=repr(exc), phase="second import"),
                              message=f"second import_all raised {exc!r}")

    # ---- scenario D: the session is emptied with PolygonFilter.remove (not clear_all_filters)
    # before the file is loaded: every identifier in the file is free again and must come back
    if loaded is not None and rng.random() < 0.7:
        try:
            PolygonFilter.clear_all_filters()
            sess = [PolygonFilter(axes=f["axes"], points=f["points"], inverted=f["inverted"],
                                  name=f["name"], unique_id=f["unique_id"]) for f in filters]
            sess_ids = [p.unique_id for p in sess]
            order = list(rng.permutation(len(sess)))
            n_rm = len(sess) if rng.random() < 0.6 else int(rng.integers(1, len(sess) + 1))
            removed = []
            for j in order[:n_rm]:
                PolygonFilter.remove(sess_ids[j])
                removed.append(sess_ids[j])
                ctx.count("filters_removed")
            for uid in removed:
                gone = not PolygonFilter.unique_id_exists(uid)
                try:
                    PolygonFilter.get_instance_from_id(uid)
                    gone = False
                except KeyError:
                    pass
                ctx.check("removed_id_is_free", gone,
                          lambda: dict(desc, removed=removed, uid=uid),
                          message=f"identifier {uid} still resolves after PolygonFilter.remove")
            kept = set(sess_ids) - set(removed)
            with warnings.catch_warnings(record=True) as wlist:
                warnings.simplefilter("always")
                third = PolygonFilter.import_all(path)
            ctx.ev("no_exception")
            ctx.check("roundtrip_count", len(third) == k, lambda: dict(desc, loaded=len(third)),
                      message=f"{k} filters saved, {len(third)} imported after remove()")
            taken = set(kept)
            for j, (f, lp) in enumerate(zip(filters, third)):
                free = exp_ids[j] not in taken
                _check_loaded(ctx, "D:after-remove", f, exp_ids[j], exp_names[j], lp, rng,
                              free, None)
                taken.add(lp.unique_id)
            ids = [p.unique_id for p in PolygonFilter.instances]
            ctx.check("import_unique_ids", len(set(ids)) == len(ids),
                      lambda: dict(desc, ids=ids), message="identifiers not unique after remove+import")
            _registry_ok(ctx, "after remove + import")
        except Exception as exc:
            ctx.ev("no_exception")
            ctx.violation("no_exception", dict(desc, exc=repr(exc), phase="remove + import"),
                          message=f"remove + import_all raised {exc!r}")

    # ---- scenario C: direct access by file index
    PolygonFilter.clear_all_filters()
    for j in sorted(set(int(v) for v in rng.integers(0, k, 2))):
        try:
            lp = PolygonFilter(filename=path, fileid=j)
            ctx.ev("no_exception")
            ctx.count("fileid_loads")
            _check_loaded(ctx, "C:fileid", filters[j], exp_ids[j], exp_names[j], lp, rng,
                          True, None)
            PolygonFilter.remove(lp.unique_id)
        except Exception as exc:
            ctx.ev("no_exception")
            nm = filters[j]["name"]
            predicted = (nm is not None and "=" in nm and isinstance(exc, ValueError)
                         and "too many values to unpack" in str(exc))
            ctx.violation("no_exception", dict(desc, exc=repr(exc), phase=f"fileid={j}", name=nm),
                          finding=MECH_EQUALS if predicted else None,
                          message=f"PolygonFilter(filename, fileid={j}) raised {exc!r}")
    PolygonFilter.clear_all_filters()
    try:
        path.unlink()
    except OSError:
        pass
    if k >= 2:
        ctx.mark_nontrivial("p%015x" % i)
    if i % 401 == 0:
        ctx.sample({"kind": "file", "case": i, "how": how, "n_filters": k,
                    "names": names[:5], "expected_ids": exp_ids[:5]})


# ------------------------------------------------------------------- sanitizer adjunct
def run_dataset(ctx, i):
    """The same guarantees through the dataset entry point: a polygon filter attached to a
    dataset, applied repeatedly while it is inverted / restored / moved and while other filter
    settings change; `ds.filter.polygon` is compared with the exact oracle after every apply."""
    import dclab
    from dclab.polygon_filter import PolygonFilter
    from vmon.gen.c15_polys import file_case
    from vmon.model.c15_evenodd import classify_float, batch_halfopen
    rng = ctx.rng([K_DS, i])
    filters, _how = file_case(rng, _features())
    f = filters[0]
    q = _query_points(f, rng)
    n = len(q)
    PolygonFilter.clear_all_filters()
    if f["axes"][0] == f["axes"][1]:
        return
    other = [u for u in ("userdef9", "userdef8", "userdef7") if u not in f["axes"]][0]
    ds = dclab.new_dataset({f["axes"][0]: q[:, 0].copy(), f["axes"][1]: q[:, 1].copy(),
                            other: rng.normal(size=n)})
    # the client builds the filter from a vertex buffer it keeps (and re-uses for its next
    # polygon): a float64 array, a slice of a larger one or a read-only view of it
    form = int(rng.integers(0, 4))
    buf = np.array(f["points"], dtype=np.float64)
    if form == 1:
        big = np.zeros((len(buf) + 3, 2))
        big[2:2 + len(buf)] = buf
        buf = big
        given = big[2:2 + len(f["points"])]
    elif form == 2:
        given = buf.view()
        given.flags.writeable = False
    elif form == 3:
        given = f["points"]
    else:
        given = buf
    ctx.count(f"dataset_filter_vertices_given_as[{form}]")
    pf = PolygonFilter(axes=f["axes"], points=given, inverted=f["inverted"])
    ds.polygon_filter_add(pf)
    hist = []
    pf_expected = None
    cur = np.array(f["points"], dtype=float)        # the polygon the filter should hold now
    handed = None                                   # vertex array shared with the filter
    try:
        for step in range(int(rng.integers(3, 9))):
            r = rng.random()
            if step and r < 0.2:
                # a vertex is moved: through the setter with a new array, or (the way an
                # interactive editor does it) in the array that was handed to the setter
                k = int(rng.integers(0, len(cur)))
                if f["ptype"] == "grid":
                    new = cur[k] + rng.integers(-2, 3, size=2)
                else:
                    new = q[int(rng.integers(0, n))] * (1 + 1e-3 * rng.normal(size=2))
                cur = cur.copy()
                cur[k] = new
                if rng.random() < 0.5:
                    pf.points = cur.copy()
                    handed = None
                    hist.append(["vertex moved (setter, new array)", k])
                else:
                    if handed is None:
                        handed = pf.points
                        pf.points = handed
                    handed[k] = new
                    hist.append(["vertex moved (in the array handed to the setter)", k])
                ctx.count("dataset_vertex_moves")
            elif step and r < 0.25 and form != 3 and rng.random() < 0.5:
                # the client re-uses its vertex buffer for the next polygon; the filter was
                # constructed from the vertices as they were
                if f["ptype"] == "grid":
                    buf += rng.integers(-3, 4, size=2)
                else:
                    buf *= 1 + 0.37 * rng.random()
                hist.append(["client re-used the buffer the filter was constructed from"])
                ctx.count("dataset_client_buffer_reused")
            elif step and r < 0.25:
                pf.inverted = not pf.inverted
                hist.append(["invert", bool(pf.inverted)])
            elif step and r < 0.45:
                # the documented way to obtain the complement: an inverted copy (of a filter
                # that may itself be inverted already) replaces the filter
                was = bool(pf.inverted)
                pf2 = pf.copy(invert=True)
                ctx.check("copy_invert_flag", bool(pf2.inverted) == (not was),
                          lambda: {"history": hist[-8:], "inverted_before": was,
                                   "inverted_copy": bool(pf2.inverted)},
                          message=f"copy(invert=True) of a filter with inverted={was} has "
                                  f"inverted={pf2.inverted}")
                ds.polygon_filter_rm(pf)
                ds.polygon_filter_add(pf2)
                pf = pf2
                handed = None
                expected_inverted = not was
                hist.append(["replaced by copy(invert=True)", expected_inverted])
                # the oracle below uses the flag the copy *should* have
                pf_expected = expected_inverted
            elif step and r < 0.6:
                lo, hi = sorted(rng.normal(size=2))
                ds.config["filtering"][other + " min"] = float(lo)
                ds.config["filtering"][other + " max"] = float(hi)
                hist.append(["range on another feature"])
            elif step and r < 0.7:
                cur = np.roll(cur, 1, axis=0)                   # same polygon, shifted start
                if handed is not None and rng.random() < 0.5:
                    handed[:] = np.roll(handed, 1, axis=0)
                else:
                    pf.points = np.roll(pf.points, 1, axis=0)
                    handed = None
                hist.append(["cyclic shift of the vertices"])
            else:
                hist.append(["apply"])
            ds.apply_filter()
            got = np.array(ds.filter.polygon, dtype=bool)
            p0 = cur
            if f["ptype"] == "grid":
                ins, onb, _rt = batch_halfopen((2 * p0).astype(np.int64)[None],
                                               np.rint(2 * q).astype(np.int64))
                ins, mask = ins[0], ~onb[0]
            else:
                cl = classify_float(p0, q, euclid_band=True)
                ins = np.array(cl["inside"], bool)
                mask = ~(np.array(cl["near_e"], bool) | np.array(cl["near"], bool)
                         | np.array(cl["onb"], bool))
            exp = ins ^ bool(pf.inverted if pf_expected is None else pf_expected)
            pf_expected = None
            ctx.ev("dataset_filter_exact", int(mask.sum()))
            bad = (got != exp) & mask
            if bad.any():
                cols = np.nonzero(bad)[0][:5]
                ctx.violation("dataset_filter_exact",
                              {"history": hist[-8:], "inverted_now": bool(pf.inverted),
                               "axes": list(f["axes"]), "verts": p0, "points": [q[c].tolist() for c in cols],
                               "expected": [bool(exp[c]) for c in cols],
                               "got": [bool(got[c]) for c in cols]},
                              message="ds.filter.polygon differs from exact even-odd containment "
                                      f"(inverted={pf.inverted}) after {hist[-3:]}")
                break
        ctx.count("dataset_histories")
        if any(h[0] == "invert" for h in hist):
            ctx.mark_nontrivial("d%015x" % i)
    finally:
        PolygonFilter.clear_all_filters()


def run_asan(ctx, spec):
    """DESIGN 2.8: re-run a slice of the workload on ASan+UBSan builds of the shipped .c
    files.  Anything that prevents the run is reported as 'not run', never as a violation."""
    import re
    import shutil
    from vmon import boot, native

    def not_run(why):
        ctx.count(f"sanitizer_adjunct_not_run[{why}]")
        ctx.sample({"kind": "sanitizer adjunct", "status": "not run", "why": why})

    if shutil.which("clang") is None:
        return not_run("no clang")
    dest = boot.scratch() / "asan"
    try:
        overlay, env_add = native.build_sanitized(dest)
    except Exception as exc:
        return not_run("build failed: " + repr(exc)[:80])
    try:
        # boot.boot() verifies that dclab was imported from $VERIF_REPO after resolving
        # symlinks; the overlay consists of symlinks into the repository, so give the
        # package's __init__.py a real copy (inside the scratch overlay only).
        ini = dest / "dclab" / "__init__.py"
        if ini.is_symlink():
            target = ini.resolve()
            ini.unlink()
            shutil.copy(target, ini)
    except Exception as exc:
        return not_run("overlay fix-up failed: " + repr(exc)[:80])
    try:
        sos = [p for p in (dest / "dclab" / "external" / "skimage").rglob("*.so")
               if p.name.startswith(("_pnpoly", "geometry"))]
        if len(sos) < 2 or not all(b"__asan_report" in p.read_bytes() for p in sos):
            return not_run("sanitized extensions missing or not instrumented")
        ctx.count("sanitizer_instrumented_extensions_verified", len(sos))
    except Exception as exc:
        return not_run("cannot inspect sanitized extensions: " + repr(exc)[:80])
    if not os.path.exists(env_add.get("LD_PRELOAD", "/nonexistent")):
        return not_run("asan runtime library missing")
    cases = ([[K_GRID3, j] for j in (0, 1, 5, 40, 259)] + [[K_GRID4, j] for j in (0, 9, 700)]
             + [[K_GRIDRAND, j] for j in range(12)] + [[K_FLOAT, j] for j in range(300)]
             + [[K_FILE, j] for j in range(40)])
    sub = {"kind": "mix", "cases": cases, "seed": ctx.seed, "tier": "quick", "shard": 9000}
    specfile, outfile = dest / "spec.json", dest / "out.json"
    with open(specfile, "w") as fd:
        json.dump(sub, fd)
    env = dict(os.environ)
    env.update(env_add)
    env["ASAN_OPTIONS"] = f"detect_leaks=0:halt_on_error=0:log_path={dest}/asan.log"
    env["UBSAN_OPTIONS"] = f"print_stacktrace=1:log_path={dest}/asan.log"
    env["C15_ASAN_CHILD"] = "1"
    try:
        cp = subprocess.run([sys.executable, "-m", "vmon.shard", PROP, str(specfile), str(outfile)],
                            env=env, cwd=str(boot.VERIF), capture_output=True, text=True,
                            timeout=1500)
    except Exception as exc:
        return not_run("child did not finish: " + repr(exc)[:80])
    text = cp.stderr or ""
    for p in dest.glob("asan.log*"):
        try:
            text += "\n" + p.read_text(errors="replace")
        except OSError:
            pass
    blocks = re.findall(r"(?:ERROR: AddressSanitizer[^\n]*|[^\n]*runtime error:[^\n]*)"
                        r"(?:\n\s+#\d+[^\n]*)*", text)
    reports = {}
    for blk in blocks:
        frames = [ln.strip() for ln in blk.splitlines()[1:]]
        top = next((fr for fr in frames if "dclab" in fr or "geometry.c" in fr
                    or "_pnpoly.c" in fr), None)
        key = (blk.splitlines()[0].strip()[:160], top)
        reports[key] = reports.get(key, 0) + 1
    res = None
    if outfile.exists():
        with open(outfile) as fd:
            res = json.load(fd)
    if res is None and not reports:
        return not_run(f"child exit {cp.returncode} without result: " + text[-200:].replace("\n", " "))
    in_dclab = {k: v for k, v in reports.items() if k[1] is not None}
    ctx.count("sanitizer_adjunct_ran")
    ctx.count("sanitizer_report_blocks", sum(reports.values()))
    ctx.count("sanitizer_reports_distinct_in_dclab_frames", len(in_dclab))
    if res is not None:
        so = [k for k in res["counters"] if k.startswith("native_so[")]
        ctx.count("sanitizer_child_points_in_poly_calls",
                  sum(v for k, v in res["counters"].items()
                      if k.startswith("points_in_poly_calls_from[")))
        ctx.count("sanitizer_child_violations", len(res["violations"]))
        loaded_overlay = any(str(overlay) in k for k in so)
        if not loaded_overlay:
            return not_run("child did not load the sanitized extension: " + ";".join(so)[:120])
    for (head, top), n in in_dclab.items():
        ctx.ev("sanitizer")
        ctx.violation("sanitizer", {"report": head, "top_dclab_frame": top, "count": n},
                      message="sanitizer report on code reached by the C15 workload: " + head)
    if not in_dclab:
        ctx.ev("sanitizer")
        ctx.sample({"kind": "sanitizer adjunct", "status": "no report on the reached code "
                    "(ASan+UBSan build of _pnpoly.c/geometry.c)", "child_exit": cp.returncode,
                    "other_reports": [list(map(str, k)) for k in reports][:3]})


# ------------------------------------------------------------------------------------ run
def run(spec, ctx):
    if spec.get("kind") == "asan":
        for _case in ctx.case_ids():
            run_asan(ctx, spec)
        return
    _St.ctx = ctx
    install()
    if os.environ.get("C15_ASAN_CHILD"):
        from dclab.external.skimage import _pnpoly
        from dclab.external.skimage._shared import geometry
        ctx.count(f"native_so[{_pnpoly.__file__}]")
        ctx.count(f"native_so[{geometry.__file__}]")
    for s in _St.sites:
        ctx.count(f"points_in_poly_bound_at[{s}]")
    for case in ctx.case_ids():
        code, i = int(case[0]), int(case[1])
        if code in (K_GRID3, K_GRID4):
            run_grid(ctx, code, i)
        elif code == K_GRIDRAND:
            run_gridrand(ctx, i)
        elif code == K_FLOAT:
            run_float(ctx, i)
        elif code == K_FILE:
            run_file(ctx, i)
        elif code == K_DS:
            run_dataset(ctx, i)
    _St.ctx = None
