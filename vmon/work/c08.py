"""C08 - compress, repack, condense and tdms2rtdc preserve dataset content.

Deciding monitors: contracts on the real dclab.cli task functions
(vmon.monitors.cli_tasks): sha256 of the input snapshotted at call time; the produced file
is compared with the input by an HDF5 structural/value comparer with an allow-list of the
documented differences; condense is compared feature-by-feature with a freshly opened
input dataset; tdms2rtdc is observed by the export contract and compared with the source.
Idempotence: the task is applied to its own output and the two outputs compared.
"""
import shutil

import numpy as np

PROP = "C08"
LEVEL = "exploration"
RULE = ("case = generated .rtdc file written with raw h5py in a random storage layout "
        "(contiguous/chunked/chunks longer than data/gzip/lzf/zstd-1/zstd-5, vlen or fixed logs, "
        "empty log, tables with attributes, internal/file/mapped basins, empty scalar feature, "
        "unknown extra feature, with/without stored summaries) x task (compress, repack with "
        "strip options, condense with ancillary/basin options, each also applied to its own "
        "output) plus the .tdms fixtures for tdms2rtdc and condense. Non-trivial = input with a "
        "non-default storage layout, a basin or a table; distinct by hash of (layout, task, options)")
LEVEL_TEXT = ("Held on the observed executions: for each generated input file and task the output "
              "is value-identical to the input in features, logs, tables, metadata and basin "
              "definitions apart from the documented differences, the input's sha256 is unchanged, "
              "and a second application changes no data. Exploration over inputs x options.")
LEVEL_NOTE = ("trusted: h5py/numpy, the raw-h5py file generator, the comparer's allow-list (added "
              "task logs, summary attributes on scalar features, stripped parts, dropped empty "
              "datasets, datasets under /events that dclab does not define)")
TECHNIQUE = ("runtime monitoring: snapshot(sha256)+post-condition contracts on the real CLI task "
             "functions, offline HDF5 equivalence checker with allow-list; idempotence check")
ASSUMPTIONS = ["inputs are generated with raw h5py (not by the writer under test)",
               "empty logs/datasets are dropped by design and not judged"]
MIN_EVALS = {"c08.compress.content": 40, "c08.repack.content": 40,
             "c08.condense.scalar_features": 30, "c08.compress.input_unmodified": 40,
             "c08.idempotent": 40}
WATCHDOG_S = {"quick": 400, "thorough": 3000}


def plan(tier, seed):
    n = 192 if tier == "quick" else 4800
    k = 16
    per = n // k
    sh = [{"kind": "layout", "cases": {"start": i * per, "stop": (i + 1) * per}}
          for i in range(k)]
    sh.append({"kind": "tdms", "cases": {"start": 0, "stop": 3 if tier == "quick" else 7}})
    return sh


def data_equal(ctx, p1, p2, task, desc):
    """Idempotence: same data in both outputs (task logs excepted)."""
    import h5py
    from vmon.model import h5equiv
    from vmon.monitors.cli_tasks import TASK_LOG, _extra_attrs
    diffs = []
    with h5py.File(p1, "r") as h1, h5py.File(p2, "r") as h2:
        diffs += h5equiv.compare_attrs(dict(h1.attrs), dict(h2.attrs), "/")
        for grp in ("events", "tables", "basins", "basin_events", "logs"):
            g1 = h1[grp] if grp in h1 else {}
            g2 = h2[grp] if grp in h2 else {}
            skip = {n for n in g1 if TASK_LOG.match(n)} if grp == "logs" else ()
            if g1:
                d, extra = h5equiv.compare_group(g1, g2, "/" + grp, skip=skip,
                                                 allow_extra_attrs=_extra_attrs)
                diffs += d
                diffs += [{"where": f"/{grp}/{e}", "extra_in_second_output": True}
                          for e in extra if not (grp == "logs" and TASK_LOG.match(e))]
    ctx.check("c08.idempotent", not diffs, lambda: dict(desc, task=task, diffs=diffs[:5]),
              message=f"{task} applied to its own output changed data: {diffs[:2]}")


def run_layout_case(ctx, idx):
    import dclab
    import dclab.cli as cli
    from vmon import boot
    from vmon.gen import dataset as gd, h5layout
    rng = ctx.rng(idx)
    tmp = boot.scratch() / f"c08_{idx}"
    tmp.mkdir()
    try:
        model = gd.gen_model(rng, n=int(rng.integers(1, 60)), realistic=True, hostile_logs=True,
                             special=0.1)
        model["features"].pop("contour", None)
        opts = {
            "empty_scalar": bool(rng.random() < 0.15),
            "unknown_feature": bool(rng.random() < 0.15),
            "empty_log": bool(rng.random() < 0.2),
        }
        internal = None
        if rng.random() < 0.3:
            k = int(rng.integers(1, 6))
            internal = {"data": {"userdef3": rng.normal(size=k),
                                 "userdef4": rng.normal(size=k)},
                        "map": rng.integers(0, k, model["n"])}
            if rng.random() < 0.5 and "image_bg" not in model["features"]:
                # shared background rows: a non-scalar feature in the internal basin (only
                # when the file does not store image_bg itself: a stored feature shadows it)
                img = model["features"].get("image")
                shp = img.shape[1:] if img is not None else (8, 9)
                internal["data"]["image_bg"] = rng.integers(0, 255, (k,) + tuple(shp),
                                                            dtype=np.uint8)
        extra = []
        kind_basin = rng.random()
        if kind_basin < 0.3:
            # file basin (same mapping) next to the input
            origin = gd.gen_model(rng, n=model["n"], kinds={"scalar"}, hostile_logs=False)
            origin["meta"] = {s: dict(kv) for s, kv in model["meta"].items()}
            origin["features"] = {"userdef5": rng.normal(size=model["n"]),
                                  "userdef6": rng.normal(size=model["n"])}
            origin["logs"], origin["tables"] = {}, {}
            gd.write_model(tmp / "origin.rtdc", origin)
            extra.append({"description": "file basin", "format": "hdf5", "name": "origin",
                          "type": "file", "features": None, "mapping": "same",
                          "paths": [str(tmp / "origin.rtdc"), "origin.rtdc"]})
        mapped = None
        if 0.3 <= kind_basin < 0.55:
            # file basin with its own (shorter or longer) event list, referred to through a
            # mapping stored in the input
            km = int(rng.integers(1, model["n"] + 4))
            origin = gd.gen_model(rng, n=km, kinds={"scalar"}, hostile_logs=False)
            origin["meta"] = {s: dict(kv) for s, kv in model["meta"].items()}
            origin["meta"]["experiment"]["event count"] = km
            origin["features"] = {"userdef7": rng.normal(size=km) * 1e3,
                                  "userdef8": rng.uniform(0, 1, size=km)}
            origin["logs"], origin["tables"] = {}, {}
            gd.write_model(tmp / "origin_mapped.rtdc", origin)
            mname = "basinmap1" if internal else "basinmap0"
            mapped = (mname, rng.integers(0, km, model["n"]).astype(np.uint64))
            extra.append({"description": "mapped file basin", "format": "hdf5",
                          "name": "origin mapped", "type": "file",
                          "features": ["userdef7", "userdef8"], "mapping": mname,
                          "paths": [str(tmp / "origin_mapped.rtdc"), "origin_mapped.rtdc"]})
            ctx.count("inputs_with_mapped_file_basin")
        pin = tmp / "input.rtdc"
        # the file's version chain: recorded with Shape-In, possibly processed by an old dclab
        # before the current one wrote it (only the last entry says who wrote the data)
        vers = dclab.__version__
        if rng.random() < 0.5:
            vers = str(rng.choice(["0.35.0", "0.36.1", "0.46.3", "0.48.1"])) + " | dclab " + vers
            ctx.count("inputs_with_old_dclab_entry_in_version_chain")
            if rng.random() < 0.7 and "volume" not in model["features"]:
                model["features"]["volume"] = rng.uniform(100, 4000, model["n"])
        desc = h5layout.write_layout(pin, model, rng, version=vers,
                                     internal_basin=internal, extra_basins=extra, **opts)
        if mapped is not None:
            import h5py as _h5
            with _h5.File(pin, "a") as _h:
                _h["events"].create_dataset(mapped[0], data=mapped[1])
        case = {"model": gd.describe(model), "layout": desc["options"],
                "storages": sorted(set(desc["storage"].values()))}
        nontriv = bool(set(desc["storage"].values()) - {"contiguous", "fixed-contiguous"}
                       or internal or extra or model["tables"])
        task = str(rng.choice(["compress", "repack", "condense"]))
        try:
            if task == "compress":
                out1 = cli.compress(path_in=pin, path_out=tmp / "o1.rtdc", ret_path=True)
                out2 = cli.compress(path_in=out1, path_out=tmp / "o2.rtdc", ret_path=True)
                data_equal(ctx, out1, out2, task, case)
                if rng.random() < 0.5:
                    # a third and fourth run: the command logs of all earlier runs are kept
                    out3 = cli.compress(path_in=out2, path_out=tmp / "o3.rtdc", ret_path=True)
                    cli.compress(path_in=out3, path_out=tmp / "o4.rtdc", ret_path=True)
                    ctx.count("compress_chains_of_four")
                topts = {}
            elif task == "repack":
                topts = {"strip_logs": bool(rng.random() < 0.3),
                         "strip_basins": bool(rng.random() < 0.3)}
                out1 = cli.repack(path_in=pin, path_out=tmp / "o1.rtdc", ret_path=True, **topts)
                out2 = cli.repack(path_in=out1, path_out=tmp / "o2.rtdc", ret_path=True, **topts)
                data_equal(ctx, out1, out2, task, case)
            else:
                topts = {"store_ancillary_features": bool(rng.random() < 0.6),
                         "store_basin_features": bool(rng.random() < 0.7)}
                if rng.random() < (0.8 if (internal or mapped) else 0.3):
                    # the library form of the task: the client condenses a dataset it has
                    # opened and already looked at (DESIGN 7.5) into an HDF5 file of its own
                    import h5py
                    from dclab.cli import condense_dataset
                    from vmon.gen.touch import client_touch
                    from vmon.monitors import cli_tasks as _ct
                    outu = tmp / "o_used.rtdc"
                    with dclab.new_dataset(
                            pin, enable_basins=topts["store_basin_features"]) as dsu, \
                            h5py.File(outu, "w") as h5c:
                        # (only features that come from basins: reading a compressed feature
                        # stored in the file itself and then copying it with H5Ocopy through
                        # the same handle overflows a heap buffer inside HDF5 2.0.0 -
                        # findings/hdf5_h5ocopy_overflow, DESIGN 5)
                        own = set(dsu.h5file["events"]) if "events" in dsu.h5file else set()
                        touched = client_touch(
                            rng, dsu, sorted(set(dsu.features_basin) - own), ctx, p=0.8,
                            forms=[0, 2, 3, 3, 4, 4, 5, 6])
                        condense_dataset(ds=dsu, h5_cond=h5c, **topts)
                    _ct.check_condense(ctx, pin, outu, topts["store_ancillary_features"],
                                       topts["store_basin_features"],
                                       dict(case, form="condense_dataset(ds the client used)",
                                            client_accesses_before=touched))
                    ctx.count("condense_of_a_used_dataset")
                out1 = cli.condense(path_in=pin, path_out=tmp / "o1.rtdc", ret_path=True, **topts)
                if rng.random() < 0.6:
                    # the condensed file is processed again (the contracts on the task
                    # functions compare each output with its own input)
                    nxt = str(rng.choice(["repack", "compress", "condense"]))
                    if nxt == "repack":
                        cli.repack(path_in=out1, path_out=tmp / "o2.rtdc", ret_path=True)
                    elif nxt == "compress":
                        cli.compress(path_in=out1, path_out=tmp / "o2.rtdc", ret_path=True)
                    else:
                        cli.condense(path_in=out1, path_out=tmp / "o2.rtdc", ret_path=True,
                                     **topts)
                    ctx.count(f"second_task_after_condense[{nxt}]")
            ctx.ev("task_no_exception")
        except Exception as exc:
            import traceback
            topts = {}
            finding = None
            tb = traceback.format_exc()
            if opts["empty_scalar"] and isinstance(exc, AttributeError) \
                    and "'NoneType' object has no attribute 'attrs'" in str(exc):
                finding = "copy-crashes-on-empty-scalar-feature"
            ctx.ev("task_no_exception")
            ctx.violation("task_no_exception", dict(case, task=task, exc=repr(exc),
                                                    tb=tb[-1200:]), finding=finding,
                          message=f"{task} raised {exc!r}")
        ctx.count(f"task[{task}]")
        for s in set(desc["storage"].values()):
            ctx.count(f"storage[{s}]")
        if nontriv:
            ctx.mark_nontrivial([case, task, topts])
        if idx % 40 == 0:
            ctx.sample(dict(case, task=task, options=topts))
    finally:
        shutil.rmtree(tmp, ignore_errors=True)


def run_tdms_case(ctx, idx):
    import dclab
    import dclab.cli as cli
    from vmon import boot
    from vmon.model import dscmp
    from vmon.work.c02 import tdms_fixture
    names = ["fmt-tdms_minimal_2016.zip", "fmt-tdms_fl-image_2016.zip",
             "fmt-tdms_2fl-no-image_2017.zip", "fmt-tdms_fl-image-bright_2017.zip",
             "fmt-tdms_fl_2015.zip", "fmt-tdms_shapein-2.0.1-no-image_2017.zip",
             "fmt-tdms_fl-image-large-fov_2017.zip"]
    name = names[idx % len(names)]
    tmp = boot.scratch() / f"c08_tdms_{idx}"
    tmp.mkdir()
    try:
        src = tdms_fixture(name)
        from vmon.monitors.cli_tasks import sha256
        shas = {p: sha256(p) for p in src.parent.iterdir() if p.is_file()}
        from dclab.rtdc_dataset import writer as dwriter
        n_exported = {}
        runs = [(True, None), (False, None), (True, "remainder-1"), (False, "remainder-1")]
        for skip, chunk_mode in runs:
            out = tmp / f"out_{skip}_{chunk_mode}.rtdc"
            dwriter.CHUNK_SIZE_BYTES = 1024 ** 2
            if chunk_mode is not None:
                # chunk-size configuration under which the last image stack of the export
                # holds exactly one event (stack length = events - 1, at least 10)
                n_, fb_ = n_exported.get(skip, (0, 0))
                if n_ < 12 or not fb_:
                    ctx.count("tdms_chunk_configuration_not_applicable")
                    continue
                dwriter.CHUNK_SIZE_BYTES = fb_ * (n_ - 1) + fb_ // 2
                ctx.count("tdms_runs_with_single_event_remainder")
            try:
                cli.tdms2rtdc(path_tdms=src, path_rtdc=out, compute_features=False,
                              skip_initial_empty_image=skip, skip_final_empty_image=skip,
                              verbose=False)
                ctx.ev("task_no_exception")
            except Exception as exc:
                ctx.ev("task_no_exception")
                ctx.violation("task_no_exception", {"fixture": name, "exc": repr(exc)},
                              message=f"tdms2rtdc raised {exc!r}")
                continue
            with dclab.new_dataset(src) as ds, dclab.new_dataset(out) as do:
                keep = np.ones(len(ds), bool)
                if skip:
                    cli.common.skip_empty_image_events(ds, initial=True, final=True)
                    keep = np.array(ds.filter.all, copy=True)
                # documented: the export is limited to the shortest feature
                from vmon.monitors.export import feature_len
                lmin = min(feature_len(ds, f) for f in ds.features_innate)
                keep[lmin:] = False
                idxs = np.flatnonzero(keep)
                fbytes = 0
                for f_ in ("image", "mask"):
                    if f_ in ds.features_innate and len(idxs):
                        fr = np.asarray(ds[f_][int(idxs[0])])
                        fbytes = max(fbytes, fr.size * (1 if f_ == "mask" else fr.dtype.itemsize))
                if chunk_mode is None:
                    n_exported[skip] = (int(len(idxs)), int(fbytes))
                diffs = []
                if len(do) != len(idxs):
                    diffs.append({"len_out": len(do), "expected": int(len(idxs))})
                else:
                    from vmon.monitors import export as emon, writer as wmon
                    for f in ds.features_innate:
                        exp = emon.expected_feature(ds, f, idxs)
                        if f not in do.features_innate:
                            diffs.append({"feature": f, "missing": True})
                            continue
                        if f in emon.UINT32 | emon.UINT64:
                            tdt = np.uint32 if f in emon.UINT32 else np.uint64
                            if not wmon.representable(np.asarray(exp), tdt):
                                ctx.count("skipped_unrepresentable_unsigned_feature")
                                continue
                            exp = np.asarray(exp).astype(tdt)
                        d = dscmp.feature_equal(do[f], exp, f)
                        if d:
                            diffs.append({"feature": f, "diff": d})
                ctx.check("c08.tdms2rtdc.features", not diffs,
                          lambda: {"fixture": name, "skip_empty": skip, "diffs": diffs[:5],
                                   "chunk_size_bytes": dwriter.CHUNK_SIZE_BYTES,
                                   "events": int(len(idxs))},
                          message=f"tdms2rtdc output differs from the .tdms source: {diffs[:2]}")
                ctx.mark_nontrivial(["tdms", name, skip, chunk_mode])
        dwriter.CHUNK_SIZE_BYTES = 1024 ** 2
        # condense of a tdms input
        outc = tmp / "cond.rtdc"
        try:
            cli.condense(path_in=src, path_out=outc)
            ctx.ev("task_no_exception")
        except Exception as exc:
            ctx.ev("task_no_exception")
            ctx.violation("task_no_exception", {"fixture": name, "task": "condense",
                                                "exc": repr(exc)},
                          message=f"condense of a .tdms file raised {exc!r}")
        bad = [str(p.name) for p, h in shas.items() if sha256(p) != h]
        ctx.check("c08.tdms2rtdc.input_unmodified", not bad, {"fixture": name, "changed": bad},
                  message=f"tdms input files modified: {bad}")
        ctx.sample({"kind": "tdms", "fixture": name})
    finally:
        shutil.rmtree(tmp, ignore_errors=True)


def run_long_case(ctx, idx):
    """A long measurement (scalar features only, more events than one storage chunk holds,
    with a remainder after the last full chunk) whose further features come from a file basin:
    the tasks must carry every event over (the contracts on the task functions judge)."""
    import dclab
    import dclab.cli as cli
    from vmon import boot
    from vmon.gen import dataset as gd
    rng = ctx.rng(idx, salt=9)
    tmp = boot.scratch() / f"c08_long_{idx}"
    tmp.mkdir()
    try:
        n = int(rng.choice([131073, 150000, 262144 + 5000]))
        meta = gd.complete_meta(rng, {}, n)
        meta["experiment"]["run identifier"] = f"long-{idx}"
        origin = tmp / "origin.rtdc"
        with dclab.RTDCWriter(origin, mode="reset") as hw:
            hw.store_metadata(meta)
            hw.store_feature("area_um", rng.uniform(20, 200, n))
            hw.store_feature("bright_avg", np.linspace(90, 110, n) + rng.normal(size=n))
        pin = tmp / "input.rtdc"
        with dclab.RTDCWriter(pin, mode="reset") as hw:
            hw.store_metadata(meta)
            hw.store_feature("deform", rng.uniform(0.01, 0.2, n))
            hw.store_basin(basin_name="origin", basin_type="file", basin_format="hdf5",
                           basin_locs=[str(origin)], basin_feats=["area_um", "bright_avg"])
        task = str(rng.choice(["condense", "condense", "compress", "repack"]))
        try:
            getattr(cli, task)(path_in=pin, path_out=tmp / "o1.rtdc")
            ctx.ev("task_no_exception")
        except Exception as exc:
            ctx.ev("task_no_exception")
            ctx.violation("task_no_exception", {"task": task, "n": n, "exc": repr(exc)},
                          message=f"{task} of a long measurement raised {exc!r}")
        ctx.count(f"long_measurements[{task}]")
        ctx.mark_nontrivial(["long", n, task])
    finally:
        shutil.rmtree(tmp, ignore_errors=True)


def run(spec, ctx):
    from vmon.monitors import cli_tasks, export as emon, writer as wmon
    wmon.install(ctx)
    emon.install(ctx)
    cli_tasks.install(ctx)
    for idx in ctx.case_ids():
        try:
            if spec["kind"] == "layout":
                if idx % 40 == 11:
                    run_long_case(ctx, idx)
                run_layout_case(ctx, idx)
            else:
                run_tdms_case(ctx, idx)
        except Exception as exc:
            ctx.raised("c08.no_exception", f"case {idx}", exc)
