"""C04 - a hierarchy child is exactly the filtered view of its parent.

Monitors
* post-condition on the real RTDC_Hierarchy.apply_filter of the *youngest* member (installed
  as a wrapper; evaluated after every refresh in every workload): walking up to the root, each
  level must satisfy len(child) == parent.filter.all.sum() and child[f] == parent[f][mask] for
  every feature kind under integer, slice, boolean-mask and whole-array access;
* RootIndexModel in the driver: the user's manual exclusions are recorded in root coordinates
  (computed by composing np.flatnonzero of the observable parent masks, independently of
  dclab's mapper); after every refresh each recorded exclusion that is visible in the child
  must still be excluded (persistence) and no event that was never excluded may be excluded
  (no spurious exclusion).
"""
import warnings

import numpy as np

PROP = "C04"
LEVEL = "exploration"
RULE = ("history (<=30 ops) on a hierarchy of depth 1-4 over a dict or HDF5 root with 3-80 events: "
        "range edits on any level, manual exclusions on any level (only while that level is "
        "current), temporary-feature assignment on any level, root configuration change that "
        "alters a computed feature, refresh of the youngest member, refresh of a middle member "
        "followed later by the youngest; events leave a child and come back (parent range narrowed "
        "then widened). Non-trivial = depth >= 2 and >= 2 refreshes with an ancestor filter change "
        "in between; distinct by hash of the history")
LEVEL_TEXT = ("Held on the observed executions: after every refresh from the youngest member each "
              "level equals the filtered view of its parent for all feature kinds and access "
              "patterns, and manual exclusions follow the underlying root events (persistence and "
              "no spurious exclusion). Exploration over operation histories.")
LEVEL_NOTE = ("trusted: the parents' observable filter.all arrays (C03 decides those), numpy mask "
              "composition. Don't-care: events the user excluded and later re-included are never "
              "generated; manual edits only on levels whose size is current")
TECHNIQUE = ("runtime monitoring: post-condition on the real hierarchy refresh + root-index set "
             "model of user exclusions, driven by generated operation histories")
ASSUMPTIONS = ["manual exclusions are never reverted by the workload"]
MIN_EVALS = {"c04.child_len": 1500, "c04.child_feature": 5000, "c04.exclusion_persists": 300,
             "c04.no_spurious_exclusion": 1500}
WATCHDOG_S = {"quick": 400, "thorough": 3000}
TEMP = "vmon_tmp_scalar"


def plan(tier, seed):
    n = 320 if tier == "quick" else 8000
    k = 16
    per = n // k
    return [{"kind": "hist", "cases": {"start": i * per, "stop": (i + 1) * per}}
            for i in range(k)]


# ----------------------------------------------------------------------------- oracle
def root_indices(level_ds):
    """Root index of every event of a hierarchy member, composed from the observable parent
    masks (np.flatnonzero), root first."""
    chain = []
    d = level_ds
    while d.format == "hierarchy":
        chain.append(d.hparent)
        d = d.hparent
    idx = np.arange(len(d))
    for parent in reversed(chain):
        idx = idx[np.flatnonzero(np.asarray(parent.filter.all))]
    return idx


def check_level(ctx, child, rng, where):
    from vmon.model import dscmp
    parent = child.hparent
    mask = np.asarray(parent.filter.all)
    sel = np.flatnonzero(mask)
    ok = len(child) == len(sel)
    ctx.check("c04.child_len", ok, lambda: dict(where, len_child=len(child),
                                                parent_selected=int(len(sel))),
              message=f"len(child)={len(child)} but the parent's filter selects {len(sel)}")
    if not ok or len(sel) == 0:
        return
    n = len(sel)
    root = parent
    while root.format == "hierarchy":
        root = root.hparent
    scalar_only = root.format == "tdms"    # the tdms handler documents integer access only
    for f in parent.features_loaded:
        if f not in parent or f == "index":
            # "index" is the enumeration 1..N of each member by design
            continue
        if scalar_only and f in ("image", "image_bg", "mask", "contour", "trace"):
            ctx.count("skipped_tdms_nonscalar_feature")
            continue
        try:
            pobj = parent[f]
            cobj = child[f]
            d = None
            if f == "trace":
                for t in pobj.keys():
                    e = np.asarray(pobj[t][:])[sel]
                    g = np.asarray(cobj[t][:])
                    if not dscmp.arr_equal(g, e):
                        d = {"trace": t, "diff": dscmp.first_diff(g, e)}
                        break
                    i = int(rng.integers(0, n))
                    if not dscmp.arr_equal(np.asarray(cobj[t][i]), e[i]):
                        d = {"trace": t, "access": f"[{i}]"}
                        break
                    if n >= 3:
                        il = [int(v) for v in rng.permutation(n)[:min(n, 5)]]
                        try:
                            got_il = np.asarray(cobj[t][il])
                        except (TypeError, IndexError, ValueError) as exc:
                            ctx.count(f"index_list_refused[{type(exc).__name__}]")
                        else:
                            ctx.count("index_list_reads")
                            if not dscmp.arr_equal(got_il, e[il]):
                                d = {"trace": t, "access": f"[{il}] (integer list)"}
                                break
            elif f == "contour":
                for i in {0, n - 1, int(rng.integers(0, n))}:
                    if not dscmp.arr_equal(np.asarray(cobj[i]), np.asarray(pobj[int(sel[i])])):
                        d = {"contour": i}
                        break
            else:
                first = None
                if type(cobj).__name__ == "ChildScalar":
                    # the first access after a refresh is what fills the member's cache: let it
                    # be one of the read-only forms a client uses (conversions to another
                    # dtype, single events, reductions) before the plain read below; what it
                    # returned is judged as well
                    form = int(rng.integers(0, 7))
                    with np.errstate(all="ignore"), warnings.catch_warnings():
                        warnings.simplefilter("ignore")
                        if form == 0:
                            first = ("float32", np.asarray(cobj, dtype=np.float32))
                        elif form == 1:
                            np.array(cobj, dtype=np.int32)
                        elif form == 2:
                            first = ("float16", np.asarray(cobj, dtype=np.float16))
                        elif form == 3:
                            i0 = int(rng.integers(0, n))
                            first = ("single", i0, cobj[i0])
                        elif form == 4:
                            first = ("nanmax", np.nanmax(cobj))
                        elif form == 5:
                            i0 = -int(rng.integers(1, n + 1))
                            first = ("single", i0, cobj[i0])
                    ctx.count(f"first_access_form[{form}]")
                pe = np.asarray(pobj[:])[sel]
                g = np.asarray(cobj[:])
                if first is not None:
                    with np.errstate(all="ignore"), warnings.catch_warnings():
                        warnings.simplefilter("ignore")
                        if first[0] in ("float32", "float16"):
                            okf = dscmp.arr_equal(first[1], pe.astype(first[1].dtype))
                        elif first[0] == "single":
                            okf = dscmp.arr_equal(np.asarray(first[2]), pe[first[1]])
                        else:
                            okf = dscmp.arr_equal(np.asarray(first[1]), np.asarray(np.nanmax(pe)))
                    if not okf:
                        d = {"access": f"first access after the refresh: {first[0]}"
                                       + (f" [{first[1]}]" if first[0] == "single" else "")}
                if d is not None:
                    pass
                elif not dscmp.arr_equal(g, pe):
                    d = {"access": "[:]", "diff": dscmp.first_diff(g, pe)}
                else:
                    i = int(rng.integers(0, n))
                    a, b = sorted(int(x) for x in rng.integers(0, n + 1, 2))
                    if not dscmp.arr_equal(np.asarray(cobj[i]), pe[i]):
                        d = {"access": f"[{i}]"}
                    elif not dscmp.arr_equal(np.asarray(cobj[a:b]), pe[a:b]):
                        d = {"access": f"[{a}:{b}]"}
                    elif pe.ndim == 1:
                        m = rng.random(n) < 0.5
                        if not dscmp.arr_equal(np.asarray(cobj[m]), pe[m]):
                            d = {"access": "[bool mask]"}
                    if d is None and n >= 3:
                        # integer index lists in arbitrary order (rotations, permutations,
                        # repeats); containers that do not support them may refuse, but what
                        # is returned must be the requested events in the requested order
                        k_ = int(rng.integers(2, min(n, 7) + 1))
                        il = [int(v) for v in (rng.permutation(n)[:k_] if rng.random() < 0.7
                                               else rng.integers(0, n, k_))]
                        if rng.random() < 0.3:
                            il = il[1:] + il[:1]
                        try:
                            got_il = np.asarray(cobj[il])
                        except (TypeError, IndexError, ValueError) as exc:
                            ctx.count(f"index_list_refused[{type(exc).__name__}]")
                        else:
                            ctx.count("index_list_reads")
                            if not dscmp.arr_equal(got_il, pe[il]):
                                d = {"access": f"[{il}] (integer list)"}
            ctx.check("c04.child_feature", d is None, lambda: dict(where, feature=f, diff=d),
                      message=f"child[{f}] != parent[{f}][parent.filter.all]: {d}")
        except Exception as exc:
            ctx.check("c04.child_feature", False, dict(where, feature=f, exc=repr(exc)),
                      message=f"reading {f} through the hierarchy raised {exc!r}")


TEMP0 = "frame"


class _S:
    ctx = None
    rng = None
    installed = False
    depth = 0


def install(ctx):
    _S.ctx = ctx
    if _S.installed:
        return
    _S.installed = True
    import functools
    from dclab.rtdc_dataset.fmt_hierarchy import base
    from vmon.contracts import wrap_method

    def mk(orig):
        @functools.wraps(orig)
        def apply_filter(self, *a, **kw):
            _S.depth += 1
            try:
                res = orig(self, *a, **kw)
            finally:
                _S.depth -= 1
            c = _S.ctx
            if c is not None and _S.depth == 0:
                # outermost refresh: everything from here up to the root is current
                try:
                    d, lvl = self, 0
                    rng = _S.rng or np.random.default_rng(0)
                    members = []
                    while d.format == "hierarchy":
                        members.append((d, lvl))
                        d = d.hparent
                        lvl += 1
                    if rng.random() < 0.5:
                        # oldest first: every member's features are first read as a child
                        members.reverse()
                    for d, lvl in members:
                        check_level(c, d, rng, {"level_from_youngest": lvl})
                except Exception as exc:
                    c.error("c04.contract", exc)
            return res
        return apply_filter
    wrap_method(base.RTDC_Hierarchy, "apply_filter", mk)


# ----------------------------------------------------------------------------- driver
def check_exclusions(ctx, levels, excluded, hist):
    """levels[0] is the root; excluded[L] = set of root indices the user excluded in level L."""
    for L in range(1, len(levels)):
        ds = levels[L]
        ridx = root_indices(ds)
        man = np.asarray(ds.filter.manual)
        if len(man) != len(ridx):
            ctx.check("c04.no_spurious_exclusion", False,
                      {"level": L, "len_manual": len(man), "len_events": len(ridx),
                       "history": hist[-12:]},
                      message="manual filter array has the wrong length")
            continue
        exc = excluded[L]
        for pos, r in enumerate(ridx):
            if int(r) in exc:
                ctx.check("c04.exclusion_persists", not man[pos],
                          lambda: {"level": L, "root_event": int(r), "child_pos": pos,
                                   "excluded_root_events": sorted(exc),
                                   "history": hist[-14:]},
                          message=f"level {L}: root event {int(r)} was manually excluded but is "
                                  f"selectable again")
            else:
                ctx.check("c04.no_spurious_exclusion", bool(man[pos]),
                          lambda: {"level": L, "root_event": int(r), "child_pos": pos,
                                   "excluded_root_events": sorted(exc),
                                   "history": hist[-14:]},
                          message=f"level {L}: root event {int(r)} is manually excluded although "
                                  f"the user never excluded it (excluded: {sorted(exc)})",
                          finding=None)


def run_case(ctx, idx):
    import dclab
    from vmon import boot
    from vmon.gen import dataset as gd
    rng = ctx.rng(idx)
    _S.rng = rng
    n = int(rng.integers(3, 81))
    kinds = {"scalar"}
    for k, p in (("image", .3), ("mask", .2), ("contour", .2), ("trace", .2)):
        if rng.random() < p:
            kinds.add(k)
    big = idx % 40 == 7
    if big:
        # a long measurement (scalar features only): more events than any block a hash, a
        # copy or an index translation may work in; edits concentrate on the last events
        n = int(rng.choice([65536 + 3000, 65536 + 9001, 2 * 65536 + 4100, 100003]))
        kinds = {"scalar"}
        ctx.count("long_measurements")
    model = gd.gen_model(rng, n=n, kinds=kinds, hostile_logs=False, realistic=True, special=0.1,
                         max_scalar=1 if big else 4, roi=(8, 8))
    model["features"]["frame"] = np.cumsum(rng.integers(1, 4, n))
    x = rng.uniform(0, 1, n)           # the feature the range filters act on
    model["features"]["aspect"] = x
    tmp = boot.scratch()
    use_file = bool(rng.random() < 0.4) and not big
    path = tmp / f"c04_{idx}.rtdc"
    if use_file:
        gd.write_model(path, model)
        root = dclab.new_dataset(path)
    else:
        root = dclab.new_dataset(dict(model["features"]))
        root.config.update({s: dict(kv) for s, kv in model["meta"].items()})
    depth = int(rng.integers(1, 5)) if not big else int(rng.integers(2, 4))
    levels = [root]
    for _ in range(depth):
        levels.append(dclab.new_dataset(levels[-1]))
    youngest = levels[-1]
    excluded = {L: set() for L in range(len(levels))}
    hist = []
    polys = []
    refreshes = 0
    changed_since = False
    nontrivial = False
    try:
        youngest.rejuvenate()
        current = True          # all levels have their current size
        for step in range(int(rng.integers(3, 31)) if not big else int(rng.integers(6, 12))):
            r = rng.random()
            if big:
                # (ranges and manual exclusions dominate the long cases)
                r = float(rng.choice([0.1, 0.4, 0.4, 0.45, 0.9, 0.9, r]))
            if big and rng.random() < 0.4:
                # the root's selection changes among its last events only, the number of
                # selected events stays the same (one leaves, one that had left comes back)
                tail = np.arange(max(0, n - 3000), n)
                man = np.asarray(root.filter.manual)
                on, off = tail[man[tail]], tail[~man[tail]]
                if len(on):
                    root.filter.manual[int(rng.choice(on))] = False
                if len(off) and rng.random() < 0.8:
                    root.filter.manual[int(rng.choice(off))] = True
                hist.append(["root manual selection changed among the last events"])
                current = False
                changed_since = True
            elif r < 0.30:
                L = int(rng.integers(0, len(levels) - 1))   # a level that has a child
                lo, hi = sorted(rng.uniform(-0.1, 1.1, 2))
                if rng.random() < 0.3:
                    lo, hi = -1.0, 2.0                       # widen: events come back
                levels[L].config["filtering"]["aspect min"] = float(lo)
                levels[L].config["filtering"]["aspect max"] = float(hi)
                hist.append(["range", L, round(float(lo), 3), round(float(hi), 3)])
                current = False
                changed_since = True
            elif r < 0.50:
                if not current:
                    youngest.rejuvenate()
                    refreshes += 1
                    hist.append(["refresh youngest (before manual edit)"])
                    check_exclusions(ctx, levels, excluded, hist)
                    current = True
                L = int(rng.integers(1, len(levels)))
                if big and rng.random() < 0.8:
                    L = len(levels) - 1       # (mostly the youngest: the members in between
                    #                            keep byte-identical filter arrays)
                if len(levels[L]) == 0:
                    continue
                pos = int(rng.integers(0, len(levels[L])))
                if big:
                    pos = len(levels[L]) - 1 - int(rng.integers(0, min(len(levels[L]), 2000)))
                ridx = root_indices(levels[L])
                levels[L].filter.manual[pos] = False
                excluded[L].add(int(ridx[pos]))
                hist.append(["exclude", L, pos, int(ridx[pos])])
                # descendants of L are not current any more
                current = (L == len(levels) - 1)
                if not current:
                    changed_since = True
            elif r < 0.58:
                if not current:
                    continue
                L = int(rng.integers(0, len(levels)))
                data = rng.normal(size=len(levels[L]))
                dclab.set_temporary_feature(levels[L], TEMP, data)
                hist.append(["temp feature", L])
                current = (L == len(levels) - 1)
            elif r < 0.63:
                root.config["imaging"]["frame rate"] = float(rng.choice([1000., 2000., 3000.]))
                hist.append(["root frame rate"])
            elif r < 0.70:
                # other kinds of filter edits on a level that has a child: switch all filters
                # of that level off/on, invalid-event removal, a polygon filter, an event limit
                L = int(rng.integers(0, len(levels) - 1))
                fc = levels[L].config["filtering"]
                kind = int(rng.integers(0, 4))
                if kind == 0:
                    fc["enable filters"] = not fc["enable filters"]
                    hist.append(["enable filters", L, bool(fc["enable filters"])])
                elif kind == 1:
                    fc["remove invalid events"] = not fc["remove invalid events"]
                    hist.append(["remove invalid events", L, bool(fc["remove invalid events"])])
                elif kind == 2:
                    cur = list(fc["polygon filters"])
                    if cur and rng.random() < 0.5:
                        fc["polygon filters"] = cur[:-1]
                        hist.append(["polygon removed", L])
                    else:
                        cx, cy = rng.uniform(0.2, 0.8), rng.uniform(-1, 1)
                        w_ = rng.uniform(0.1, 0.6)
                        pf = dclab.PolygonFilter(
                            axes=("aspect", TEMP0),
                            points=[[cx - w_, cy - 1e6], [cx + w_, cy - 1e6], [cx + w_, cy + 1e6],
                                    [cx - w_, cy + 1e6]],
                            inverted=bool(rng.random() < 0.3))
                        polys.append(pf)
                        fc["polygon filters"] = cur + [pf.unique_id]
                        hist.append(["polygon added", L, round(cx - w_, 3), round(cx + w_, 3)])
                else:
                    fc["limit events"] = int(rng.choice([0, 0, 1, 3, 10]))
                    hist.append(["limit events", L, int(fc["limit events"])])
                current = False
                changed_since = True
            elif r < 0.74 and len(levels) > 2:
                L = int(rng.integers(1, len(levels) - 1))
                levels[L].rejuvenate()
                hist.append(["refresh middle", L])
            else:
                youngest.rejuvenate()
                refreshes += 1
                hist.append(["refresh youngest"])
                current = True
                check_exclusions(ctx, levels, excluded, hist)
                if depth >= 2 and refreshes >= 2 and changed_since:
                    nontrivial = True
                changed_since = False
        youngest.rejuvenate()
        hist.append(["final refresh"])
        check_exclusions(ctx, levels, excluded, hist)
        ctx.count("refreshes", refreshes + 2)
        ctx.count(f"depth[{depth}]")
        if nontrivial:
            ctx.mark_nontrivial([n, depth, use_file, hist])
        if idx % 50 == 0:
            ctx.sample({"n": n, "depth": depth, "root": "hdf5" if use_file else "dict",
                        "history": hist[:20]})
    finally:
        _S.rng = None
        for pf in polys:
            try:
                dclab.PolygonFilter.remove(pf.unique_id)
            except Exception:
                pass
        for d in reversed(levels):
            try:
                d.close()
            except Exception:
                pass
        if use_file and path.exists():
            path.unlink()


def run(spec, ctx):
    import dclab
    install(ctx)
    dclab.register_temporary_feature(TEMP)
    for idx in ctx.case_ids():
        try:
            run_case(ctx, idx)
        except Exception as exc:
            # filter edits / refreshes / reads of a hierarchy are public operations with
            # documented arguments: when the library raises, the operation failed
            ctx.raised("c04.no_exception", f"case {idx}", exc)
