"""C06 - computed (ancillary) features always reflect the current data and settings.

Monitors (at the boundary the user sees: ds[feat], feat in ds, ds.features)
* twin oracle: after every read on the long-lived dataset a *fresh* dataset is built from the
  driver's own model of the data and the final configuration; values must be equal
  (NaN-aware, exact), a read must fail on both or on neither;
* availability oracle: (feat in ds) == (reading succeeds) and feat in ds.features likewise,
  on the long-lived dataset;
* emodulus precedence oracle: the value equals dclab.features.emodulus.get_emodulus called
  with exactly the inputs the documentation prescribes (fixed temperature (C) beats the temp
  feature (A); explicit viscosity (B) when the medium is not a known one).
"""
import numpy as np

PROP = "C06"
LEVEL = "exploration"
RULE = ("history (<=30 ops) on a long-lived dict or HDF5 dataset (and a hierarchy child of it): "
        "set/change/delete a [calculation]/[imaging]/[setup] key, set/replace a temporary feature "
        "consumed by a plug-in feature, read a computed feature, availability test, refresh and "
        "read through the child; plus all 2^5 present/absent combinations of the emodulus keys x "
        "presence of the temp feature. Non-trivial = a value was read, an ingredient changed and "
        "the value was read again; distinct by hash of the history")
LEVEL_TEXT = ("Held on the observed executions: every read of a computed feature on a long-lived "
              "dataset equals the read on a freshly built twin with the same data and final "
              "configuration, availability equals readability, and the Young's modulus uses the "
              "inputs of the documented scenario. Exploration over histories x configurations.")
LEVEL_NOTE = ("trusted: dclab's computation on a fresh dataset as the reference for values (the "
              "property is about history independence), get_emodulus (C05), numpy")
TECHNIQUE = ("runtime monitoring: differential oracle long-lived vs freshly built twin dataset "
             "after every read, availability/readability equivalence, documented-precedence oracle")
ASSUMPTIONS = ["the plug-in feature registered by the harness is pure (depends only on its "
               "declared features and configuration keys)"]
MIN_EVALS = {"c06.value_equals_fresh": 1500, "c06.available_iff_readable": 3000,
             "c06.emodulus_precedence": 100}
WATCHDOG_S = {"quick": 400, "thorough": 3000}

COMPUTED = ["emodulus", "volume", "area_um", "area_ratio", "aspect", "time", "fl1_max_ctc",
            "fl2_max_ctc", "fl3_max_ctc", "bright_avg", "bright_sd", "bright_bc_avg",
            "bright_perc_10", "inert_ratio_cvx", "inert_ratio_raw", "inert_ratio_prnc", "tilt",
            "ml_class", "vmon_plugin", "vmon_plugin2", "vmon_plugin2", "vmon_plugin3",
            "vmon_plugin3", "vmon_plugin4", "vmon_plugin4", "index"]
CFG_CHOICES = {
    ("calculation", "emodulus lut"): ["LE-2D-FEM-19", "HE-2D-FEM-22", "HE-3D-FEM-22"],
    ("calculation", "emodulus medium"): ["CellCarrier", "water", "other", "0.49% MC-PBS",
                                         "CellCarrierB"],
    ("calculation", "emodulus temperature"): [22.5, 24.0, 30.0],
    ("calculation", "emodulus viscosity"): [5.5, 11.0],
    ("calculation", "emodulus viscosity model"): ["herold-2017", "buyukurganci-2022"],
    ("calculation", "crosstalk fl21"): [0.0, 0.1], ("calculation", "crosstalk fl31"): [0.05],
    ("calculation", "crosstalk fl12"): [0.2, 0.0], ("calculation", "crosstalk fl32"): [0.1],
    ("calculation", "crosstalk fl13"): [0.0, 0.3], ("calculation", "crosstalk fl23"): [0.02],
    ("imaging", "pixel size"): [0.34, 0.26],
    ("imaging", "frame rate"): [2000.0, 3000.0],
    ("setup", "channel width"): [20.0, 30.0],
    ("setup", "flow rate"): [0.04, 0.08, 0.16],
    ("setup", "chip region"): ["channel", "reservoir"],
    ("setup", "medium"): ["CellCarrier", "water"],
}
EMOD_KEYS = ["emodulus lut", "emodulus medium", "emodulus temperature", "emodulus viscosity",
             "emodulus viscosity model"]
KNOWN_MEDIA = ["0.49% mc-pbs", "0.59% mc-pbs", "0.83% mc-pbs", "cellcarrier", "cellcarrierb",
               "water"]


def plan(tier, seed):
    n = 256 if tier == "quick" else 4000
    k = 14
    per = n // k
    sh = [{"kind": "hist", "cases": {"start": i * per, "stop": (i + 1) * per}} for i in range(k)]
    # 2^5 key combinations x temp feature x 2 root kinds
    sh += [{"kind": "emodcombi", "cases": {"start": i * 32, "stop": (i + 1) * 32}}
           for i in range(2 if tier == "quick" else 4)]
    return sh


_plugin_registered = False


def register_plugin():
    global _plugin_registered
    if _plugin_registered:
        return
    _plugin_registered = True
    import dclab

    def method(ds):
        return {"vmon_plugin": np.asarray(ds["vmon_t1"]) * ds.config["setup"]["flow rate"]}
    dclab.register_temporary_feature("vmon_t1")
    dclab.PlugInFeature("vmon_plugin", {
        "method": method, "feature names": ["vmon_plugin"],
        "features required": ["vmon_t1"], "config required": [["setup", ["flow rate"]]],
        "scalar feature": [True], "version": "0.1"})

    # chains of computed features: the plug-ins below depend on *computed* features whose own
    # ingredients (pixel size; the emodulus keys) they do not list themselves
    def method2(ds):
        return {"vmon_plugin2": np.asarray(ds["area_um"]) * 2 + 1}
    dclab.PlugInFeature("vmon_plugin2", {
        "method": method2, "feature names": ["vmon_plugin2"],
        "features required": ["area_um"], "scalar feature": [True], "version": "0.1"})

    def method3(ds):
        return {"vmon_plugin3": np.asarray(ds["emodulus"]) - 0.5}
    dclab.PlugInFeature("vmon_plugin3", {
        "method": method3, "feature names": ["vmon_plugin3"],
        "features required": ["emodulus"], "scalar feature": [True], "version": "0.1"})

    # a plug-in whose check function returns a plain boolean that depends on a setting the
    # plug-in does not list as required: availability must follow the *current* setting
    def method4(ds):
        return {"vmon_plugin4": np.asarray(ds["deform"]) * 10 + 2}

    def check4(ds):
        return ds.config["setup"].get("chip region", "channel") == "channel"
    dclab.PlugInFeature("vmon_plugin4", {
        "method": method4, "feature names": ["vmon_plugin4"],
        "features required": ["deform"], "method check required": check4,
        "scalar feature": [True], "version": "0.1"})


def gen_data(rng):
    from vmon.gen import dataset as gd
    n = int(rng.integers(2, 14))
    h, w = 12, 16
    mask = gd.blob_masks(rng, n, h, w)
    d = {
        "area_cvx": rng.uniform(80, 400, n), "deform": rng.uniform(0.005, 0.15, n),
        "size_x": rng.uniform(5, 20, n), "size_y": rng.uniform(5, 20, n),
        "frame": np.cumsum(rng.integers(1, 5, n)).astype(float),
        "image": rng.integers(0, 256, (n, h, w), dtype=np.uint8),
        "image_bg": rng.integers(100, 140, (n, h, w), dtype=np.uint8),
        "mask": mask, "pos_x": rng.uniform(4, 5, n), "pos_y": rng.uniform(1.5, 2.5, n),
        "fl1_max": rng.uniform(10, 5000, n), "fl2_max": rng.uniform(10, 5000, n),
        "fl3_max": rng.uniform(10, 5000, n),
        "ml_score_aaa": rng.uniform(0, 1, n), "ml_score_bbb": rng.uniform(0, 1, n),
    }
    d["area_msd"] = d["area_cvx"] * rng.uniform(0.8, 1, n)
    if rng.random() < 0.35:
        # two-channel measurement: the two-channel crosstalk recipes apply
        d.pop(["fl1_max", "fl2_max", "fl3_max"][int(rng.integers(0, 3))])
    if rng.random() < 0.5:
        d["area_um"] = rng.uniform(20, 200, n)
    if rng.random() < 0.5:
        d["temp"] = rng.uniform(20, 28, n)
    if rng.random() < 0.25:
        # the contour as stored feature (list of arrays) instead of the mask
        from dclab.features.contour import get_contour
        d["contour"] = [get_contour(m) for m in mask]
        d.pop("mask")
    return n, d


def build(kind, data, cfg, temp, tmp, tag):
    """Fresh dataset from the driver's model (data dict, config dict, temporary features)."""
    import dclab
    if kind == "dict":
        ds = dclab.new_dataset(dict(data))
    else:
        ds = dclab.new_dataset(tmp / f"c06_{tag}.rtdc")
    for sec, kv in cfg.items():
        for k, v in kv.items():
            ds.config[sec][k] = v
    for f, arr in temp.items():
        dclab.set_temporary_feature(ds, f, arr)
    return ds


def read(ds, feat):
    """-> ("ok", array) or ("err", ExceptionTypeName)"""
    try:
        v = ds[feat]
        if feat == "contour":
            return "ok", None
        return "ok", np.array(v[:], copy=True)
    except BaseException as exc:   # NoValidContourFoundError etc. derive from BaseException
        if isinstance(exc, (KeyboardInterrupt, SystemExit)):
            raise
        return "err", type(exc).__name__ + ": " + str(exc)[:120]


def expected_emodulus(ds_like, cfg, data):
    """Documented precedence -> kwargs for get_emodulus, or None when not computable."""
    calc = cfg.get("calculation", {})
    if cfg.get("setup", {}).get("chip region", "channel") != "channel":
        return None
    for sec, keys in (("imaging", ["pixel size"]), ("setup", ["flow rate", "channel width"])):
        if any(k not in cfg.get(sec, {}) for k in keys):
            return None
    if "emodulus lut" not in calc:
        return None
    medium = calc.get("emodulus medium")
    visc = calc.get("emodulus viscosity")
    temp_cfg = calc.get("emodulus temperature")
    base = dict(channel_width=cfg["setup"]["channel width"], flow_rate=cfg["setup"]["flow rate"],
                px_um=cfg["imaging"]["pixel size"], lut_data=calc["emodulus lut"])
    known = isinstance(medium, str) and medium.lower() in KNOWN_MEDIA
    if known and visc is None:
        vm = calc.get("emodulus viscosity model", "herold-2017")
        if temp_cfg is not None:                       # scenario C
            return dict(base, medium=medium, temperature=temp_cfg, visc_model=vm)
        if "temp" in data:                             # scenario A
            return dict(base, medium=medium, temperature=np.asarray(data["temp"]), visc_model=vm)
        return None
    if visc is not None and (medium is None or str(medium).lower() == "other"):   # scenario B
        return dict(base, medium=visc, temperature=None, visc_model=None)
    return "ambiguous"


def sanity_reject_model(feat, err, cfg, data):
    """Defect models of the known findings: the feature is reported as available although the
    compute function deliberately rejects the configuration. Returns the mechanism key when
    the configuration satisfies the model's predicate and the error is the predicted one."""
    calc = cfg.get("calculation", {})
    if feat in ("emodulus", "vmon_plugin3"):     # (vmon_plugin3 requires emodulus)
        medium = str(calc.get("emodulus medium", "other")).lower()
        visc = calc.get("emodulus viscosity")
        known = medium in KNOWN_MEDIA
        if known and visc is not None and "must not set the 'emodulus viscosity'" in err:
            return "emodulus-available-but-config-rejected-by-sanity-check"
        if (not known) and not (visc is not None and medium == "other") \
                and "Only the following media are supported" in err:
            return "emodulus-available-but-config-rejected-by-sanity-check"
    if feat in ("fl1_max_ctc", "fl2_max_ctc", "fl3_max_ctc"):
        keys = [f"crosstalk fl{i}{j}" for i in (1, 2, 3) for j in (1, 2, 3) if i != j]
        if all(f"fl{i}_max" in data for i in (1, 2, 3)) \
                and not all(k in calc for k in keys) \
                and err.startswith("MissingCrosstalkMatrixElementsError"):
            return "ctc-available-with-incomplete-crosstalk-matrix"
    return None


def judge_read(ctx, ds, twin, feat, hist, cfg, data, area_um):
    from vmon.model import dscmp
    st, val = read(ds, feat)
    st2, val2 = read(twin, feat)
    in_ds = feat in ds
    in_feats = feat in ds.features
    wit = lambda **kw: dict(kw, feature=feat, history=hist[-14:],  # noqa: E731
                            calculation=cfg.get("calculation"), setup=cfg.get("setup"),
                            imaging=cfg.get("imaging"))
    # ---- availability == readability
    finding = None
    if in_ds and st == "err":
        finding = sanity_reject_model(feat, str(val), cfg, data)
    ctx.check("c06.available_iff_readable", in_ds == (st == "ok"),
              lambda: wit(in_ds=in_ds, read=st, error=val if st == "err" else None),
              finding=finding,
              message=f"'{feat}' in ds is {in_ds} but reading it "
                      f"{'succeeds' if st == 'ok' else 'fails: ' + str(val)}")
    ctx.check("c06.available_iff_readable", in_feats == in_ds,
              lambda: wit(in_ds=in_ds, in_features=in_feats),
              message=f"'{feat}' in ds.features is {in_feats} but in ds is {in_ds}")
    # ---- equals the fresh twin
    if st != st2:
        ok, d = False, {"long_lived": st if st == "ok" else val,
                        "fresh": st2 if st2 == "ok" else val2}
    elif st == "err":
        ok, d = True, None
    elif val is None:
        ok, d = True, None
    else:
        ok = dscmp.arr_equal(val, val2)
        d = None if ok else dscmp.first_diff(val, val2)
    ctx.check("c06.value_equals_fresh", ok, lambda: wit(diff=d),
              finding=finding if (st == "err" and st2 == "err") else None,
              message=f"'{feat}' on the long-lived dataset differs from a freshly built one: {d}")
    # ---- emodulus precedence
    if feat == "emodulus" and st == "ok":
        import dclab
        kw = expected_emodulus(ds, cfg, data)
        if isinstance(kw, dict):
            exp = dclab.features.emodulus.get_emodulus(
                area_um=np.array(area_um, copy=True), deform=np.array(data["deform"], copy=True),
                **kw)
            ok = dscmp.arr_equal(val, exp)
            ctx.check("c06.emodulus_precedence", ok,
                      lambda: wit(kwargs={k: repr(v)[:60] for k, v in kw.items()},
                                  diff=dscmp.first_diff(val, exp)),
                      message="emodulus does not use the inputs of the documented scenario")
        elif kw is None:
            ctx.check("c06.emodulus_precedence", False, wit(note="not computable per docs"),
                      message="emodulus was computed although no documented scenario applies")
        else:
            ctx.count("emodulus_ambiguous_scenario_not_judged")
    return st


def run_history(ctx, idx, rng, tmp):
    import dclab
    from vmon.gen import dataset as gd
    n, data = gen_data(rng)
    kind = "dict" if rng.random() < 0.6 else "hdf5"
    cfg = {"imaging": {"pixel size": 0.34, "frame rate": 2000.0},
           "setup": {"channel width": 20.0, "flow rate": 0.04, "chip region": "channel",
                     "medium": "CellCarrier"},
           "calculation": {}}
    if kind == "hdf5":
        meta = gd.complete_meta(rng, data, n, (12, 16), None)
        meta.pop("fluorescence", None)
        meta["imaging"].update(cfg["imaging"])
        meta["setup"].update(cfg["setup"])
        model = {"n": n, "features": data, "meta": meta, "logs": {}, "tables": {}}
        gd.write_model(tmp / f"c06_{idx}.rtdc", model)
        cfg = {"imaging": {}, "setup": {}, "calculation": {}}   # overrides on top of the file
        base_cfg = {s: dict(meta[s]) for s in ("imaging", "setup")}
    else:
        base_cfg = {"imaging": {}, "setup": {}}
    temp = {}
    deleted = set()
    ds = build(kind, data, cfg, temp, tmp, idx)
    child = None
    chain = []
    hist = []
    read_before = {}
    nontrivial = False
    feats = list(COMPUTED)

    def eff_cfg():
        out = {s: dict(base_cfg.get(s, {})) for s in ("imaging", "setup")}
        out["calculation"] = {}
        for s, kv in cfg.items():
            out.setdefault(s, {}).update(kv)
        for s, k in deleted:
            out.get(s, {}).pop(k, None)
        return out
    try:
        for step in range(int(rng.integers(4, 31))):
            r = rng.random()
            if r < 0.40:
                (sec, key), choices = list(CFG_CHOICES.items())[
                    int(rng.integers(0, len(CFG_CHOICES)))]
                if rng.random() < 0.25 and key in ds.config[sec]:
                    del ds.config[sec][key]
                    cfg[sec].pop(key, None)
                    deleted.add((sec, key))
                    hist.append(["del", sec, key])
                else:
                    v = choices[int(rng.integers(0, len(choices)))]
                    ds.config[sec][key] = v
                    cfg[sec][key] = v
                    deleted.discard((sec, key))
                    hist.append(["set", sec, key, v])
                for f in read_before:
                    read_before[f] = "changed"
            elif r < 0.47 and step % 2 == 0:
                # chain probe: read a feature that depends on a computed feature, change an
                # ingredient of the *intermediate* feature only, read again
                probes = [("vmon_plugin4", "setup", "chip region"),
                          ("vmon_plugin4", "setup", "chip region"),
                          ("vmon_plugin2", "imaging", "pixel size"),
                          ("vmon_plugin3", "calculation", "emodulus temperature"),
                          ("vmon_plugin3", "setup", "flow rate")]
                # crosstalk: every matrix element that is set enters the correction, also the
                # ones a two-channel recipe does not *require*
                present = [i for i in (1, 2, 3) if f"fl{i}_max" in data]
                for i in present:
                    for a in (1, 2, 3):
                        for b in (1, 2, 3):
                            if a != b:
                                probes.append((f"fl{i}_max_ctc", "calculation",
                                               f"crosstalk fl{a}{b}"))
                for k_ in EMOD_KEYS:
                    probes.append(("emodulus", "calculation", k_))
                for sk in (("imaging", "pixel size"), ("setup", "flow rate"),
                           ("setup", "channel width"), ("setup", "chip region")):
                    probes.append(("emodulus",) + sk)
                probes += [("time", "imaging", "frame rate"), ("area_um", "imaging", "pixel size"),
                           ("volume", "imaging", "pixel size")]
                feat, sec, key = probes[int(rng.integers(0, len(probes)))]
                # every third probe reads through a member of a hierarchy (depth 1-3) that is
                # refreshed before each read
                probe_level = None
                if rng.random() < 0.35:
                    if child is None:
                        chain = [dclab.new_dataset(ds)]
                        for _ in range(int(rng.integers(0, 3))):
                            chain.append(dclab.new_dataset(chain[-1]))
                        child = chain[-1]
                        ctx.count(f"hierarchy_depth[{len(chain)}]")
                    probe_level = int(rng.integers(0, len(chain)))
                if feat == "emodulus" and rng.random() < 0.75:
                    # establish one of the documented scenarios first
                    # (0 degC is only inside the documented range of the water model: the
                    # probe must not change the medium or the model, and the temperature is
                    # put back afterwards)
                    scen = str(rng.choice(["C", "A", "B", "C0"]
                                          if key not in ("emodulus medium",
                                                         "emodulus viscosity model",
                                                         "emodulus temperature")
                                          else ["C", "A", "B"]))
                    want = {"emodulus lut": "LE-2D-FEM-19"}
                    if scen == "B":
                        want.update({"emodulus viscosity": 5.5, "emodulus medium": "other"})
                    elif scen == "C0":
                        # a configured temperature of exactly 0 degC (inside the range of the
                        # water model) next to a possibly present temp feature
                        want.update({"emodulus medium": "water",
                                     "emodulus viscosity model": "herold-2017",
                                     "emodulus temperature": 0.0})
                    else:
                        want.update({"emodulus medium": "CellCarrier",
                                     "emodulus viscosity model": "herold-2017"})
                        if scen == "C":
                            want["emodulus temperature"] = 23.0
                    for k_ in EMOD_KEYS:
                        if k_ in want:
                            ds.config["calculation"][k_] = want[k_]
                            cfg["calculation"][k_] = want[k_]
                            deleted.discard(("calculation", k_))
                        elif k_ in ds.config["calculation"]:
                            del ds.config["calculation"][k_]
                            cfg["calculation"].pop(k_, None)
                            deleted.add(("calculation", k_))
                    hist.append(["scenario", scen])
                if "crosstalk" in key and rng.random() < 0.8:
                    # make the corrected feature computable first: all elements among the
                    # channels that are present
                    for a in present:
                        for b in present:
                            if a != b and f"crosstalk fl{a}{b}" not in eff_cfg()["calculation"]:
                                v0 = float(rng.choice([0.05, 0.1, 0.2]))
                                ds.config["calculation"][f"crosstalk fl{a}{b}"] = v0
                                cfg["calculation"][f"crosstalk fl{a}{b}"] = v0
                                deleted.discard(("calculation", f"crosstalk fl{a}{b}"))
                                hist.append(["set", "calculation", f"crosstalk fl{a}{b}", v0])
                for rep in range(2):
                    twin = build(kind, data, {s_: dict(kv) for s_, kv in cfg.items()}, temp, tmp,
                                 idx)
                    for s_, k_ in deleted:
                        if k_ in twin.config[s_]:
                            del twin.config[s_][k_]
                    try:
                        area_um = data.get("area_um")
                        if area_um is None:
                            pix = eff_cfg()["imaging"].get("pixel size")
                            area_um = data["area_cvx"] * pix ** 2 if pix else None
                        if probe_level is None:
                            hist.append(["read", feat, "root (chain probe)"])
                            judge_read(ctx, ds, twin, feat, hist, eff_cfg(), data, area_um)
                        else:
                            hist.append(["read", feat, f"hierarchy level {probe_level + 1} "
                                                       f"(chain probe, after refresh)"])
                            chain[probe_level].rejuvenate()
                            tch = dclab.new_dataset(twin)
                            for _ in range(probe_level):
                                tch = dclab.new_dataset(tch)
                            judge_read(ctx, chain[probe_level], tch, feat, hist, eff_cfg(),
                                       data, area_um)
                            ctx.count(f"probes_through_hierarchy_level[{probe_level + 1}]")
                    finally:
                        twin.close()
                    if rep == 0:
                        choices = list(CFG_CHOICES[(sec, key)]) + ([0.15, 0.25]
                                                                   if "crosstalk" in key else [])
                        cur = eff_cfg().get(sec, {}).get(key)
                        v = [c for c in choices if c != cur][int(rng.integers(
                            0, len([c for c in choices if c != cur])))]
                        ds.config[sec][key] = v
                        cfg[sec][key] = v
                        deleted.discard((sec, key))
                        hist.append(["set", sec, key, v])
                if eff_cfg().get("calculation", {}).get("emodulus temperature") == 0.0:
                    ds.config["calculation"]["emodulus temperature"] = 23.0
                    cfg["calculation"]["emodulus temperature"] = 23.0
                    hist.append(["set", "calculation", "emodulus temperature", 23.0])
                nontrivial = True
                for f in read_before:
                    read_before[f] = "changed"
            elif r < 0.48 and rng.random() < 0.3:
                # a machine-learning score given as temporary feature is set / replaced:
                # ml_class is computed from all ml_score_??? features that are available
                arr = rng.uniform(0, 1, n)
                dclab.set_temporary_feature(ds, "ml_score_ccc", arr)
                temp["ml_score_ccc"] = arr
                hist.append(["temp", "ml_score_ccc"])
                for f in read_before:
                    read_before[f] = "changed"
                twin = build(kind, data, {s_: dict(kv) for s_, kv in cfg.items()}, temp, tmp, idx)
                for s_, k_ in deleted:
                    if k_ in twin.config[s_]:
                        del twin.config[s_][k_]
                try:
                    hist.append(["read", "ml_class", "root (after the score was set)"])
                    judge_read(ctx, ds, twin, "ml_class", hist, eff_cfg(), data,
                               data.get("area_um"))
                    ctx.count("ml_score_temporary_feature_set")
                finally:
                    twin.close()
                if kind != "hierarchy" and ds.format != "hierarchy" and rng.random() < 0.5:
                    # the dataset holds a (read-only) view of the client's array: the client
                    # updates its scores in place - they are the dataset's current data
                    arr[:] = rng.uniform(0, 1, n)
                    if np.array_equal(np.asarray(ds["ml_score_ccc"]), arr):
                        hist.append(["temp", "ml_score_ccc", "updated in place by the client"])
                        twin = build(kind, data, {s_: dict(kv) for s_, kv in cfg.items()}, temp,
                                     tmp, idx)
                        for s_, k_ in deleted:
                            if k_ in twin.config[s_]:
                                del twin.config[s_][k_]
                        try:
                            hist.append(["read", "ml_class", "root (after the in-place update)"])
                            judge_read(ctx, ds, twin, "ml_class", hist, eff_cfg(), data,
                                       data.get("area_um"))
                            ctx.count("ml_score_temporary_feature_updated_in_place")
                        finally:
                            twin.close()
                    else:
                        ctx.count("in_place_update_not_visible_in_dataset")
            elif r < 0.48:
                arr = rng.normal(size=n)
                via = None
                if chain and rng.random() < 0.6 and all(len(c_) == n for c_ in chain):
                    # the documented way for hierarchy members: set it through a member
                    # (which stores it in the root); a feature computed from it and read
                    # through the same member before must follow - without another refresh
                    via = int(rng.integers(0, len(chain)))
                    probe_feat = "vmon_plugin"
                    try:
                        _ = np.asarray(chain[via][probe_feat])
                    except Exception:
                        pass
                    dclab.set_temporary_feature(chain[via], "vmon_t1", arr)
                else:
                    dclab.set_temporary_feature(ds, "vmon_t1", arr)
                temp["vmon_t1"] = arr
                hist.append(["temp", "vmon_t1"] + ([f"via hierarchy level {via + 1}"]
                                                   if via is not None else []))
                for f in read_before:
                    read_before[f] = "changed"
                if via is not None:
                    twin = build(kind, data, {s_: dict(kv) for s_, kv in cfg.items()}, temp, tmp,
                                 idx)
                    for s_, k_ in deleted:
                        if k_ in twin.config[s_]:
                            del twin.config[s_][k_]
                    try:
                        tch = dclab.new_dataset(twin)
                        for _ in range(via):
                            tch = dclab.new_dataset(tch)
                        hist.append(["read", "vmon_plugin", f"hierarchy level {via + 1} "
                                                            f"(no refresh after the assignment)"])
                        judge_read(ctx, chain[via], tch, "vmon_plugin", hist, eff_cfg(), data,
                                   data.get("area_um"))
                        ctx.count("temp_feature_set_through_hierarchy_member")
                    finally:
                        twin.close()
            elif r < 0.56:
                if child is None:
                    # a chain of 1-3 hierarchy members below the dataset
                    chain = [dclab.new_dataset(ds)]
                    for _ in range(int(rng.integers(0, 3))):
                        chain.append(dclab.new_dataset(chain[-1]))
                    child = chain[-1]
                    ctx.count(f"hierarchy_depth[{len(chain)}]")
                which = int(rng.integers(0, len(chain)))
                chain[which].rejuvenate()
                hist.append(["child refresh", which + 1])
            else:
                feat = feats[int(rng.integers(0, len(feats)))]
                via_child = child is not None and rng.random() < 0.3
                hist.append(["read", feat, "child" if via_child else "root"])
                # the twin: same data, final configuration, built from scratch
                twin_cfg = {s: dict(kv) for s, kv in cfg.items()}
                twin = build(kind, data, twin_cfg, temp, tmp, idx)
                for s, k in deleted:
                    if k in twin.config[s]:
                        del twin.config[s][k]
                try:
                    area_um = data.get("area_um")
                    if area_um is None:
                        pix = eff_cfg()["imaging"].get("pixel size")
                        area_um = data["area_cvx"] * pix ** 2 if pix else None
                    if via_child:
                        which = int(rng.integers(0, len(chain)))
                        hist[-1].append(which + 1)
                        chain[which].rejuvenate()
                        tchild = dclab.new_dataset(twin)
                        for _ in range(which):
                            tchild = dclab.new_dataset(tchild)
                        judge_read(ctx, chain[which], tchild, feat, hist, eff_cfg(), data,
                                   area_um)
                        ctx.count(f"reads_through_hierarchy_level[{which + 1}]")
                    else:
                        judge_read(ctx, ds, twin, feat, hist, eff_cfg(), data, area_um)
                finally:
                    twin.close()
                if read_before.get(feat) == "changed":
                    nontrivial = True
                read_before[feat] = "read"
        if nontrivial:
            ctx.mark_nontrivial([kind, n, sorted(data), hist])
        if idx % 40 == 0:
            ctx.sample({"kind": kind, "n": n, "history": hist[:18]})
    finally:
        ds.close()


def run_emodcombi(ctx, idx, rng, tmp):
    """All 2^5 present/absent combinations of the emodulus keys x temp feature present/absent;
    each combination is reached from the *previous* one on a long-lived dataset."""
    import dclab
    n, data = gen_data(rng)
    data.setdefault("area_um", rng.uniform(20, 200, n))
    with_temp = bool(idx // 32 % 2)
    if with_temp:
        data["temp"] = rng.uniform(20, 28, n)
    else:
        data.pop("temp", None)
    cfg = {"imaging": {"pixel size": 0.34}, "calculation": {},
           "setup": {"channel width": 20.0, "flow rate": 0.04, "chip region": "channel"}}
    ds = build("dict", data, cfg, {}, tmp, idx)
    hist = []
    try:
        order = list(rng.permutation(32))
        for combo in order[:12] + [idx % 32]:
            for b, key in enumerate(EMOD_KEYS):
                want = bool(combo >> b & 1)
                if want:
                    ch = CFG_CHOICES[("calculation", key)]
                    v = ch[int(rng.integers(0, len(ch)))]
                    ds.config["calculation"][key] = v
                    cfg["calculation"][key] = v
                elif key in ds.config["calculation"]:
                    del ds.config["calculation"][key]
                    cfg["calculation"].pop(key, None)
            hist.append(["combo", int(combo), dict(cfg["calculation"])])
            twin = build("dict", data, {s: dict(kv) for s, kv in cfg.items()}, {}, tmp, idx)
            try:
                judge_read(ctx, ds, twin, "emodulus", hist, cfg, data, data["area_um"])
            finally:
                twin.close()
            ctx.mark_nontrivial(["emodcombi", with_temp, int(combo)])
        ctx.count("emodulus_key_combinations", 13)
    finally:
        ds.close()


def run_long(ctx, idx, rng):
    """A long measurement (scalar features only, more events than any block a hash or a copy
    may work in): data and settings change only in the last events or between two reads; every
    read of a computed feature is compared with a fresh dataset holding the current data."""
    import dclab
    n = int(rng.choice([8193, 8192 + 3000, 20000, 50003, 70001]))
    base = {"deform": rng.uniform(0.005, 0.15, n), "area_um": rng.uniform(20, 200, n),
            "frame": np.cumsum(rng.integers(1, 5, n)).astype(float),
            "fl1_max": rng.uniform(10, 5000, n), "fl2_max": rng.uniform(10, 5000, n),
            "ml_score_aaa": rng.uniform(0, 1, n), "ml_score_bbb": rng.uniform(0, 1, n)}
    cfg = {"imaging": {"frame rate": 2000.0, "pixel size": 0.34},
           "setup": {"channel width": 20.0, "flow rate": 0.04, "medium": "CellCarrier",
                     "temperature": 23.0, "chip region": "channel"},
           "calculation": {"emodulus lut": "LE-2D-FEM-19", "emodulus medium": "CellCarrier",
                           "emodulus temperature": 23.0, "crosstalk fl12": 0.1,
                           "crosstalk fl21": 0.05}}

    def fresh(temp):
        d = dclab.new_dataset({k: v.copy() for k, v in base.items()})
        for sec, kv in cfg.items():
            d.config[sec].update(kv)
        for k, v in temp.items():
            dclab.set_temporary_feature(d, k, v.copy())
        return d

    probes = ["ml_class", "time", "emodulus", "fl1_max_ctc"]
    temp = {}
    ds = fresh(temp)
    hist = [["long measurement", n]]
    ctx.count("long_measurements")

    def compare(tag):
        tw = fresh(temp)
        for f in probes:
            try:
                got = np.asarray(ds[f])
                want = np.asarray(tw[f])
            except Exception as exc:
                ctx.count(f"long_probe_unreadable[{f}:{type(exc).__name__}]")
                continue
            bad = ~((got == want) | (np.isnan(got) & np.isnan(want)))
            ctx.check("c06.value_equals_fresh", not bad.any(),
                      lambda: {"feature": f, "n": n, "history": hist[-6:], "when": tag,
                               "n_differing": int(bad.sum()),
                               "first_differing_event": int(np.flatnonzero(bad)[0]),
                               "got": got[bad][:3], "fresh": want[bad][:3]},
                      message=f"{f} of a dataset with {n} events differs from a fresh dataset "
                              f"with the current data in {int(bad.sum())} events ({tag})")

    compare("first read")
    for step in range(int(rng.integers(2, 5))):
        k = int(rng.integers(1, 40))
        what = int(rng.integers(0, 3))
        if what == 0:
            arr = temp.get("ml_score_ccc", rng.uniform(0, 1, n)).copy()
            arr[n - k:] = rng.uniform(0, 1, k)
            temp["ml_score_ccc"] = arr
            dclab.set_temporary_feature(ds, "ml_score_ccc", arr.copy())
            hist.append(["temporary ml_score_ccc (re)placed; differs in the last", k])
        elif what == 1:
            v = float(rng.choice([0.0, 0.07, 0.2]))
            cfg["calculation"]["crosstalk fl21"] = v
            ds.config["calculation"]["crosstalk fl21"] = v
            hist.append(["crosstalk fl21", v])
        else:
            v = float(rng.choice([21.0, 23.0, 25.5]))
            cfg["calculation"]["emodulus temperature"] = v
            ds.config["calculation"]["emodulus temperature"] = v
            hist.append(["emodulus temperature", v])
        compare(f"after step {step}")
    ctx.mark_nontrivial(["long", n, hist])


def run(spec, ctx):
    from vmon import boot
    register_plugin()
    tmp = boot.scratch()
    for idx in ctx.case_ids():
        rng = ctx.rng(idx, salt=0 if spec["kind"] == "hist" else 5)
        try:
            if spec["kind"] == "hist" and idx % 40 == 9:
                run_long(ctx, idx, rng)
            if spec["kind"] == "hist":
                run_history(ctx, idx, rng, tmp)
            else:
                run_emodcombi(ctx, idx, rng, tmp)
        except Exception as exc:
            ctx.raised("c06.no_exception", f"case {spec['kind']} {idx}", exc)
        finally:
            p = tmp / f"c06_{idx}.rtdc"
            if p.exists():
                p.unlink()
