"""C02 - HDF5/TSV export contains exactly the selected events and features.

The deciding monitor is the contract on the real Export.hdf5 / Export.tsv
(vmon.monitors.export): selection and source data are snapshotted at call time, the
written file is re-opened with raw h5py and with dclab and compared with
source[feat][flatnonzero(filter)].  The writer contracts (vmon.monitors.writer) run too.
"""
import zipfile

import numpy as np

PROP = "C02"
LEVEL = "exploration"
RULE = ("case = source dataset (dict / hdf5 / hierarchy child depth 1-2 / basin-backed file / "
        ".tdms fixture) x filter mask (empty, full, single, sizes chunk-1/chunk/chunk+1/2*chunk+-1, "
        "random) x feature subset (with duplicates, non-scalar, temporary) x filtered flag x "
        "logs/tables flags x chunk-size configuration, exported to .rtdc and .tsv. Non-trivial = "
        "selection larger than one export chunk of a non-scalar feature, or a non-HDF5 source; "
        "distinct by hash of (source description, mask, features, flags)")
LEVEL_TEXT = ("Held on the observed executions: for every generated export the output file (raw "
              "h5py and re-opened with dclab) holds exactly source[feat][flatnonzero(filter)] for "
              "every requested feature, the event count, carried metadata/logs/tables; tsv values "
              "within the written precision. Exploration of input x configuration space.")
LEVEL_NOTE = ("trusted: the source dataset's own integer-index access as 'source[feat]', h5py, numpy. "
              "Don't-care: empty selection may leave a feature absent or empty; run identifier, "
              "software version, event count, ROI size and samples-per-event are documented to change")
TECHNIQUE = ("runtime monitoring: snapshot + post-condition contract on the real Export.hdf5/tsv, "
             "output re-read and compared with the independently indexed source")
ASSUMPTIONS = ["source feature data are read through integer indexing of the source dataset",
               "basin-backed sources are produced with dclab's own export (basins=True)"]
MIN_EVALS = {"c02.hdf5.feature": 400, "c02.hdf5.metadata": 100, "c02.tsv.values": 100,
             "c02.hdf5.reopen_dclab": 80}
WATCHDOG_S = {"quick": 400, "thorough": 3000}
KINDS = ["dict", "hdf5", "hier1", "hier2", "basin", "tdms", "hdf5short"]


def plan(tier, seed):
    n = 256 if tier == "quick" else 9600
    k = 16
    per = n // k
    return [{"kind": "export", "cases": {"start": i * per, "stop": (i + 1) * per}}
            for i in range(k)]


_tdms_cache = {}


def tdms_fixture(name):
    from vmon import boot
    if name not in _tdms_cache:
        src = boot.REPO / "tests" / "data" / name
        if not src.exists():
            src = boot.pathlib.Path("/repo/tests/data") / name
        dest = boot.scratch() / ("fx_" + name[:-4])
        with zipfile.ZipFile(src) as z:
            z.extractall(dest)
        _tdms_cache[name] = sorted(dest.rglob("*.tdms"))[0]
    return _tdms_cache[name]


def gen_mask(rng, n, chunk):
    r = rng.random()
    m = np.zeros(n, bool)
    if r < 0.06:
        pass
    elif r < 0.16:
        m[:] = True
    elif r < 0.24:
        m[int(rng.integers(0, n))] = True
    elif r < 0.6:
        k = int(rng.choice([chunk - 1, chunk, chunk + 1, 2 * chunk - 1, 2 * chunk, 2 * chunk + 1]))
        k = min(max(k, 1), n)
        m[rng.choice(n, k, replace=False)] = True
    else:
        m = rng.random(n) < rng.random()
    return m


def set_mask(ds, m):
    ds.filter.manual[:] = m
    ds.apply_filter()


def build_source(ctx, rng, kind, idx):
    """-> (dataset to export from, list of objects to close, description)"""
    import dclab
    from vmon import boot
    from vmon.gen import dataset as gd
    tmp = boot.scratch()
    closers = []
    if kind == "tdms":
        name = str(rng.choice(["fmt-tdms_minimal_2016.zip", "fmt-tdms_fl-image_2016.zip",
                               "fmt-tdms_2fl-no-image_2017.zip"]))
        ds = dclab.new_dataset(tdms_fixture(name))
        closers.append(ds)
        return ds, closers, {"kind": kind, "fixture": name, "n": len(ds)}
    n = int(rng.choice([1, 9, 10, 11, 19, 20, 21, 22, 39, 41])) if rng.random() < 0.5 \
        else int(rng.integers(1, 90))
    model = gd.gen_model(rng, n=n, hostile_logs=True, roi=(int(rng.integers(4, 10)),
                                                           int(rng.integers(4, 10))))
    if kind == "hdf5short" and n > 2 and len(model["features"]) > 1:
        # interrupted recording: one feature holds fewer events than the others; the export
        # documents that it then limits the output to the shortest feature
        # (not the alphabetically first feature: that one defines the file's event count)
        f = str(rng.choice(sorted(model["features"])[1:]))
        k = int(rng.integers(1, max(2, n // 2)))
        model["features"][f] = gd.slice_feature(model["features"][f], slice(0, n - k))
        short = (f, n - k)
    else:
        short = None
    desc = {"kind": kind, "model": gd.describe(model)}
    if short:
        desc["short_feature"] = list(short)
    if kind == "dict" or (kind.startswith("hier") and rng.random() < 0.5):
        ds = dclab.new_dataset(dict(model["features"]))
        ds.config.update({s: dict(kv) for s, kv in model["meta"].items()})
        closers.append(ds)
    else:
        path = tmp / f"c02_src_{idx}.rtdc"
        gd.write_model(path, model)
        ds = dclab.new_dataset(path)
        closers.append(ds)
        desc["path"] = path.name
    if kind == "basin":
        # small file that refers to the source as a basin
        some = [f for f in ds.features_innate if rng.random() < 0.4]
        m = gen_mask(rng, len(ds), 10)
        filt = bool(rng.random() < 0.6)
        if filt and m.sum() == 0:
            m[0] = True
        set_mask(ds, m)
        p2 = tmp / f"c02_bas_{idx}.rtdc"
        explicit = bool(rng.random() < 0.5) and len(ds) >= 2
        if explicit:
            # referrer written with store_basin and a mapping that is not ascending: a
            # permutation of a subset, or with repeated indices
            from dclab import definitions as dfn_
            k = int(rng.integers(1, len(ds) + 1))
            bmap = rng.permutation(len(ds))[:k] if rng.random() < 0.7 \
                else rng.integers(0, len(ds), k)
            bmap = np.asarray(bmap, dtype=np.uint64)
            meta = {sec: dict(ds.config[sec]) for sec in dfn_.CFG_METADATA if sec in ds.config}
            meta["experiment"]["event count"] = int(k)
            with dclab.RTDCWriter(p2, mode="reset") as hw:
                hw.store_metadata(meta)
                stored_sc = [f for f in some if dfn_.scalar_feature_exists(f)]
                if not stored_sc:
                    stored_sc = [f for f in ds.features_innate
                                 if dfn_.scalar_feature_exists(f)][:1]
                for f in stored_sc:
                    hw.store_feature(f, np.asarray(ds[f][:])[bmap.astype(np.int64)])
                hw.store_basin(basin_name="mapped origin", basin_type="file",
                               basin_format="hdf5", basin_locs=[str(path)], basin_map=bmap)
            desc["basin_map"] = "explicit, not ascending"
            ctx.count("basin_sources_with_unsorted_map")
        else:
            ds.export.hdf5(p2, features=some, filtered=filt, basins=True, override=True)
        set_mask(ds, np.ones(len(ds), bool))
        ds2 = dclab.new_dataset(p2)
        closers.append(ds2)
        desc["basin_referrer"] = {"stored": some, "filtered": filt, "n": len(ds2)}
        ds = ds2
    if kind.startswith("hier"):
        depth = 1 if kind == "hier1" else 2
        for _ in range(depth):
            m = gen_mask(rng, len(ds), 10)
            if m.sum() == 0:
                m[int(rng.integers(0, len(ds)))] = True
            set_mask(ds, m)
            ds = dclab.new_dataset(ds)
            closers.append(ds)
        if rng.random() < 0.5 and len(ds) >= 3:
            # history on the hierarchy before the export: a manual exclusion in the youngest
            # member, then a filter setting of its parent changes (not applied there), then
            # the youngest member is refreshed
            import dclab.definitions as dfn_
            k_ = int(rng.integers(0, len(ds)))
            ds.filter.manual[k_] = False
            ds.apply_filter()
            par = ds.hparent
            cand = [f for f in par.features_innate if dfn_.scalar_feature_exists(f)
                    and np.isfinite(np.asarray(par[f][:], dtype=float)).all()]
            if cand:
                f0 = str(rng.choice(cand))
                vals = np.asarray(par[f0][:], dtype=float)
                lo = float(np.quantile(vals, rng.uniform(0.1, 0.5)))
                par.config["filtering"][f0 + " min"] = lo
                par.config["filtering"][f0 + " max"] = float(vals.max()) + 1.0
                ds.rejuvenate()
                desc["hierarchy_history"] = ["manual exclusion", f"parent {f0} min", "refresh"]
                ctx.count("hierarchy_sources_with_history")
        desc["child_len"] = len(ds)
    return ds, closers, desc


def short_contour_model(desc, exc, feats):
    """Defect model D57: the HDF5 contour feature takes its length from the event count, so a
    file holding fewer contours than events reports a wrong len(); the export's documented
    limitation to the shortest feature cannot see it and iterating the contours fails with
    KeyError for the first missing entry (= number of stored contours)."""
    import re
    short = desc.get("short_feature")
    m = re.search(r"object '(\d+)' doesn't exist", str(exc))
    if short and short[0] == "contour" and isinstance(exc, KeyError) and m \
            and (feats is None or "contour" in feats) \
            and int(m.group(1)) >= short[1]:
        # the first selected event beyond the stored contours
        return "h5-contour-length-taken-from-event-count"
    return None


def _pause_export_monitor():
    """Switch the export contract off for a deliberately interrupted call; -> resume()"""
    from vmon.monitors import export as emon
    saved = emon._ctx
    emon._ctx = None

    def resume():
        emon._ctx = saved
    return resume


def run_case(ctx, idx):
    import dclab
    import dclab.definitions as dfn
    from dclab.rtdc_dataset import writer
    from vmon import boot
    rng = ctx.rng(idx)
    kind = str(rng.choice(KINDS, p=[.2, .2, .13, .13, .14, .1, .1]))
    chunk_bytes = int(rng.choice([256, 4096, 1024 ** 2]))
    tmp = boot.scratch()
    writer.CHUNK_SIZE_BYTES = 1024 ** 2
    closers = []
    outs = []
    try:
        ds, closers, desc = build_source(ctx, rng, kind, idx)
        writer.CHUNK_SIZE_BYTES = chunk_bytes
        desc["chunk_bytes"] = chunk_bytes
        n = len(ds)
        avail = list(ds.features_innate)
        if kind == "basin":
            avail = sorted(set(avail) | set(f for f in ds.features_basin
                                            if not f.startswith("basinmap")))
        nsc = [f for f in avail if not dfn.scalar_feature_exists(f)]
        # export chunk length of the first non-scalar feature
        chunk = 10
        for f in nsc:
            if f in ("image", "image_bg", "mask"):
                item = np.asarray(ds[f][0])
                chunk = max(10, int(chunk_bytes // max(1, item.size * (1 if f != "mask" else 1))))
                break
        for rep in range(int(rng.integers(1, 3))):
            if rep == 0 and "hierarchy_history" in desc:
                # export the member as the refresh left it (no further apply in between)
                m = np.array(ds.filter.all, dtype=bool, copy=True)
            else:
                m = gen_mask(rng, n, chunk)
                set_mask(ds, m)
            filtered = bool(rng.random() < 0.8)
            feats = [f for f in avail if rng.random() < 0.7] or avail[:1]
            if rng.random() < 0.3 and feats:
                feats = feats + [feats[0]]
            if rng.random() < 0.2:
                feats = None
            if rng.random() < 0.2 and "index" in ds and feats is not None:
                feats.append("index")
            lg, tb = bool(rng.random() < 0.5), bool(rng.random() < 0.5)
            out = tmp / f"c02_out_{idx}_{rep}.rtdc"
            outs.append(out)
            sel = int(m.sum()) if filtered else n
            case = {"src": desc, "mask": np.flatnonzero(m).tolist(), "features": feats,
                    "filtered": filtered, "logs": lg, "tables": tb}
            if rng.random() < 0.5:
                # the client looked at some of the data before exporting
                from vmon.gen.touch import client_touch
                case["touched_before"] = client_touch(
                    rng, ds, avail, ctx, p=0.4, trace_ok=kind != "tdms")
            if rng.random() < 0.15:
                # an earlier attempt of the same export was interrupted by the user (Ctrl-C
                # while the k-th feature was written); whatever it left behind, the repeated
                # export below must contain exactly the selected events
                k_int = int(rng.integers(1, 6))
                orig_sf = writer.RTDCWriter.store_feature
                calls = [0]

                def interrupted(self_, *a_, **kw_):
                    calls[0] += 1
                    if calls[0] == k_int:
                        raise KeyboardInterrupt()
                    return orig_sf(self_, *a_, **kw_)
                writer.RTDCWriter.store_feature = interrupted
                try:
                    _mon = _pause_export_monitor()
                    try:
                        ds.export.hdf5(out, features=feats, filtered=filtered, logs=lg,
                                       tables=tb, override=True)
                    except BaseException:
                        ctx.count("exports_interrupted_before_the_repeat")
                    finally:
                        _mon()
                finally:
                    writer.RTDCWriter.store_feature = orig_sf
            try:
                ds.export.hdf5(out, features=feats, filtered=filtered, logs=lg, tables=tb,
                               override=True)
                ctx.ev("export_no_exception")
            except Exception as exc:
                import traceback
                ctx.ev("export_no_exception")
                ctx.violation("export_no_exception", dict(case, exc=repr(exc),
                                                          tb=traceback.format_exc()[-1200:]),
                              finding=short_contour_model(desc, exc, feats),
                              message=f"export.hdf5 raised {exc!r}")
            ctx.count(f"exports[{kind}]")
            if (sel > chunk and nsc and (feats is None or set(feats) & set(nsc))) \
                    or kind != "hdf5":
                ctx.mark_nontrivial(case)
            if sel > chunk and nsc:
                ctx.count("selection_crosses_export_chunk")
            # tsv
            # stored (or basin-provided) scalar features and the computed index only; other
            # computed features are the subject of C06
            scal = [f for f in ds.features_scalar if f in avail or f == "index"]
            scal = [f for f in scal if rng.random() < 0.6] or scal[:1]
            if scal and kind != "hdf5short":
                if rng.random() < 0.3:
                    scal = scal + [scal[0].upper()]
                outt = tmp / f"c02_out_{idx}_{rep}.tsv"
                outs.append(outt)
                try:
                    ds.export.tsv(outt, features=scal, filtered=filtered, override=True)
                    ctx.ev("export_no_exception")
                except Exception as exc:
                    ctx.ev("export_no_exception")
                    ctx.violation("export_no_exception", dict(case, tsv_features=scal,
                                                              exc=repr(exc)),
                                  message=f"export.tsv raised {exc!r}")
            if idx % 40 == 0 and rep == 0:
                ctx.sample(case)
    finally:
        writer.CHUNK_SIZE_BYTES = 1024 ** 2
        for c in reversed(closers):
            try:
                c.close()
            except Exception:
                pass
        for p in list(tmp.glob(f"c02_*_{idx}.rtdc")) + outs:
            try:
                p.unlink()
            except OSError:
                pass


def run(spec, ctx):
    from vmon.monitors import export as emon, writer as wmon
    wmon.install(ctx)
    emon.install(ctx)
    for idx in ctx.case_ids():
        try:
            run_case(ctx, idx)
        except Exception as exc:
            ctx.raised("c02.no_exception", f"case {idx}", exc)
