"""C13 - the integrity checker accepts dclab's own output and flags real inconsistencies.

Monitors: recording wrapper around the real dclab.rtdc_dataset.check.check_dataset.
* closure: every file produced from a complete-metadata model through a dclab write path
  (writer, filtered/unfiltered export, compress, repack, condense, split, join) must be
  reported without violations (alerts are allowed);
* invariance: a file (also a corrupted one) and its compressed / repacked copy receive the
  same violations;
* detection: single and paired seeded corruptions (raw h5py) must each produce their cue.
"""
import re
import shutil

import numpy as np

PROP = "C13"
LEVEL = "exploration"
RULE = ("closure case = complete-metadata model written through a random dclab write path; "
        "corruption case = valid file + one or two seeded inconsistencies from a catalogue of 12 "
        "kinds (feature length, ROI size x/y, unknown feature, each mandatory key removed, index, "
        "channel count, laser count, samples per event, external link, virtual dataset, "
        "non-positive set-up value), pairs touching the same object excluded. Non-trivial = "
        "closure through a CLI path or a paired corruption; distinct by hash of the case")
LEVEL_TEXT = ("Held on the observed executions: no violation cue on any dclab-produced file from "
              "complete metadata; identical violation lists before/after compress and repack; "
              "every seeded single and paired inconsistency reported with its cue. Exploration "
              "over generated datasets and the corruption catalogue.")
LEVEL_NOTE = ("trusted: the expected-cue table (regular expressions on the documented messages), "
              "raw h5py for corrupting; the generator's notion of complete metadata = the "
              "checker's documented important keys")
TECHNIQUE = ("runtime monitoring: recorded check_dataset results vs closure/invariance/detection "
             "oracles over generated files and seeded corruptions")
ASSUMPTIONS = ["alerts (soft cues) are not judged"]
MIN_EVALS = {"c13.closure": 100, "c13.detect": 200, "c13.copy_invariance": 60}
WATCHDOG_S = {"quick": 400, "thorough": 3000}

IMPORTANT = {
    "experiment": ["date", "event count", "run index", "sample", "time"],
    "imaging": ["flash device", "flash duration", "frame rate", "pixel size", "roi position x",
                "roi position y", "roi size x", "roi size y"],
    "setup": ["channel width", "chip region", "flow rate", "medium"],
}
IMPORTANT_FL = ["bit depth", "channel count", "channels installed", "laser count",
                "lasers installed", "sample rate", "samples per event", "signal max",
                "signal min", "trace median"]


def plan(tier, seed):
    nclo = 160 if tier == "quick" else 4000
    ncor = 320 if tier == "quick" else 16000
    k = 8
    sh = [{"kind": "closure", "cases": {"start": i * nclo // k, "stop": (i + 1) * nclo // k}}
          for i in range(k)]
    sh += [{"kind": "corrupt", "cases": {"start": i * ncor // k, "stop": (i + 1) * ncor // k}}
           for i in range(k)]
    return sh


def checked(ctx, path):
    """Call the real checker; returns (violations, alerts) or raises."""
    from dclab.rtdc_dataset import check
    ctx.count("check_dataset_calls")
    viol, aler, info = check.check_dataset(path)
    k = ctx.counters["check_dataset_calls"]
    if k % 2 == 0:
        # the same file checked through a dataset the client has opened and used before
        # (the documented second form of the argument): same findings
        import warnings
        import dclab.definitions as dfn
        from dclab.rtdc_dataset.load import load_file
        rng = np.random.default_rng([ctx.seed, k])
        try:
            ds = load_file(path, enable_basins=False)
        except Exception:
            ctx.count("used_dataset_form_skipped[cannot open]")
            return viol, aler
        try:
            used = []
            with np.errstate(all="ignore"), warnings.catch_warnings():
                warnings.simplefilter("ignore")
                for f in ["index"] + list(ds.features_innate):
                    if f != "index" and (not dfn.scalar_feature_exists(f)
                                         or rng.random() < 0.5):
                        continue
                    dt = [np.float32, np.int64, np.uint8, np.float16, bool, np.float64,
                          None][int(rng.integers(0, 7))]
                    try:
                        if dt is None:
                            ds[f][int(rng.integers(0, max(1, len(ds))))]
                        else:
                            np.asarray(ds[f], dtype=dt)
                        used.append([f, getattr(dt, "__name__", str(dt))])
                    except Exception:
                        ctx.count("used_dataset_form_access_refused")
                v2, a2, _ = check.check_dataset(ds)
            same = sorted(map(str, v2)) == sorted(map(str, viol)) \
                and sorted(map(str, a2)) == sorted(map(str, aler))
            ctx.check("c13.same_findings_for_used_dataset", same,
                      lambda: {"file": str(path)[-40:], "client_accesses_before": used,
                               "violations_from_path": sorted(map(str, viol)),
                               "violations_from_used_dataset": sorted(map(str, v2)),
                               "alerts_differ": sorted(map(str, a2)) != sorted(map(str, aler))},
                      message="check_dataset(<open dataset the client had read from>) reports "
                              "other findings than check_dataset(<path>) for the same file")
        except Exception as exc:
            ctx.raised("c13.no_exception", "check of a used dataset", exc,
                       {"file": str(path)[-40:]})
        finally:
            try:
                ds.close()
            except Exception:
                pass
    return viol, aler


def good_model(rng, n=None, fl=None):
    from vmon.gen import dataset as gd
    kinds = {"scalar"}
    for k, p in (("image", .6), ("mask", .4), ("trace", .4), ("int", .5)):
        if rng.random() < p:
            kinds.add(k)
    if fl:
        kinds |= {"int", "trace"}
    m = gd.gen_model(rng, n=n or int(rng.integers(2, 40)), kinds=kinds, hostile_logs=False,
                     realistic=True, special=0.05)
    if fl:
        m["features"]["fl1_max"] = rng.integers(1, 5000, m["n"])
        m["features"]["fl2_max"] = rng.integers(1, 5000, m["n"])
        tr = m["features"].get("trace")
        sh = (m["features"].get("image") if "image" in m["features"]
              else m["features"].get("mask"))
        m["meta"] = gd.complete_meta(rng, m["features"], m["n"],
                                     sh.shape[1:] if sh is not None else None, tr)
    return m


# ----------------------------------------------------------------------------- closure
def run_closure(ctx, idx):
    import dclab
    import dclab.cli as cli
    from vmon import boot
    from vmon.gen import dataset as gd
    rng = ctx.rng(idx)
    tmp = boot.scratch() / f"c13_{idx}"
    tmp.mkdir()
    from dclab.rtdc_dataset import writer as dwriter
    try:
        # chunk-size configuration: small chunks make selections of exactly k chunks reachable
        dwriter.CHUNK_SIZE_BYTES = int(rng.choice([256, 2048, 1024 ** 2]))
        ctx.count(f"chunk_bytes[{dwriter.CHUNK_SIZE_BYTES}]")
        model = good_model(rng, fl=bool(rng.random() < 0.4))
        p0 = tmp / "w.rtdc"
        long_case = idx % 48 == 5
        if long_case:
            # a long measurement stored without compression (as acquisition software may): a
            # few scalar features and the index, several storage chunks each, counts that
            # leave a remainder after the last full chunk / block of chunks
            dwriter.CHUNK_SIZE_BYTES = 1024 ** 2
            nl = int(rng.choice([400000, 300001, 655361]))
            model = good_model(rng, n=8)
            model["n"] = nl
            model["features"] = {"deform": rng.uniform(0.01, 0.2, nl),
                                 "area_um": rng.uniform(20, 200, nl).astype(np.float32)}
            model["logs"], model["tables"] = {}, {}
            model["meta"] = gd.complete_meta(rng, model["features"], nl)
            with dclab.RTDCWriter(p0, mode="reset", compression_kwargs={}) as hw:
                hw.store_metadata(model["meta"])
                for k_, v_ in model["features"].items():
                    hw.store_feature(k_, v_)
                hw.store_feature("index", np.arange(1, nl + 1))
            ctx.count("long_uncompressed_measurements")
        else:
            gd.write_model(p0, model, with_index=bool(rng.random() < 0.5))
        path_kind = str(rng.choice(["writer", "export", "export_filtered", "compress", "repack",
                                    "condense", "split", "join"]))
        if long_case:
            path_kind = str(rng.choice(["compress", "repack"]))
        files = [p0]
        if path_kind.startswith("export"):
            with dclab.new_dataset(p0) as ds:
                if path_kind == "export_filtered":
                    m = rng.random(len(ds)) < 0.6
                    m[0] = True
                    if len(ds) > 10 and rng.random() < 0.5:
                        # exactly k * 10 selected events (10 = smallest chunk length)
                        k10 = 10 * int(rng.integers(1, (len(ds) - 1) // 10 + 1))
                        m[:] = False
                        m[rng.choice(len(ds), k10, replace=False)] = True
                        ctx.count("filtered_exports_of_k_times_10_events")
                    ds.filter.manual[:] = m
                    ds.apply_filter()
                ds.export.hdf5(tmp / "e.rtdc", features=None,
                               filtered=path_kind == "export_filtered",
                               logs=True, tables=True, basins=bool(rng.random() < 0.3))
            files = [tmp / "e.rtdc"]
        elif path_kind == "compress":
            files = [cli.compress(path_in=p0, path_out=tmp / "c.rtdc", ret_path=True)]
        elif path_kind == "repack":
            files = [cli.repack(path_in=p0, path_out=tmp / "r.rtdc", ret_path=True)]
        elif path_kind == "condense":
            files = [cli.condense(path_in=p0, path_out=tmp / "d.rtdc", ret_path=True)]
        elif path_kind == "split":
            (tmp / "parts").mkdir()
            files = cli.split(path_in=p0, path_out=tmp / "parts",
                              split_events=int(rng.choice([max(1, model["n"] // 2), 10, 20])),
                              ret_out_paths=True)
        elif path_kind == "join":
            model2 = {"n": model["n"], "features": model["features"],
                      "meta": {s: dict(kv) for s, kv in model["meta"].items()},
                      "logs": {}, "tables": {}}
            model2["meta"]["experiment"]["time"] = "23:59:58"
            gd.write_model(tmp / "w2.rtdc", model2)
            files = [cli.join(paths_in=[p0, tmp / "w2.rtdc"], path_out=tmp / "j.rtdc",
                              ret_path=True)]
        # a later, separate writer session on the produced file that stores no feature data:
        # the complete metadata of the source dataset (as export does), a log, a table
        later = None
        if rng.random() < 0.45:
            from dclab import definitions as dfn
            later = str(rng.choice(["metadata", "log", "metadata+log+table",
                                    "replace scalar features"]))
            with dclab.new_dataset(p0) as ds:
                src_meta = {sec: dict(ds.config[sec]) for sec in dfn.CFG_METADATA
                            if sec in ds.config}
            for f in files:
                hmode = str(rng.choice(["append", "replace"]))
                if later == "replace scalar features":
                    # the scalar features of the file (incl. the index) are stored again in
                    # replace mode, e.g. after they were recomputed
                    import h5py
                    with h5py.File(f, "r") as h5:
                        ev = h5["events"] if "events" in h5 else {}
                        sc = {k: ev[k][:] for k in ev
                              if isinstance(ev[k], h5py.Dataset) and ev[k].ndim == 1
                              and dfn.scalar_feature_exists(k)}
                    with dclab.RTDCWriter(f, mode="replace") as hw:
                        for k in sorted(sc):
                            hw.store_feature(k, sc[k])
                    continue
                with dclab.RTDCWriter(f, mode=hmode) as hw:
                    if "metadata" in later:
                        hw.store_metadata(src_meta)
                    if "log" in later:
                        hw.store_log("later session", ["line one", "line two"])
                    if "table" in later:
                        hw.store_table("later_table", {"a": np.arange(3.), "b": np.ones(3)})
            ctx.count(f"later_session[{later}]")
            path_kind = f"{path_kind}+later:{later}"
        for f in files:
            try:
                viol, aler = checked(ctx, f)
                # the "temp feature is all-zero (loose cable)" cue is about the measured
                # values themselves, not about how the file was produced
                viol = [v for v in viol if "all-zero, check the cables" not in v]
                ctx.check("c13.closure", viol == [],
                          lambda: {"path_kind": path_kind, "violations": viol[:6],
                                   "model": gd.describe(model)},
                          message=f"checker reports violations on a file produced by dclab "
                                  f"({path_kind}): {viol[:3]}")
            except Exception as exc:
                ctx.ev("c13.closure")
                ctx.violation("c13.closure", {"path_kind": path_kind, "exc": repr(exc)},
                              message=f"checker raised on a dclab-produced file: {exc!r}")
        ctx.count(f"closure[{path_kind}]")
        if path_kind not in ("writer",):
            ctx.mark_nontrivial(["closure", path_kind, gd.describe(model)])
        if idx % 50 == 0:
            ctx.sample({"kind": "closure", "path": path_kind, "model": gd.describe(model)})
    finally:
        dwriter.CHUNK_SIZE_BYTES = 1024 ** 2
        shutil.rmtree(tmp, ignore_errors=True)


# -------------------------------------------------------------------------- corruptions
def corruption_catalogue(h5, rng):
    """-> list of (name, touches, apply(h5), cue_regex) applicable to this file."""
    import h5py
    ev = h5["events"]
    out = []
    scal = [f for f in ev if isinstance(ev[f], h5py.Dataset) and ev[f].ndim == 1
            and f not in ("index",) and ev[f].maxshape[0] is None and ev[f].shape[0] > 1]
    n = int(h5.attrs["experiment:event count"])
    if scal:
        f = str(rng.choice(scal))

        def c_len(h, f=f):
            h["events"][f].resize(h["events"][f].shape[0] - 1, axis=0)
        out.append(("feature_length", {f"events/{f}"}, c_len,
                    rf"wrong event count: '{re.escape(f)}'"))
    # the metadata event count itself contradicts the stored features (boundary values incl.)
    wrong = int(rng.choice([0, 0, 1, n - 1, n + 1, 2 * n, 10 ** 6]))
    if wrong != n:
        def c_cnt(h, wrong=wrong):
            h.attrs["experiment:event count"] = wrong
        out.append((f"event_count_value[{'zero' if wrong == 0 else 'other'}]",
                    {"experiment:event count"}, c_cnt, r"wrong event count: '"))
    for ax, dim in (("x", 2), ("y", 1)):
        for feat in ("image", "mask"):
            if feat in ev:
                def c_roi(h, ax=ax):
                    h.attrs[f"imaging:roi size {ax}"] = int(h.attrs[f"imaging:roi size {ax}"]) + 3
                out.append((f"roi_size_{ax}", {f"imaging:roi size {ax}"}, c_roi,
                            rf"Mismatch \[imaging\] 'roi size {ax}' and feature {feat}"))
                break

    imglike = [f for f in ("image", "image_bg", "mask") if f in ev]
    if len(imglike) >= 2:
        f = str(rng.choice(imglike[1:] if rng.random() < 0.7 else imglike))

        def c_shape(h, f=f):
            old = h["events"][f]
            data = old[:]
            attrs = dict(old.attrs)
            del h["events"][f]
            wider = np.concatenate([data, data[:, :, :2]], axis=2)
            new = h["events"].create_dataset(f, data=wider)
            for k, v in attrs.items():
                new.attrs[k] = v
        out.append((f"feature_shape[{f}]", {f"events/{f}", "imaging:roi size x"}, c_shape,
                    rf"Mismatch \[imaging\] 'roi size x' and feature {f}"))

    # a dataset in /events whose name dclab does not define: arbitrary names and names that
    # are *nearly* valid (one character too many / too few, wrong case, undefined number)
    unk = str(rng.choice(["peter", "peter", "ml_score_abcd", "ml_score_abc_old", "ml_score_ab",
                          "ml_score_A1c", "area_umm", "deform2", "Deform", "userdef10",
                          "fl4_max", "fl1_maxx", "bright_perc_5"]))
    if unk not in ev:
        def c_unknown(h, unk=unk):
            h["events"].create_dataset(unk, data=np.arange(n, dtype=float))
        out.append(("unknown_feature", {f"events/{unk}"}, c_unknown,
                    rf"Unknown key '{re.escape(unk)}'"))
    keys = [(s, k) for s, ks in IMPORTANT.items() for k in ks]
    if "fluorescence:bit depth" in h5.attrs:
        keys += [("fluorescence", k) for k in IMPORTANT_FL]
    s, k = keys[int(rng.integers(0, len(keys)))]
    if f"{s}:{k}" in h5.attrs:
        def c_del(h, s=s, k=k):
            del h.attrs[f"{s}:{k}"]
        out.append((f"missing[{s}:{k}]", {f"{s}:{k}"}, c_del,
                    rf"Missing key \[{s}\] '{re.escape(k)}'"))
    if "index" in ev and n > 1:
        # ways in which the index fails to enumerate 1..N; several keep the first and the last
        # entry and the length (only the inner part is wrong)
        kind_i = str(rng.choice(["shift", "reverse", "swap_inner", "one_inner_wrong",
                                 "shuffle_inner", "duplicate_inner", "zero_based"]))
        if n < 5 and kind_i in ("swap_inner", "one_inner_wrong", "shuffle_inner",
                                "duplicate_inner"):
            kind_i = "shift"

        def c_index(h, kind_i=kind_i, seed_i=int(rng.integers(0, 2 ** 31))):
            r_ = np.random.default_rng(seed_i)
            d = h["events"]["index"][:]
            m_ = len(d)
            if kind_i == "shift":
                d = d + 1
            elif kind_i == "reverse":
                d = d[::-1].copy()
            elif kind_i == "zero_based":
                d = d - 1
            elif kind_i == "swap_inner":
                a_ = int(r_.integers(1, m_ - 2))
                d[a_], d[a_ + 1] = d[a_ + 1], d[a_]
            elif kind_i == "one_inner_wrong":
                a_ = int(r_.integers(1, m_ - 1))
                d[a_] = d[a_] + m_ + 3
            elif kind_i == "shuffle_inner":
                inner = d[1:-1].copy()
                while np.array_equal(inner, d[1:-1]):
                    r_.shuffle(inner)
                d[1:-1] = inner
            else:
                a_ = int(r_.integers(1, m_ - 1))
                d[a_] = d[a_ - 1]
            h["events"]["index"][:] = d
        out.append((f"index[{kind_i}]", {"events/index"}, c_index,
                    r"index feature is not enumerated"))
    if "fluorescence:channel count" in h5.attrs:
        # a count that contradicts the data: one more, one less, or exactly zero
        def wrong_count(cur):
            opts = [cur + 1, 0] + ([cur - 1] if cur > 1 else [])
            opts = [o for o in opts if o != cur]
            return int(opts[int(rng.integers(0, len(opts)))])
        wc = wrong_count(int(h5.attrs["fluorescence:channel count"]))

        def c_chc(h, wc=wc):
            h.attrs["fluorescence:channel count"] = wc
        if int(h5.attrs["fluorescence:channel count"]) > 0:
            out.append(("channel_count", {"fluorescence:channel count"}, c_chc,
                        r"channel count inconsistent"))
        wl = wrong_count(int(h5.attrs["fluorescence:laser count"]))

        def c_lsc(h, wl=wl):
            h.attrs["fluorescence:laser count"] = wl
        if int(h5.attrs["fluorescence:laser count"]) > 0:
            out.append(("laser_count", {"fluorescence:laser count"}, c_lsc,
                        r"laser count inconsistent"))
        if "trace" in ev and len(ev["trace"]):
            ws = wrong_count(int(h5.attrs["fluorescence:samples per event"]))

            def c_spe(h, ws=ws):
                h.attrs["fluorescence:samples per event"] = ws
            out.append(("samples_per_event", {"fluorescence:samples per event"}, c_spe,
                        r"wrong number of samples per event"))

    def c_ext(h):
        h["events"]["userdef9"] = h5py.ExternalLink("elsewhere.h5", "/data")
    # an external link that cannot be resolved makes the events group unreadable for every
    # other check; it is only used as single corruption with a resolvable target
    out.append(("external_link", {"events/userdef9", "*"}, "external", r"external link"))
    out.append(("virtual_dataset", {"events/userdef8", "*"}, "virtual", r"external link"))
    sk = [("imaging", "frame rate"), ("imaging", "pixel size"), ("setup", "channel width"),
          ("setup", "flow rate")]
    s, k = sk[int(rng.integers(0, 4))]
    val = float(rng.choice([0.0, -1.0, -1e-9]))

    def c_np(h, s=s, k=k, val=val):
        h.attrs[f"{s}:{k}"] = val
    out.append((f"nonpositive[{s}:{k}]", {f"{s}:{k}"}, c_np,
                rf"Invalid value for \[{s}\] '{re.escape(k)}'"))
    return out


def apply_external(path, tmp, n):
    import h5py
    tgt = tmp / "elsewhere.h5"
    with h5py.File(tgt, "w") as h:
        h.create_dataset("data", data=np.arange(n, dtype=float))
    with h5py.File(path, "a") as h:
        h["events"]["userdef9"] = h5py.ExternalLink(str(tgt), "/data")


def apply_virtual(path, tmp, n):
    import h5py
    tgt = tmp / "elsewhere_v.h5"
    with h5py.File(tgt, "w") as h:
        h.create_dataset("data", data=np.arange(n, dtype=float))
    with h5py.File(path, "a") as h:
        layout = h5py.VirtualLayout(shape=(n,), dtype=float)
        layout[:] = h5py.VirtualSource(str(tgt), "data", shape=(n,))
        h["events"].create_virtual_dataset("userdef8", layout)


def run_corrupt(ctx, idx):
    import h5py
    import dclab.cli as cli
    from vmon import boot
    from vmon.gen import dataset as gd
    rng = ctx.rng(idx, salt=3)
    tmp = boot.scratch() / f"c13c_{idx}"
    tmp.mkdir()
    try:
        model = good_model(rng, n=int(rng.integers(3, 25)), fl=bool(rng.random() < 0.5))
        p = tmp / "v.rtdc"
        gd.write_model(p, model, with_index=bool(rng.random() < 0.7))
        with h5py.File(p, "r") as h5:
            cat = corruption_catalogue(h5, rng)
        npick = 1 if rng.random() < 0.4 else 2
        order = list(rng.permutation(len(cat)))
        chosen = []
        touched = set()
        for i in order:
            name, touches, fn, cue = cat[i]
            if touches & touched or ("*" in touches and chosen) or ("*" in touched):
                continue
            chosen.append(cat[i])
            touched |= touches
            if len(chosen) == npick:
                break
        for name, touches, fn, cue in chosen:
            if fn == "external":
                apply_external(p, tmp, model["n"])
            elif fn == "virtual":
                apply_virtual(p, tmp, model["n"])
            else:
                with h5py.File(p, "a") as h5:
                    fn(h5)
        names = [c[0] for c in chosen]
        case = {"corruptions": names, "model": gd.describe(model)}
        try:
            viol, aler = checked(ctx, p)
        except Exception as exc:
            import traceback
            ctx.ev("c13.detect")
            ctx.violation("c13.detect", dict(case, exc=repr(exc),
                                             tb=traceback.format_exc()[-1000:]),
                          message=f"checker raised instead of reporting {names}: {exc!r}")
            return
        for name, touches, fn, cue in chosen:
            if name == "feature_length" and any(
                    nm == "missing[experiment:event count]" or nm.startswith("event_count_value")
                    for nm in names):
                # without the event count the checker takes the length of the first feature
                # as the reference, and a wrong event count may coincide with the shortened
                # feature's length: the inconsistency is then reported for the *other*
                # features - the statement asks for a report, not for a particular name
                cue = r"wrong event count: '"
                ctx.count("feature_length_cue_without_event_count")
            hit = any(re.search(cue, v) for v in viol)
            ctx.check("c13.detect", hit,
                      lambda: dict(case, expected_cue=cue, violations=viol[:8]),
                      message=f"seeded inconsistency {name} not reported (cue /{cue}/); got "
                              f"{viol[:4]}")
            ctx.count(f"corruption[{name.split('[')[0]}]")
        # invariance under compress / repack (not for files with external links: the copy
        # would dereference them)
        if not {"external_link", "virtual_dataset"} & set(names) and rng.random() < 0.5:
            task = str(rng.choice(["compress", "repack"]))
            try:
                out = getattr(cli, task)(path_in=p, path_out=tmp / "copy.rtdc", ret_path=True)
                viol2, _ = checked(ctx, out)
                # documented: the copy drops datasets dclab does not define, and compress
                # (which finishes with the writer) rectifies ROI size / samples per event /
                # event count / channel count. Cues about those are not expected to survive.
                drop = r"Unknown key" if task == "repack" else \
                    r"Unknown key|roi size|samples per event|'event count'|channel count"
                # compress re-derives the event count from the first feature, so *which*
                # features are named in "wrong event count" cues may change; that there
                # is such a cue may not.
                cnt_corrupted = task == "compress" and any(
                    nm.startswith("event_count_value") for nm in names)
                if task == "compress" and not cnt_corrupted:
                    # a file whose features all have the same length (e.g. its only feature
                    # was shortened) disagrees with the stored event count only: the same
                    # documented rectification applies
                    import h5py as _h5
                    with _h5.File(p, "r") as _h:
                        _ev = _h["events"] if "events" in _h else {}
                        _lens = set()
                        for _k in _ev:
                            _o = _ev[_k]
                            if isinstance(_o, _h5.Dataset):
                                _lens.add(_o.shape[0] if _o.ndim else 0)
                            elif _k == "contour":
                                _lens.add(len(_o))
                            elif _k == "trace":
                                _lens |= {_o[_t].shape[0] for _t in _o}
                    if len(_lens) == 1:
                        cnt_corrupted = True
                        ctx.count("copy_invariance_count_only_inconsistency")

                def canon(vs):
                    vs = [v for v in vs if not re.search(drop, v)]
                    if cnt_corrupted:
                        # the wrong *metadata value* is what compress documents to rectify:
                        # cues that depend on the event count do not survive the copy
                        vs = [v for v in vs if not v.startswith("Features: wrong event count")
                              and "index feature is not enumerated" not in v]
                    if any(v.startswith("Features: wrong event count") for v in vs):
                        # with inconsistent feature lengths the (re-derived) event count
                        # decides whether the stored index still enumerates 1..N
                        vs = [v for v in vs if "index feature is not enumerated" not in v]
                    # (computing ml_class from ml_score features of different lengths is
                    # reported with numpy's "could not broadcast" text: same family)
                    vs = sorted(set("Features: wrong event count" if
                                    v.startswith("Features: wrong event count")
                                    or "could not broadcast" in v else v
                                    for v in vs))
                    if cnt_corrupted:
                        vs = [v for v in vs if v != "Features: wrong event count"]
                    return vs
                viol, viol2 = canon(viol), canon(viol2)
                ctx.check("c13.copy_invariance", viol2 == viol,
                          lambda: dict(case, task=task, before=viol[:8], after=viol2[:8]),
                          message=f"violations differ after {task}: {viol[:3]} vs {viol2[:3]}")
            except Exception as exc:
                ctx.count(f"copy_of_corrupted_file_raised[{type(exc).__name__}]")
        if len(chosen) == 2:
            ctx.mark_nontrivial(["corrupt", names, gd.describe(model)])
        if idx % 80 == 0:
            ctx.sample({"kind": "corrupt", "corruptions": names, "violations": viol[:5]})
    finally:
        shutil.rmtree(tmp, ignore_errors=True)


def run(spec, ctx):
    for idx in ctx.case_ids():
        try:
            if spec["kind"] == "closure":
                run_closure(ctx, idx)
            else:
                run_corrupt(ctx, idx)
        except Exception as exc:
            ctx.raised("c13.no_exception", f"case {idx}", exc)
